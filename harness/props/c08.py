"""C08 — tomography forward model equals the circuit's Born-rule statistics.

Sub-checks
  coeffs      calc_matA / calc_vecB / num_variables / get_coeffs_* / num_outcomes / error branches  vs  the extracted Coq model
  forward     the property predicate: for candidate objects (affine basis of variable space + random points, physical or not)
              A var + b  ==  Born distribution of every schedule, computed (a) by the model's circuit semantics (exact),
              (b) by operator-level numpy (tr(E rho)), (c) by quara itself composing the circuit (Experiment.calc_prob_dist,
              generate_prob_dists_sequence) with the candidate inserted
  prob_dists  StandardQTomography.calc_prob_dists / calc_prob_dist / calc_fisher_matrix vs the model (the code AFTER the fixes
              calc-prob-dists-mixed-outcome-counts and calc-fisher-matrix-mixed-outcome-counts: split / slice at the schedules' own
              outcome counts) and vs the property (row j = Born distribution of schedule j); on a tree without the fixes the
              mixed-count cases are reported as mixed-outcome-counts-reshape / mixed-outcome-counts-slice (DESIGN section 4 #10)
  rank        is_fullrank_matA vs exact elimination over Qc on the rational pre-image of A (guard = rank == number of columns,
              the code after fix fullrank-guard-column-rank of C09); full column rank <=> testers informationally complete
              (decided independently on the tester sets)
  witness     the witnesses of the *_refuted theorems (about the code before the fixes) replayed on the real code, which must
              now return the schedules' own distributions / Fisher matrices
  history     one tomography object re-used across candidates, callers overwriting the returned arrays: predictions stay bit-identical,
              the object's own experiment is not changed
  boundary streams inside coeffs / forward / prob_dists: single-outcome testers, more outcomes than d^2, unknowns with 1 or 5 outcomes;
              exactly-zero probabilities in first / middle positions (explicit pure testers and unknowns)

Translator tie (regen_forward): gen/c08_py2coq.py regenerates Gallina definitions of the index / stacking logic (19 functions / statements:
num_variables, num_outcomes, the four _set_coeffs, calc_c_qpt, cqpt_to_cqmpt, calc_matA, calc_vecB, the split of calc_prob_dists, the slice
of calc_fisher_matrix, the loop of Experiment.calc_prob_dists) from the CURRENT source; coq/gen/C08_Equiv.v re-proves on every run that they
equal the hand-written model for all inputs. When the tie breaks the sub-checks run with 4x the quick counts to find the failing input.
"""
import itertools, random, warnings
from fractions import Fraction
import numpy as np
from common import flow

LEVEL = "proof"
TOL = 1e-10
ERR_SCHEDULE, ERR_WIDTH, ERR_INDEX = 1, 2, 4


# ------------------------------------------------------------------ systems, exact tester operators
_SYS = {}


def get_sys(kind):
    """composite system + dense basis + the rational pre-image of the basis (B_a = kappa_a * R_a, R_a Gaussian-rational)"""
    if kind in _SYS:
        return _SYS[kind]
    from quara.objects.composite_system import CompositeSystem
    from quara.objects.elemental_system import ElementalSystem
    from quara.objects import matrix_basis as mb
    if kind == "1q":
        c = CompositeSystem([ElementalSystem(0, mb.get_normalized_pauli_basis())])
    elif kind == "3":
        c = CompositeSystem([ElementalSystem(0, mb.get_normalized_gell_mann_basis())])
    elif kind == "2q":
        c = CompositeSystem([ElementalSystem(0, mb.get_normalized_pauli_basis()), ElementalSystem(1, mb.get_normalized_pauli_basis())])
    else:
        raise AssertionError(kind)
    elems = list(c.elemental_systems) if hasattr(c, "elemental_systems") else list(c._elemental_systems)
    B = [np.array(b.toarray() if hasattr(b, "toarray") else b, dtype=complex) for b in c.basis().basis]
    d = c.dim
    assert len(B) == d * d
    # harness-side validation of the hypotheses the coefficient algebra needs (orthonormal, Hermitian, B_0 = I/sqrt d)
    G = np.array([[np.trace(a.conj().T @ b) for b in B] for a in B])
    assert np.abs(G - np.eye(d * d)).max() < 1e-12 and all(np.abs(b - b.conj().T).max() < 1e-14 for b in B)
    assert np.abs(B[0] * np.sqrt(d) - np.eye(d)).max() < 1e-14
    R, kappa = [], []
    for b in B:
        k = float(np.abs(b).max())
        r = b / k
        rq = [[(Fraction(round(z.real * 2)) / 2, Fraction(round(z.imag * 2)) / 2) for z in row] for row in r]
        back = np.array([[complex(float(x), float(y)) for x, y in row] for row in rq]) * k
        assert np.abs(back - b).max() < 1e-14, "basis element has no half-integer pre-image"
        R.append(rq); kappa.append(k)
    s = {"kind": kind, "c": c, "d": d, "n": d * d, "B": B, "R": R, "kappa": kappa, "sd": float(np.sqrt(d)), "elems": elems}
    _SYS[kind] = s
    return s


def cmul(a, b):
    return (a[0] * b[0] - a[1] * b[1], a[0] * b[1] + a[1] * b[0])


class Op:
    """an operator with exact Gaussian-rational entries: self.q[i][j] = (re, im) Fractions"""

    def __init__(self, q):
        self.q = q
        self.f = np.array([[complex(float(x), float(y)) for x, y in row] for row in q])

    def rvec(self, S):
        """exact coefficients w.r.t. the rational pre-image basis:  Re tr(R_a^dagger X)"""
        out = []
        d = S["d"]
        for Ra in S["R"]:
            acc = Fraction(0)
            for i in range(d):
                for j in range(d):
                    acc += cmul((Ra[i][j][0], -Ra[i][j][1]), self.q[i][j])[0]
            out.append(acc)
        return out

    def vec(self, S):
        return np.array([np.trace(b.conj().T @ self.f).real for b in S["B"]], dtype=np.float64)


def op_from_json(m):
    """[[ [[re_num, re_den], [im_num, im_den]], ...], ...] -> Op"""
    return Op([[(Fraction(e[0][0], e[0][1]), Fraction(e[1][0], e[1][1])) for e in row] for row in m])


def op_json(rows):
    """matrix of ints / Fractions / (re, im) pairs -> the JSON form read by op_from_json"""
    def one(z):
        re, im = z if isinstance(z, tuple) else (z, 0)
        re, im = Fraction(re), Fraction(im)
        return [[re.numerator, re.denominator], [im.numerator, im.denominator]]
    return [[one(z) for z in row] for row in rows]


def op_kron(a, b):
    """exact Kronecker product of two Ops"""
    da, db = len(a.q), len(b.q)
    return Op([[cmul(a.q[i // db][j // db], b.q[i % db][j % db]) for j in range(da * db)] for i in range(da * db)])


def rand_gauss(rng, r, c, lo=-3, hi=3):
    return [[(Fraction(rng.randint(lo, hi)), Fraction(rng.randint(lo, hi))) for _ in range(c)] for _ in range(r)]


def gram(L):
    """L L^dagger, exact"""
    r, c = len(L), len(L[0])
    G = [[(Fraction(0), Fraction(0)) for _ in range(r)] for _ in range(r)]
    for i in range(r):
        for j in range(r):
            ar = ai = Fraction(0)
            for k in range(c):
                z = cmul(L[i][k], (L[j][k][0], -L[j][k][1]))
                ar += z[0]; ai += z[1]
            G[i][j] = (ar, ai)
    return G


def qtrace(G):
    return sum(G[i][i][0] for i in range(len(G)))


def rand_state_op(rng, d):
    """density matrix L L^dagger / tr, rank 1 .. d, exactly rational"""
    while True:
        G = gram(rand_gauss(rng, d, rng.choice([1, d, d])))
        t = qtrace(G)
        if t > 0:
            return Op([[(x / t, y / t) for x, y in row] for row in G])


def rand_povm_ops(rng, d, m):
    """m effects: t*G_x for all but one position, the remaining one I - sum (PSD because t*sum G <= I); exactly rational"""
    while True:
        Gs = [gram(rand_gauss(rng, d, rng.choice([1, 2, d]))) for _ in range(m)]
        tot = sum(qtrace(G) for G in Gs)
        if tot > 0 and all(qtrace(G) > 0 for G in Gs):
            break
    t = Fraction(1) / tot
    rem = rng.randrange(m)
    E = [[[(x * t, y * t) for x, y in row] for row in G] for G in Gs]
    acc = [[(Fraction(int(i == j)), Fraction(0)) for j in range(d)] for i in range(d)]
    for x in range(m):
        if x != rem:
            acc = [[(acc[i][j][0] - E[x][i][j][0], acc[i][j][1] - E[x][i][j][1]) for j in range(d)] for i in range(d)]
    E[rem] = acc
    return [Op(e) for e in E]


def rand_kraus_hss(nprng, S, m, k=1):
    """HS matrices (w.r.t. the system's basis) of an instrument with m outcomes (m = 1: a CPTP map) from a random isometry"""
    d = S["d"]
    blocks = m * k
    M = nprng.standard_normal((blocks * d, d)) + 1j * nprng.standard_normal((blocks * d, d))
    V, _ = np.linalg.qr(M)
    hss = []
    for x in range(m):
        hs = np.zeros((d * d, d * d))
        for t in range(k):
            K = V[(x * k + t) * d:(x * k + t + 1) * d, :]
            for bi, b in enumerate(S["B"]):
                img = K @ b @ K.conj().T
                for ai, a in enumerate(S["B"]):
                    hs[ai, bi] += np.trace(a.conj().T @ img).real
        hss.append(hs)
    return hss


# ------------------------------------------------------------------ a tomography configuration
TYPES = ("qst", "povmt", "qpt", "qmpt")


def default_schedules(cfg):
    t = cfg["typ"]
    if t == "qst":
        return [[i] for i in range(len(cfg["povm_ms"]))]
    if t == "povmt":
        return [[i] for i in range(cfg["n_states"])]
    return [[i, k] for i in range(cfg["n_states"]) for k in range(len(cfg["povm_ms"]))]


def quara_schedule(t, s):
    if t == "qst":
        return [("state", 0), ("povm", s[0])]
    if t == "povmt":
        return [("state", s[0]), ("povm", 0)]
    if t == "qpt":
        return [("state", s[0]), ("gate", 0), ("povm", s[1])]
    return [("state", s[0]), ("mprocess", 0), ("povm", s[1])]


class Setup:
    """testers (exact operators + float vectors), quara tomography object, model request pieces"""

    def __init__(self, cfg, build_impl=True):
        from quara.objects.state import State
        from quara.objects.povm import Povm
        self.cfg = cfg
        t = self.typ = cfg["typ"]
        S = self.S = get_sys(cfg["sys"])
        rng = random.Random(cfg["seed"])
        d = S["d"]
        self.para = bool(cfg["para"])
        self.m = int(cfg.get("m", 0))
        # cfg["csys"]: how the testers' CompositeSystem objects come about -- "shared" (one object for everything), "fresh" (every tester and
        # every candidate on its own, EQUAL but not identical CompositeSystem built from the same ElementalSystem objects), "product" (two
        # qubits: every tester is tensor_product of one-qubit testers, which creates a new CompositeSystem per product)
        self.csys_mode = cfg.get("csys", "shared")
        self.factors = None
        if self.csys_mode == "product":
            assert cfg["sys"] == "2q"
            sf, pf = [], []
            for _ in range(cfg.get("n_states", 0)):
                sf.append((rand_state_op(rng, 2), rand_state_op(rng, 2)))
            for mm in cfg.get("povm_ms", []):
                m1 = rng.choice([k for k in range(1, mm + 1) if mm % k == 0])
                pf.append((rand_povm_ops(rng, 2, m1), rand_povm_ops(rng, 2, mm // m1)))
            self.factors = (sf, pf)
            self.state_ops = [op_kron(a, b) for a, b in sf]
            self.povm_ops = [[op_kron(x, y) for x in pa for y in pb] for pa, pb in pf]       # first factor's outcome is the major index
        else:
            self.state_ops = [rand_state_op(rng, d) for _ in range(cfg.get("n_states", 0))]
            self.povm_ops = [rand_povm_ops(rng, d, mm) for mm in cfg.get("povm_ms", [])]
        if "xstates" in cfg:            # explicit testers (boundary stream): exact Gaussian-rational operators, JSON-serialised
            self.state_ops = [op_from_json(o) for o in cfg["xstates"]]
        if "xpovms" in cfg:
            self.povm_ops = [[op_from_json(o) for o in p] for p in cfg["xpovms"]]
        self.state_vecs = [o.vec(S) for o in self.state_ops]
        self.povm_vecs = [[o.vec(S) for o in p] for p in self.povm_ops]
        self.scheds = default_schedules(cfg) if cfg["sched"] == "all" else [list(s) for s in cfg["sched"]]
        self.qt = None
        self.impl_error = None
        if build_impl:
            with warnings.catch_warnings():
                warnings.simplefilter("ignore")
                c = S["c"]
                bufs = []

                def arg(v, reuse):
                    """the array handed to quara: contiguous copy, or (layout 'views') a strided float64 view into a larger buffer.
                    reuse: the caller overwrites the buffer afterwards (only for Povm, which copies its vecs; State / Gate keep a reference
                    to the caller's array by design of their constructors -- observation outside this property)"""
                    if cfg.get("layout") == "readonly":
                        w = np.array(v, dtype=np.float64); w.setflags(write=False)
                        return w
                    if cfg.get("layout") != "views":
                        return v
                    big = np.full(3 * len(v) + 1, 9.0); big[1::3] = v
                    if reuse:
                        bufs.append(big)
                    return big[1::3]
                if self.csys_mode == "product":
                    self.states, self.povms = self._product_testers()
                else:
                    self.states = [State(self.new_c(), arg(v, False)) for v in self.state_vecs]
                    self.povms = [Povm(self.new_c(), [arg(v, True) for v in vs]) for vs in self.povm_vecs]
                sch = "all" if cfg["sched"] == "all" else [quara_schedule(t, s) for s in self.scheds]
                try:
                    self.qt = self._construct(sch)
                except Exception as e:           # error branch (compared with the model by the caller)
                    self.impl_error = e
                for big in bufs:                 # the caller re-uses its buffers: the tomography object must not alias them
                    big[...] = -3.0

    def new_c(self):
        """the CompositeSystem an object is built on: the shared one, or a new equal instance over the same ElementalSystem objects"""
        if self.csys_mode == "shared":
            return self.S["c"]
        from quara.objects.composite_system import CompositeSystem
        return CompositeSystem(list(self.S["elems"]))

    def _product_testers(self):
        from quara.objects.composite_system import CompositeSystem
        from quara.objects.operators import tensor_product
        from quara.objects.state import State
        from quara.objects.povm import Povm
        S1 = get_sys("1q")
        e0, e1 = self.S["elems"]
        sf, pf = self.factors
        states = [tensor_product(State(CompositeSystem([e0]), a.vec(S1)), State(CompositeSystem([e1]), b.vec(S1))) for a, b in sf]
        povms = [tensor_product(Povm(CompositeSystem([e0]), [o.vec(S1) for o in pa]), Povm(CompositeSystem([e1]), [o.vec(S1) for o in pb])) for pa, pb in pf]
        # the product objects must be the operators the model is given (layout of tensor_product is C07's claim; checked here as a precondition)
        for obj, v in zip(states, self.state_vecs):
            if np.abs(np.asarray(obj.vec) - v).max() > 1e-12:
                raise ValueError("tensor_product(State, State) is not the Kronecker product of the factors in the composite basis")
        for obj, vs in zip(povms, self.povm_vecs):
            if len(obj.vecs) != len(vs) or any(np.abs(np.asarray(a) - b).max() > 1e-12 for a, b in zip(obj.vecs, vs)):
                raise ValueError("tensor_product(Povm, Povm) is not the list of Kronecker products (first factor major)")
        return states, povms

    def _construct(self, sch):
        t = self.typ
        if t == "qst":
            from quara.protocol.qtomography.standard.standard_qst import StandardQst
            return StandardQst(self.povms, on_para_eq_constraint=self.para, schedules=sch)
        if t == "povmt":
            from quara.protocol.qtomography.standard.standard_povmt import StandardPovmt
            return StandardPovmt(self.states, num_outcomes=self.m, on_para_eq_constraint=self.para, schedules=sch)
        if t == "qpt":
            from quara.protocol.qtomography.standard.standard_qpt import StandardQpt
            return StandardQpt(self.states, self.povms, on_para_eq_constraint=self.para, schedules=sch)
        from quara.protocol.qtomography.standard.standard_qmpt import StandardQmpt
        return StandardQmpt(self.states, self.povms, num_outcomes=self.m, on_para_eq_constraint=self.para, schedules=sch)

    # ---- sizes known to the harness independently of quara and of the model
    def counts(self):
        t = self.typ
        ms = self.cfg.get("povm_ms", [])
        if t == "qst":
            return [ms[s[0]] for s in self.scheds]
        if t == "povmt":
            return [self.m for _ in self.scheds]
        if t == "qpt":
            return [ms[s[1]] for s in self.scheds]
        return [self.m * ms[s[1]] for s in self.scheds]

    def num_variables(self):
        n, m, t = self.S["n"], self.m, self.typ
        full = {"qst": n, "povmt": m * n, "qpt": n * n, "qmpt": m * n * n}[t]
        cut = {"qst": 1, "povmt": n, "qpt": n, "qmpt": n}[t]
        return full - cut if self.para else full

    # ---- model requests
    def request(self, mode, var=(), j=None, rational=False):
        t, S = self.typ, self.S
        ms = list(self.cfg.get("povm_ms", []))
        flat_s = [q for s in self.scheds for q in s]
        zs = [mode, int(self.para), S["d"]]
        if t == "qst":
            zs += [len(ms)] + ms
        elif t == "povmt":
            zs += [self.m, len(self.state_ops)]
        elif t == "qpt":
            zs += [len(self.state_ops), len(ms)] + ms
        else:
            zs += [self.m, len(self.state_ops), len(ms)] + ms
        zs += [len(self.scheds)] + flat_s
        if j is not None:
            zs.append(j)
        from quara.settings import Settings
        qs = [1 if rational else S["sd"], Settings.get_atol()]
        if rational:
            sv = [o.rvec(S) for o in self.state_ops]; pv = [[o.rvec(S) for o in p] for p in self.povm_ops]
        else:
            sv = [[float(x) for x in v] for v in self.state_vecs]; pv = [[[float(x) for x in v] for v in p] for p in self.povm_vecs]
        if t != "qst":
            for v in sv:
                qs += v
        if t != "povmt":
            for p in pv:
                for v in p:
                    qs += v
        qs += list(var)
        return "c08." + t, zs, qs

    # ---- the candidate object for a variable vector, laid out by the harness itself (numpy), not by quara
    def object_arrays(self, v):
        """returns what the unknown is, as arrays: state vec / list of povm vecs / hs / list of hss"""
        S, n, m, t = self.S, self.S["n"], self.m, self.typ
        v = np.asarray(v, dtype=float)
        if t == "qst":
            return np.concatenate([[1.0 / np.sqrt(S["d"])], v]) if self.para else v.copy()
        if t == "povmt":
            if self.para:
                first = v.reshape(m - 1, n)
                last = np.zeros(n); last[0] = np.sqrt(S["d"]); last = last - first.sum(axis=0)
                return [r.copy() for r in first] + [last]
            return [r.copy() for r in v.reshape(m, n)]
        if t == "qpt":
            if self.para:
                top = np.zeros((1, n)); top[0, 0] = 1.0
                return np.vstack([top, v.reshape(n - 1, n)])
            return v.reshape(n, n).copy()
        if self.para:
            first = [v[x * n * n:(x + 1) * n * n].reshape(n, n).copy() for x in range(m - 1)]
            top = np.zeros(n); top[0] = 1.0
            for h in first:
                top = top - h[0]
            rest = v[(m - 1) * n * n:].reshape(n - 1, n)
            return first + [np.vstack([top.reshape(1, n), rest])]
        return [v[x * n * n:(x + 1) * n * n].reshape(n, n).copy() for x in range(m)]

    def quara_object(self, arrs):
        from quara.objects.state import State
        from quara.objects.povm import Povm
        from quara.objects.gate import Gate
        from quara.objects.mprocess import MProcess
        c, t = self.new_c(), self.typ
        kw = dict(is_physicality_required=False, on_para_eq_constraint=self.para)
        with warnings.catch_warnings():
            warnings.simplefilter("ignore")
            if t == "qst":
                return State(c, np.array(arrs, dtype=np.float64), **kw)
            if t == "povmt":
                return Povm(c, [np.array(a, dtype=np.float64) for a in arrs], **kw)
            fort = self.cfg.get("layout") in ("views", "readonly")     # candidate matrices Fortran-ordered (same values, other memory layout)
            if t == "qpt":
                return Gate(c, np.asfortranarray(np.array(arrs, dtype=np.float64)) if fort else np.array(arrs, dtype=np.float64), **kw)
            return MProcess(c, [np.asfortranarray(np.array(a, dtype=np.float64)) if fort else np.array(a, dtype=np.float64) for a in arrs], **kw)

    def var_of_arrays(self, arrs):
        """inverse of object_arrays (harness layout)"""
        t = self.typ
        if t == "qst":
            return np.array(arrs[1:] if self.para else arrs, dtype=float)
        if t == "povmt":
            return np.concatenate(arrs[:-1] if self.para else arrs)
        if t == "qpt":
            return (arrs[1:] if self.para else arrs).flatten()
        if self.para:
            return np.concatenate([h.flatten() for h in arrs[:-1]] + [arrs[-1][1:].flatten()])
        return np.concatenate([h.flatten() for h in arrs])

    # ---- operator-level Born rule (numpy): tr(E rho), rho / E rebuilt from coefficients with the basis matrices
    def op_of(self, vec):
        return sum(float(x) * b for x, b in zip(vec, self.S["B"]))

    def born_numpy(self, arrs):
        t = self.typ
        out = []
        for s in self.scheds:
            if t == "qst":
                rho = self.op_of(arrs)
                out.append([np.trace(E.f @ rho).real for E in self.povm_ops[s[0]]])
            elif t == "povmt":
                rho = self.state_ops[s[0]].f
                out.append([np.trace(self.op_of(pv) @ rho).real for pv in arrs])
            elif t == "qpt":
                rho2 = self.op_of(arrs @ self.state_vecs[s[0]])
                out.append([np.trace(E.f @ rho2).real for E in self.povm_ops[s[1]]])
            else:
                row = []
                for hs in arrs:
                    rho2 = self.op_of(hs @ self.state_vecs[s[0]])
                    row += [np.trace(E.f @ rho2).real for E in self.povm_ops[s[1]]]
                out.append(row)
        return out

    def explicit_candidate(self, x):
        """boundary stream: the unknown given explicitly. qst: one operator; povmt: list of effect operators; qpt: Kraus list;
        qmpt: list (per outcome) of Kraus lists -- all JSON operators"""
        S, t = self.S, self.typ
        if t == "qst":
            return op_from_json(x).vec(S)
        if t == "povmt":
            return [op_from_json(o).vec(S) for o in x]

        def hs_of(kraus):
            n = S["n"]
            hs = np.zeros((n, n))
            for Kj in kraus:
                K = op_from_json(Kj).f
                for bi, b in enumerate(S["B"]):
                    img = K @ b @ K.conj().T
                    for ai, a in enumerate(S["B"]):
                        hs[ai, bi] += np.trace(a.conj().T @ img).real
            return hs
        if t == "qpt":
            return hs_of(x)
        return [hs_of(k) for k in x]

    def physical_candidate(self, nprng, mix=0.5):
        """an interior physical unknown (arrays)"""
        if "xcand" in self.cfg:
            return self.explicit_candidate(self.cfg["xcand"])
        S, t, m = self.S, self.typ, self.m
        d, n = S["d"], S["n"]
        rng = random.Random(int(nprng.integers(1 << 30)))
        if t == "qst":
            v = rand_state_op(rng, d).vec(S)
            mm = np.zeros(n); mm[0] = 1 / np.sqrt(d)
            return mix * v + (1 - mix) * mm
        if t == "povmt":
            ops = rand_povm_ops(rng, d, m)
            ide = np.zeros(n); ide[0] = np.sqrt(d)
            return [mix * o.vec(S) + (1 - mix) * ide / m for o in ops]
        dep = np.zeros((n, n)); dep[0, 0] = 1.0            # completely depolarising channel
        if t == "qpt":
            return mix * rand_kraus_hss(nprng, S, 1, k=2)[0] + (1 - mix) * dep
        w = nprng.dirichlet(np.ones(m) * 3)
        return [mix * h + (1 - mix) * wi * dep for h, wi in zip(rand_kraus_hss(nprng, S, m, k=1), w)]


def split(flat, counts):
    out, o = [], 0
    for c in counts:
        out.append(list(flat[o:o + c])); o += c
    return out


def trunc_norm(p, eps):
    p = np.asarray(p, dtype=float)
    t = np.where(p < eps, 0.0, p)
    return t / t.sum()


def fl(vals):
    return np.array([float(x) for x in vals])


# ------------------------------------------------------------------ configuration generators
def gen_cfg(rng, typ, sys, sched_kind=None, mixed=None, big=False):
    d = {"1q": 2, "3": 3, "2q": 4}[sys]
    cfg = {"typ": typ, "sys": sys, "para": rng.randrange(2), "seed": rng.getrandbits(30)}
    heavy = (sys != "1q") and typ in ("qpt", "qmpt")
    if typ in ("povmt", "qmpt"):
        cfg["m"] = rng.choice([2, 3, 4]) if not (heavy and sys == "2q") else rng.choice([2, 3])
    if typ != "qst":
        cfg["n_states"] = rng.randint(2, 3) if heavy else rng.randint(2, d * d + 1)
    if typ != "povmt":
        k = rng.randint(2, 3) if heavy else rng.randint(2, 4)
        ms = [rng.choice([2, 3, 4] if not heavy else [2, 3]) for _ in range(k)]
        if mixed is True and len(set(ms)) == 1:
            ms[0] = ms[0] + 1 if ms[0] < 4 else 2
        if mixed is False:
            ms = [ms[0]] * k
        cfg["povm_ms"] = ms
    dflt = default_schedules(cfg)
    kind = sched_kind or rng.choice(["all", "perm", "subset", "repeat", "repeat"])
    cap = 4 if heavy else (8 if sys != "1q" else 14)
    if kind == "all" and len(dflt) <= cap:
        cfg["sched"] = "all"
    elif kind == "perm" and len(dflt) <= cap:
        p = list(dflt); rng.shuffle(p); cfg["sched"] = p
    elif kind == "subset" or len(dflt) > cap:
        k = rng.randint(1, min(len(dflt), cap))
        cfg["sched"] = rng.sample(dflt, k)
    else:
        k = rng.randint(2, min(len(dflt) + 2, cap))
        cfg["sched"] = [list(rng.choice(dflt)) for _ in range(k)]
    cfg["kind"] = kind
    return cfg


def cfg_stream(ctx, n_quick, n_thorough, **kw):
    rng = ctx.rng
    n = min(n_thorough, 4 * n_quick) if (getattr(ctx, "tie_broken", False) and ctx.quick) else ctx.n(n_quick, n_thorough)
    out = []
    for i in range(n):
        typ = TYPES[i % 4]
        r = rng.random()
        if ctx.quick:
            sys = "1q" if r < 0.6 else ("3" if r < 0.85 else "2q")
            if sys != "1q" and typ in ("qpt", "qmpt") and rng.random() < 0.7:
                sys = "1q"
        else:
            sys = "1q" if r < 0.45 else ("3" if r < 0.75 else "2q")
        out.append(gen_cfg(rng, typ, sys, **kw))
    return out


def label(cfg):
    return "%s-%s-para%d" % (cfg["typ"], cfg["sys"], cfg["para"])


def mixed_counts(setup):
    return len(set(setup.counts())) > 1


# ------------------------------------------------------------------ sub-check: coefficients
def model_coeffs(ctx, setup):
    op, zs, qs = setup.request(0)
    st, val = ctx.get_model().try_call(op, zs, qs)
    if st == "err":
        return ("err", val)
    nv, rows, w = int(val[0]), int(val[1]), int(val[2])
    A = fl(val[3:3 + rows * w]).reshape(rows, w) if rows * w else np.zeros((rows, w))
    b = fl(val[3 + rows * w:])
    return ("ok", nv, A, b)


def chk_coeffs(ctx, cfg):
    setup = Setup(cfg)
    mres = model_coeffs(ctx, setup)
    site = {"qst": "StandardQst._set_coeffs", "povmt": "StandardPovmt._set_coeffs", "qpt": "standard_qpt.calc_c_qpt", "qmpt": "standard_qmpt.cqpt_to_cqmpt"}[cfg["typ"]]
    if setup.impl_error is not None or mres[0] == "err":
        kind = type(setup.impl_error).__name__ if setup.impl_error is not None else None
        code = mres[1] if mres[0] == "err" else None
        ctx.count("coeffs", key=repr(cfg), nontrivial=False, label="error-branch-%s" % code)
        expect = {ERR_SCHEDULE: ("QuaraScheduleItemError",), ERR_INDEX: ("IndexError",), ERR_WIDTH: ("ValueError",)}.get(code, ())
        if kind == "ValueError" and code is None and "experiment is not valid" in str(setup.impl_error):
            # a valid tester set (the model builds its forward model) is refused by the constructor's validity test
            ctx.violation("coeffs", "StandardQTomography.is_all_same_composite_systems", "valid-testers-rejected",
                          "constructor refuses a valid tester set (composite systems built by route '%s'): %s" % (cfg.get("csys", "shared"), str(setup.impl_error)[:120]), cfg)
        elif kind not in expect:
            ctx.violation("coeffs", site, "error-kind", "constructor: implementation %s (%s), model %s" % (kind, str(setup.impl_error)[:120], mres[:2]), cfg)
        return
    _, nv, A, b = mres
    qt = setup.qt
    Ai, bi = np.asarray(qt.calc_matA(), dtype=float), np.asarray(qt.calc_vecB(), dtype=float)
    ctx.count("coeffs", key=repr(cfg), nontrivial=len(setup.scheds) >= 2, label=label(cfg) + ("-mixed" if mixed_counts(setup) else "-equal"))
    counts = setup.counts()
    if qt.num_variables != nv or nv != setup.num_variables():
        ctx.violation("coeffs", site, "num-variables", "num_variables: implementation %s model %s expected %s" % (qt.num_variables, nv, setup.num_variables()), cfg)
    if Ai.shape != A.shape or bi.shape != b.shape:
        ctx.violation("coeffs", "StandardQTomography.calc_matA", "shape", "matA/vecB shape: implementation %s %s model %s %s" % (Ai.shape, bi.shape, A.shape, b.shape), cfg)
        return
    if Ai.shape != (sum(counts), nv):
        ctx.violation("coeffs", "StandardQTomography.calc_matA", "columns", "matA is %s, expected (%d, %d) = (sum of outcome counts, num_variables)" % (Ai.shape, sum(counts), nv), cfg)
    if np.abs(Ai - A).max(initial=0) > TOL or np.abs(bi - b).max(initial=0) > TOL:
        i = np.unravel_index(np.argmax(np.abs(Ai - A)), A.shape) if A.size else None
        ctx.violation("coeffs", site, "value", "matA/vecB differ from the model: max |dA| %.3g at %s, max |db| %.3g" % (np.abs(Ai - A).max(initial=0), i, np.abs(bi - b).max(initial=0)), cfg)
        return
    # dictionary keys: (schedule, outcome) -> row offset_j + x ; num_outcomes
    off = 0
    for j, cj in enumerate(counts):
        if qt.num_outcomes(j) != cj:
            ctx.violation("coeffs", site, "num-outcomes", "num_outcomes(%d) = %s, expected %d" % (j, qt.num_outcomes(j), cj), cfg)
        for x in (0, cj - 1):
            r1 = np.asarray(qt.get_coeffs_1st(j, x), dtype=float); r0 = float(qt.get_coeffs_0th(j, x))
            if r1.shape != (nv,) or np.abs(r1 - A[off + x]).max(initial=0) > TOL or abs(r0 - b[off + x]) > TOL:
                ctx.violation("coeffs", site, "dictionary-key", "coefficients stored under key (%d,%d) are not row %d of the stacked model" % (j, x, off + x), cfg)
        M1 = np.asarray(qt.get_coeffs_1st_mat(j), dtype=float); v0 = np.asarray(qt.get_coeffs_0th_vec(j), dtype=float)
        if M1.shape != (cj, nv) or np.abs(M1 - A[off:off + cj]).max(initial=0) > TOL or np.abs(v0 - b[off:off + cj]).max(initial=0) > TOL:
            ctx.violation("coeffs", "StandardQTomography.get_coeffs_1st_mat", "value", "per-schedule coefficient block %d differs from the model" % j, cfg)
        off += cj


def malformed_cfgs(ctx, n):
    rng = ctx.rng
    out = []
    for i in range(n):
        typ = TYPES[i % 4]
        cfg = gen_cfg(rng, typ, "1q", sched_kind="subset")
        dflt = default_schedules(cfg)
        bad = list(rng.choice(dflt))
        pos = rng.randrange(len(bad))
        lim = (len(cfg.get("povm_ms", [])) if (typ == "qst" or pos == 1) else cfg.get("n_states", 0))
        bad[pos] = lim + rng.randrange(2)
        sch = [list(s) for s in (cfg["sched"] if cfg["sched"] != "all" else dflt)]
        sch.insert(rng.randrange(len(sch) + 1), bad)
        cfg["sched"] = sch; cfg["kind"] = "bad-index"
        out.append(cfg)
    # single-outcome unknown instrument with the equality constraint: IndexError in StandardQmpt._set_coeffs
    cfg = gen_cfg(rng, "qmpt", "1q", sched_kind="all"); cfg["m"] = 1; cfg["para"] = 1; cfg["kind"] = "m1-para"
    out.append(cfg)
    cfg = gen_cfg(rng, "qmpt", "1q", sched_kind="all"); cfg["m"] = 1; cfg["para"] = 0; cfg["kind"] = "m1"
    out.append(cfg)
    return out


def boundary_cfgs(ctx, n):
    """outcome counts the random stream does not draw: single-outcome testers (the identity), more outcomes than d^2, an unknown with 1 or 5
    outcomes -- mixed with ordinary testers, any schedule kind"""
    rng = ctx.rng
    out = []
    for i in range(n):
        typ = TYPES[i % 4]
        sys = "1q" if (ctx.quick or typ in ("qpt", "qmpt") or rng.random() < 0.7) else "3"
        cfg = gen_cfg(rng, typ, sys)
        if typ != "povmt":
            k = len(cfg["povm_ms"])
            cfg["povm_ms"] = [rng.choice([1, 1, 2, 5, 6] if sys == "1q" else [1, 2, 10]) for _ in range(k)]
        if typ in ("povmt", "qmpt"):
            cfg["m"] = rng.choice([1, 5]) if not cfg["para"] else 5
            if typ == "qmpt" and sys != "1q":
                cfg["m"] = 2
        cfg["kind"] = cfg.get("kind", "") + "+boundary-counts"
        if i % 2 == 0:
            cfg["layout"] = "views" if i % 4 == 0 else "readonly"; cfg["kind"] += "+" + cfg["layout"]
        out.append(cfg)
    return out


def csys_cfgs(ctx, n):
    """composite systems built by every available route, deterministically in every run (type / route cycle, not seed dependent):
    even i -- 'fresh': each tester and each candidate on its own equal-but-not-identical CompositeSystem (1 qubit / qutrit);
    odd i  -- 'product': two-qubit testers that are tensor products of one-qubit testers (a new CompositeSystem per product)"""
    rng = ctx.rng
    out = []
    for i in range(n):
        typ = TYPES[(i // 2) % 4]
        if i % 2 == 0:
            cfg = gen_cfg(rng, typ, "1q" if (i // 8) % 2 == 0 else "3")
            cfg["csys"] = "fresh"
        else:
            cfg = gen_cfg(rng, typ, "2q")
            cfg["csys"] = "product"
            if "povm_ms" in cfg:
                cfg["povm_ms"] = [rng.choice([2, 3, 4, 6]) for _ in cfg["povm_ms"]]
        cfg["kind"] = cfg.get("kind", "") + "+csys-" + cfg["csys"]
        out.append(cfg)
    return out


P0 = [[1, 0], [0, 0]]
P1 = [[0, 0], [0, 1]]
PP = [[Fraction(1, 2), Fraction(1, 2)], [Fraction(1, 2), Fraction(1, 2)]]
PI = [[Fraction(1, 2), (0, Fraction(-1, 2))], [(0, Fraction(1, 2)), Fraction(1, 2)]]
ZERO = [[0, 0], [0, 0]]
HALF0 = [[Fraction(1, 2), 0], [0, 0]]
HALF1 = [[0, 0], [0, Fraction(1, 2)]]
ID2 = [[1, 0], [0, 1]]


def zero_prob_cfgs():
    """exactly representable boundary: pure testers / pure unknowns, so that outcome probabilities are EXACTLY zero in the first or a middle
    position (never only in the last), a zero effect in the middle of a POVM, a projective unknown"""
    J = op_json
    povms = [[J(P1), J(P0)], [J(HALF0), J(P1), J(HALF0)], [J(P0), J(ZERO), J(P1)], [J(HALF1), J(P0), J(ZERO), J(HALF1)]]
    states = [J(P0), J(P1), J(PP), J(PI)]
    out = []
    for para in (0, 1):
        for cand in (P0, P1):
            out.append({"typ": "qst", "sys": "1q", "para": para, "seed": 1, "povm_ms": [2, 3, 3, 4], "xpovms": povms, "sched": [[1], [0], [3], [2], [0]], "xcand": J(cand), "kind": "zero-prob"})
        out.append({"typ": "povmt", "sys": "1q", "para": para, "seed": 1, "m": 2, "n_states": 4, "xstates": states, "sched": "all", "xcand": [J(P1), J(P0)], "kind": "zero-prob"})
        out.append({"typ": "povmt", "sys": "1q", "para": para, "seed": 1, "m": 3, "n_states": 4, "xstates": states, "sched": [[1], [0], [3], [0]], "xcand": [J(P0), J(ZERO), J(P1)], "kind": "zero-prob"})
        out.append({"typ": "qpt", "sys": "1q", "para": para, "seed": 1, "n_states": 4, "xstates": states, "povm_ms": [2, 3], "xpovms": povms[:2], "sched": "all", "xcand": [J(ID2)], "kind": "zero-prob"})
        out.append({"typ": "qmpt", "sys": "1q", "para": para, "seed": 1, "m": 2, "n_states": 2, "xstates": states[:2], "povm_ms": [2, 3], "xpovms": povms[:2], "sched": "all",
                    "xcand": [[J(P1)], [J(P0)]], "kind": "zero-prob"})
    return out


def atol_cfgs():
    """Settings.atol = 2^-10 (exactly representable): probabilities 2^-14 (below: truncated to 0 and renormalised) and 2^-6 (above: kept),
    in first / middle positions"""
    J = op_json
    out = []
    for dlt in (Fraction(1, 2 ** 14), Fraction(1, 2 ** 6)):
        cand = [[1 - dlt, 0], [0, dlt]]
        for para in (0, 1):
            out.append({"typ": "qst", "sys": "1q", "para": para, "seed": 2, "povm_ms": [2, 3], "xpovms": [[J(P1), J(P0)], [J(HALF0), J(P1), J(HALF0)]],
                        "sched": [[1], [0]], "xcand": J(cand), "atol": 2.0 ** -10, "kind": "atol"})
            out.append({"typ": "povmt", "sys": "1q", "para": para, "seed": 2, "m": 3, "n_states": 4, "xstates": [J(P0), J(P1), J(PP), J(PI)], "sched": "all",
                        "xcand": [J([[dlt, 0], [0, 0]]), J([[1 - dlt, 0], [0, Fraction(1, 2)]]), J(HALF1)], "atol": 2.0 ** -10, "kind": "atol"})
    return out


def sub_coeffs(ctx):
    cases = cfg_stream(ctx, 60, 1200) + malformed_cfgs(ctx, ctx.n(8, 80)) + boundary_cfgs(ctx, ctx.n(8, 80)) + csys_cfgs(ctx, ctx.n(8, 64))
    ctx.sample("coeffs", cases[0]); ctx.sample("coeffs", cases[-3])
    ctx.run_cases("coeffs", chk_coeffs, cases)


# ------------------------------------------------------------------ sub-check: the forward-model property on candidate objects
def candidates(setup, nprng, n_basis, n_rand):
    """(tag, var) list: an interior physical point, affine-basis points around it, physical points, arbitrary points"""
    nv = setup.num_variables()
    out = []
    a0 = setup.physical_candidate(nprng, mix=0.5)
    v0 = setup.var_of_arrays(a0)
    out.append(("physical", v0))
    ks = list(range(nv)) if nv <= n_basis else sorted(nprng.choice(nv, size=n_basis, replace=False).tolist())
    for k in ks:
        v = v0.copy(); v[k] += 1.0 / 32
        out.append(("affine-basis", v))
    out.append(("physical", setup.var_of_arrays(setup.physical_candidate(nprng, mix=1.0))))
    for _ in range(n_rand):
        out.append(("arbitrary", nprng.integers(-8, 9, size=nv) / 8.0))
    out.append(("origin", np.zeros(nv)))
    return out


def chk_forward(ctx, cfg):
    setup = Setup(cfg)
    if setup.qt is None:
        raise setup.impl_error
    qt, S, typ = setup.qt, setup.S, cfg["typ"]
    from quara.settings import Settings
    eps = Settings.get_atol()
    nprng = np.random.default_rng(cfg["seed"])
    A, b = np.asarray(qt.calc_matA(), dtype=float), np.asarray(qt.calc_vecB(), dtype=float)
    counts = setup.counts()
    site = {"qst": "StandardQst._set_coeffs", "povmt": "StandardPovmt._set_coeffs", "qpt": "standard_qpt.calc_c_qpt", "qmpt": "standard_qmpt.cqpt_to_cqmpt"}[typ]
    m = ctx.get_model()
    attr = {"qst": "states", "povmt": "povms", "qpt": "gates", "qmpt": "mprocesses"}[typ]
    for tag, v in candidates(setup, nprng, cfg.get("n_basis", 6), cfg.get("n_rand", 2)):
        v = np.array([float(x) for x in v])
        depth = _forward_one(ctx, cfg, setup, A, b, counts, site, attr, eps, tag, v)
        ctx.count("forward", key=(repr(cfg), tuple(v.tolist())), nontrivial=(tag != "origin"), label="%s-%s-%s" % (label(cfg), tag, depth))


def _forward_one(ctx, cfg, setup, A, b, counts, site, attr, eps, tag, v):
    """returns how far the comparison went: 'born' (A v + b vs Born, model + numpy) or 'circuit' / 'circuit-valid' (also quara's composed circuit)"""
    qt, typ = setup.qt, cfg["typ"]
    m = ctx.get_model()
    case = dict(cfg, var=[float(x) for x in v])
    op, zs, qs = setup.request(1, var=[float(x) for x in v])
    vals = m.call(op, zs, qs)
    rows = int(vals[0])
    pred_m, born_m = vals[1:1 + rows], vals[1 + rows:]
    scale = 1.0 + float(np.abs(v).max(initial=0))
    arrs = setup.object_arrays(v)
    born_np = setup.born_numpy(arrs)
    pred_i = A @ v + b
    bm = fl(born_m)
    valid = bool(len(bm)) and all((min(r) >= 1e-6 and abs(sum(r) - 1) < 1e-9) for r in split(bm, counts))
    # (0) executed instance of the theorem: the model's A v + b IS the model's circuit semantics, exactly
    if list(pred_m) != list(born_m):
        ctx.violation("forward", "Model/C08_Forward.v", "theorem-instance", "model: A var + b differs from the Born distributions (exact rationals) for a %s candidate" % tag, case)
        return "failed"
    if rows != sum(counts) or len(pred_i) != rows:
        ctx.violation("forward", site, "row-count", "rows: implementation %d, model %d, expected %d" % (len(pred_i), rows, sum(counts)), case)
        return "failed"
    # (1) the property: implementation's affine model vs circuit semantics (model, exact) and vs operator-level numpy
    flat_np = np.array([p for r in born_np for p in r])
    if np.abs(flat_np - bm).max(initial=0) > TOL * scale:
        ctx.violation("forward", "harness/props/c08.py", "model-born-vs-operator-born", "the model's coefficient-level circuit semantics and the operator-level Born rule tr(E rho) disagree (%.3g)" % np.abs(flat_np - bm).max(), case)
        return "failed"
    if np.abs(pred_i - bm).max(initial=0) > TOL * scale:
        k = int(np.argmax(np.abs(pred_i - bm)))
        ctx.violation("forward", site, "affine-model-neq-born", "A var + b differs from the Born distribution of the circuit for a %s candidate: row %d predicts %.12g, circuit gives %.12g" % (tag, k, pred_i[k], bm[k]), case)
        return "failed"
    # (1b) quara's own var -> object map (what the estimators use to hand back an estimate) lays the object out as the model does
    with warnings.catch_warnings():
        warnings.simplefilter("ignore")
        qobj = qt.convert_var_to_qoperation(np.array(v, dtype=np.float64))
    got = {"qst": lambda o: [o.vec], "povmt": lambda o: list(o.vecs), "qpt": lambda o: [o.hs], "qmpt": lambda o: list(o.hss)}[typ](qobj)
    want = arrs if typ in ("povmt", "qmpt") else [arrs]
    if len(got) != len(want) or any(np.asarray(g).shape != np.asarray(w).shape or np.abs(np.asarray(g, dtype=float) - np.asarray(w, dtype=float)).max(initial=0) > 1e-12 * scale for g, w in zip(got, want)):
        ctx.violation("forward", "%s.convert_var_to_qoperation" % type(qt).__name__, "var-to-object", "convert_var_to_qoperation(var) is not the object the forward model is about (object_of_var in the model) for a %s candidate" % tag, case)
        return "failed"
    # (2) quara composes the circuit itself
    if typ == "qmpt" and not valid:
        return "born"           # the ensemble path renormalises per instrument outcome; only the identity on valid distributions
    parts = split(bm, counts)
    if any(np.where(np.array(r) < eps, 0, r).sum() < 1e-6 for r in parts):
        return "born"           # nothing left after truncation
    if any(abs(p - eps) < 1e-9 or (0 < abs(p) < 1e-9) for p in bm):
        return "born"           # entries next to the truncation threshold
    expected = [trunc_norm(r, eps) for r in parts]
    obj = setup.quara_object(arrs)
    vq = np.asarray(obj.to_var() if setup.para else obj.to_stacked_vector(), dtype=float)
    if vq.shape != v.shape or np.abs(vq - v).max(initial=0) > 1e-12 * scale:
        ctx.violation("forward", "%s.to_var" % type(obj).__name__, "var-layout", "object built from var by the model's layout does not return var (to_var / to_stacked_vector)", case)
        return "failed"
    exp = qt._experiment.copy()
    for j in range(len(exp.schedules)):
        getattr(exp, attr)[qt._get_target_index(exp, j)] = obj
    with warnings.catch_warnings():
        warnings.simplefilter("ignore")
        circ = [np.asarray(exp.calc_prob_dist(j), dtype=float) for j in range(len(exp.schedules))]
        seq = [np.asarray(p, dtype=float) for p in qt.generate_prob_dists_sequence(obj)]
    for j, (c, e) in enumerate(zip(circ, expected)):
        if c.shape != e.shape or np.abs(c - e).max(initial=0) > 1e-9:
            ctx.violation("forward", "Experiment.calc_prob_dist", "circuit-dist-neq-model", "schedule %d %s: quara's composed circuit gives %s, Born rule %s" % (j, setup.scheds[j], c.tolist(), e.tolist()), case)
            return "failed"
    if len(seq) != len(circ) or any(a.shape != c.shape or np.abs(a - c).max(initial=0) > 1e-12 for a, c in zip(seq, circ)):
        ctx.violation("forward", "StandardQTomography.generate_prob_dists_sequence", "value", "generate_prob_dists_sequence differs from composing each schedule with the object inserted", case)
        return "failed"
    if valid:
        for j, (c, r) in enumerate(zip(circ, split(pred_i, counts))):
            if np.abs(c - np.array(r)).max(initial=0) > 1e-9:
                ctx.violation("forward", site, "affine-model-neq-circuit", "schedule %d: A var + b = %s but the composed circuit gives %s" % (j, list(r), c.tolist()), case)
                return "failed"
        return "circuit-valid"
    return "circuit"


def sub_forward(ctx):
    cases = cfg_stream(ctx, 48, 900) + boundary_cfgs(ctx, ctx.n(8, 60)) + csys_cfgs(ctx, ctx.n(4, 32))
    for c in cases:
        heavy = c["sys"] != "1q" and c["typ"] in ("qpt", "qmpt")
        c["n_basis"] = 3 if heavy else (6 if ctx.quick else 40)
        c["n_rand"] = 1 if heavy else 2
    ctx.sample("forward", cases[0]); ctx.sample("forward", cases[3])
    ctx.run_cases("forward", chk_forward, cases)


# ------------------------------------------------------------------ sub-check: calc_prob_dist(s), Fisher slicing
def impl_prob_dists(qt, obj):
    """('ok', [row arrays], container) / ('err', message): quara's calc_prob_dists; the container is a 2-D ndarray (equal outcome
    counts) or a list of 1-D arrays (mixed counts, after fix calc-prob-dists-mixed-outcome-counts) -- compared row by row"""
    try:
        with warnings.catch_warnings():
            warnings.simplefilter("ignore")
            r = qt.calc_prob_dists(obj)
    except ValueError as e:
        return ("err", str(e), None)
    return ("ok", [np.asarray(x, dtype=float).ravel() for x in r], "ndarray" if isinstance(r, np.ndarray) else type(r).__name__)


def rows_match(rows, expected, tol=1e-9):
    return len(rows) == len(expected) and all(len(r) == len(e) and np.abs(np.asarray(r) - np.asarray(e)).max(initial=0) < tol for r, e in zip(rows, expected))


def chk_prob_dists(ctx, cfg):
    from quara.settings import Settings
    if "atol" not in cfg:
        return _chk_prob_dists(ctx, cfg)
    old = Settings.get_atol()             # non-default global configuration: the truncation threshold follows Settings.atol
    Settings.set_atol(float(cfg["atol"]))
    try:
        return _chk_prob_dists(ctx, cfg)
    finally:
        Settings.set_atol(old)


def _chk_prob_dists(ctx, cfg):
    setup = Setup(cfg)
    if setup.qt is None:
        raise setup.impl_error
    qt, typ = setup.qt, cfg["typ"]
    from quara.settings import Settings
    eps = Settings.get_atol()
    nprng = np.random.default_rng(cfg["seed"] + 1)
    counts = setup.counts()
    mixed = len(set(counts)) > 1
    arrs = setup.physical_candidate(nprng, mix=0.6)
    v = np.array([float(x) for x in setup.var_of_arrays(arrs)])
    obj = setup.quara_object(arrs)
    case = dict(cfg, var=v.tolist())
    m = ctx.get_model()
    op, zs, qs = setup.request(1, var=v.tolist())
    vals = m.call(op, zs, qs)
    rows = int(vals[0])
    born = split(fl(vals[1 + rows:]), counts)
    # truncate_and_normalize zeroes entries < eps (1e-13): the float prediction and the exact one can only decide differently when the
    # exact value is within rounding noise of eps; exact zeros / tiny negatives are decided alike on both sides and ARE compared
    if any(abs(p - eps) < 1e-14 for r in born for p in r) or any(sum(x for x in r if x >= eps) < 1e-6 for r in born):
        ctx.count("prob_dists", key=repr(cfg), nontrivial=False, label="next-to-truncation-threshold")
        return
    expected = [trunc_norm(r, eps) for r in born]
    # --- the model of calc_prob_dists (np.split at the cumulative num_outcomes, truncate_and_normalize per schedule)
    op, zs, qs = setup.request(2, var=v.tolist())
    val = m.call(op, zs, qs)
    k = int(val[0])
    lens = [int(x) for x in val[1:1 + k]]
    mod = split(fl(val[1 + k:]), lens)
    site = "StandardQTomography.calc_prob_dists"
    # executed instance of C08_calc_prob_dists_rows: the model's rows are the schedules' (truncated, normalised) Born vectors
    if lens != counts or not rows_match(mod, expected, 1e-12):
        ctx.violation("prob_dists", "Model/C08_Forward.v", "theorem-instance", "model: calc_prob_dists rows (lengths %s) are not the schedules' Born distributions (lengths %s)" % (lens, counts), case)
        return
    impl = impl_prob_dists(qt, obj)
    zero = any(p < eps for r in born for p in r)
    ctx.count("prob_dists", key=repr(cfg), nontrivial=True, label="%s-%s-%s%s%s" % (typ, "mixed" if mixed else "equal", impl[2] if impl[0] == "ok" else "raises",
              "-with-zero-probability" if zero else "", "-atol%g" % cfg["atol"] if "atol" in cfg else ""))
    # --- the property: row j must be the Born distribution of schedule j (== the model, by the theorem instance above)
    if impl[0] != "ok" or not rows_match(impl[1], expected):
        what = ("raises ValueError (%s)" % impl[1][:80]) if impl[0] == "err" else "returns rows %s, the schedules' Born distributions are %s" % ([np.round(r, 6).tolist() for r in impl[1]], [np.round(e, 6).tolist() for e in expected])
        sig = "mixed-outcome-counts-reshape" if mixed else "value"
        ctx.violation("prob_dists", site, sig, "outcome counts %s: calc_prob_dists %s" % (counts, what), case)
    else:
        for j in range(len(counts)):
            with warnings.catch_warnings():
                warnings.simplefilter("ignore")
                pj = np.asarray(qt.calc_prob_dist(obj, j), dtype=float)
            if pj.shape != expected[j].shape or np.abs(pj - expected[j]).max(initial=0) > 1e-9:
                ctx.violation("prob_dists", "StandardQTomography.calc_prob_dist", "value", "calc_prob_dist(obj, %d) differs from the Born distribution" % j, case)
                break
    # --- the candidate object's OWN parametrisation flag differs from the tomography object's: never a silently different prediction
    if impl[0] == "ok" and rows_match(impl[1], expected):
        kw = dict(is_physicality_required=False, on_para_eq_constraint=not setup.para)
        from quara.objects.state import State
        from quara.objects.povm import Povm
        from quara.objects.gate import Gate
        from quara.objects.mprocess import MProcess
        c_ = setup.S["c"]
        with warnings.catch_warnings():
            warnings.simplefilter("ignore")
            other = {"qst": lambda: State(c_, np.array(arrs, dtype=np.float64), **kw), "povmt": lambda: Povm(c_, [np.array(a, dtype=np.float64) for a in arrs], **kw),
                     "qpt": lambda: Gate(c_, np.array(arrs, dtype=np.float64), **kw), "qmpt": lambda: MProcess(c_, [np.array(a, dtype=np.float64) for a in arrs], **kw)}[typ]()
            try:
                r2 = ("ok", [np.asarray(x, dtype=float).ravel() for x in qt.calc_prob_dists(other)])
            except (ValueError, IndexError) as e:
                r2 = ("err", str(e))
        ctx.count("prob_dists", key=(repr(cfg), "other-flag"), nontrivial=True, label="candidate-with-other-flag-%s" % ("predicted" if r2[0] == "ok" else "rejected"))
        if r2[0] == "ok" and not rows_match(r2[1], expected):
            ctx.violation("prob_dists", site, "candidate-flag-mismatch-silent", "tomography flag %s, candidate object built with flag %s: calc_prob_dists returns %s instead of the Born distributions %s (or an error)" % (
                setup.para, not setup.para, [np.round(r, 6).tolist() for r in r2[1]], [np.round(e, 6).tolist() for e in expected]), case)
    # --- Fisher slicing
    if "atol" in cfg or not setup.para or min(min(r) for r in born) < 1e-6:
        return                       # calc_fisher_matrix always uses to_var(); needs strictly positive probabilities (and replaces sub-threshold ones)
    A = np.asarray(qt.calc_matA(), dtype=float)
    S_ = len(counts)
    fsite = "StandardQTomography.calc_fisher_matrix"
    for j in sorted(nprng.choice(S_, size=min(S_, 3), replace=False).tolist()):
        off = sum(counts[:j])
        want = sum(np.outer(A[off + x], A[off + x]) / born[j][x] for x in range(counts[j]))
        opm, zsm, qsm = setup.request(4, var=v.tolist(), j=j)
        sl = fl(m.call(opm, zsm, qsm))
        ctx.count("prob_dists", key=(repr(cfg), "fisher", j), nontrivial=True, label="fisher-%s" % ("mixed" if mixed else "equal"))
        # executed instance of C08_fisher_slice: the slice the model takes for schedule j is schedule j's Born distribution
        if len(sl) != counts[j] or np.abs(sl - np.asarray(born[j])).max(initial=0) > 1e-12:
            ctx.violation("prob_dists", "Model/C08_Forward.v", "theorem-instance", "model: the Fisher slice of schedule %d is not that schedule's Born distribution" % j, dict(case, j=j))
            return
        try:
            got = ("ok", np.asarray(qt.calc_fisher_matrix(j, v), dtype=float))
        except ValueError as e:
            got = ("err", str(e))
        if got[0] != "ok" or got[1].shape != want.shape or np.abs(got[1] - want).max() > 1e-6 * (1 + np.abs(want).max()):
            size = int(len(A) / S_)
            sig = "mixed-outcome-counts-slice" if mixed else "value"
            ctx.violation("prob_dists", fsite, sig, "outcome counts %s, schedule %d: Fisher matrix %s; rows of the schedule [%d,%d)%s" % (
                counts, j, ("raises ValueError (%s)" % got[1][:60]) if got[0] == "err" else "differs from sum_x grad p_x grad p_x^T / p_x", off, off + counts[j],
                (" (an even split would use rows [%d,%d))" % (size * j, size * (j + 1))) if mixed else ""), dict(case, j=j))
            return


def cfg_counts(cfg):
    """outcome counts of the scheduled circuits, from the configuration alone"""
    ms = cfg.get("povm_ms", [])
    sch = default_schedules(cfg) if cfg["sched"] == "all" else cfg["sched"]
    t = cfg["typ"]
    if t == "povmt":
        return [cfg["m"]] * len(sch)
    return [ms[s[0]] if t == "qst" else ms[s[1]] * (cfg["m"] if t == "qmpt" else 1) for s in sch]


def sub_prob_dists(ctx):
    rng = ctx.rng
    cases = []
    n = ctx.n(40, 900)
    for i in range(n):
        typ = TYPES[i % 4]
        sys = "1q" if (ctx.quick or rng.random() < 0.6 or typ in ("qpt", "qmpt")) else rng.choice(["3", "2q"])
        want_mixed = None if typ == "povmt" else (i % 3 != 0)          # two thirds mixed outcome counts, one third equal
        cfg = gen_cfg(rng, typ, sys, mixed=want_mixed)
        if want_mixed and len(set(cfg_counts(cfg))) == 1:
            # the schedule list happened to use testers of one size only: append one schedule with a tester of another size
            # (repetitions and arbitrary orders are valid schedule lists)
            dflt = default_schedules(cfg)
            cur = cfg_counts(cfg)[0]
            sch = [list(s) for s in (dflt if cfg["sched"] == "all" else cfg["sched"])]
            other = [s for s in dflt if cfg_counts(dict(cfg, sched=[s]))[0] != cur]
            if other:
                sch.insert(rng.randrange(len(sch) + 1), list(rng.choice(other)))
                cfg["sched"] = sch; cfg["kind"] = cfg.get("kind", "") + "+mixed"
        cases.append(cfg)
    cases += boundary_cfgs(ctx, ctx.n(8, 60)) + zero_prob_cfgs() + atol_cfgs() + csys_cfgs(ctx, ctx.n(4, 32))
    ctx.sample("prob_dists", cases[0])
    ctx.run_cases("prob_dists", chk_prob_dists, cases)


# ------------------------------------------------------------------ sub-check: rank and informational completeness
def exact_rank(ctx, rows):
    """rows: list of lists of Fractions"""
    if not rows:
        return 0
    v = ctx.get_model().call("c08.rank", [len(rows), len(rows[0])], [x for r in rows for x in r])
    return int(v[0])


def chk_rank(ctx, cfg):
    setup = Setup(cfg)
    if setup.qt is None:
        raise setup.impl_error
    qt, S, typ = setup.qt, setup.S, cfg["typ"]
    m = ctx.get_model()
    # exact rank of the rational pre-image of A (A = A_R * diag(kappa-products): same rank); tie checked numerically below
    op, zs, qs = setup.request(0, rational=True)
    val = m.call(op, zs, qs)
    nv, rows, w = int(val[0]), int(val[1]), int(val[2])
    AR = [list(val[3 + i * w:3 + (i + 1) * w]) for i in range(rows)]
    op, zs, qs = setup.request(3, rational=True)
    rk, full_guard, full_col, full_min = [int(x) for x in m.call(op, zs, qs)]     # full_guard: is_fullrank_matA (rank == columns)
    A = np.asarray(qt.calc_matA(), dtype=float)
    ARf = np.array([[float(x) for x in r] for r in AR]).reshape(rows, w)
    # column scaling tie: A[:, c] = A_R[:, c] * const_c
    ok_tie = A.shape == ARf.shape
    if ok_tie:
        for c in range(w):
            nz = np.abs(ARf[:, c]) > 1e-12
            if nz.any():
                ratio = A[nz, c] / ARf[nz, c]
                ok_tie &= bool(np.abs(ratio - ratio[0]).max() < 1e-9 and abs(ratio[0]) > 1e-3 and np.abs(A[~nz, c]).max(initial=0) < 1e-12)
            else:
                ok_tie &= bool(np.abs(A[:, c]).max(initial=0) < 1e-12)
    sv = np.linalg.svd(A, compute_uv=False) if A.size else np.array([])
    gap_ok = (rk == 0 or sv[rk - 1] > 1e-7 * sv[0]) and (rk == len(sv) or sv[rk] < 1e-12 * sv[0])
    ctx.count("rank", key=repr(cfg), nontrivial=bool(gap_ok and ok_tie), label="%s-%s-rank%s%s" % (typ, cfg["sys"], "full" if full_col else "deficient", "" if rows >= w else "-wide"))
    if not ok_tie:
        ctx.violation("rank", "harness/props/c08.py", "rational-preimage-tie", "A is not a column scaling of the model's A on the rational pre-image testers", cfg)
        return
    if not gap_ok:
        return        # numerically ambiguous: counted as trivial, nothing asserted
    impl = bool(qt.is_fullrank_matA())
    if impl != bool(full_guard):
        # after fix fullrank-guard-column-rank (owner C09) the guard is "rank == number of columns"; the old guard
        # (rank == min(shape)) differs exactly on wide matrices with independent rows
        sig = "wide-matA-passes-guard" if (rows < w and impl and full_min) else "value"
        ctx.violation("rank", "StandardQTomography.is_fullrank_matA", sig, "is_fullrank_matA() = %s; exact rank %d of a %dx%d matrix (full column rank: %s)" % (impl, rk, rows, w, bool(full_col)), cfg)
    # the property: full column rank <=> informationally complete, IC decided on the tester sets alone
    ic = ic_testers(ctx, setup)
    if ic is not None and ic != bool(full_col):
        ctx.violation("rank", "StandardQTomography.calc_matA", "fullrank-iff-ic", "testers informationally complete: %s, but exact column rank of A is %d of %d" % (ic, rk, w), cfg)


def ic_testers(ctx, setup):
    """informational completeness decided on the (exact) tester operators and the schedule list, without A:
    QST: scheduled effects span; POVMT: scheduled states span; QPT/QMPT: scheduled pairs effect (x) state span
    (for product schedule sets: effects span and states span)."""
    S, typ = setup.S, setup.typ
    n = S["n"]
    if typ == "qst":
        eff = [o.rvec(S) for s in setup.scheds for o in setup.povm_ops[s[0]]]
        return exact_rank(ctx, eff) == n
    if typ == "povmt":
        st = [setup.state_ops[s[0]].rvec(S) for s in setup.scheds]
        return exact_rank(ctx, st) == n
    pairs = set((s[0], s[1]) for s in setup.scheds)
    si, pk = set(i for i, _ in pairs), set(k for _, k in pairs)
    if pairs != set((i, k) for i in si for k in pk):
        return None                      # not a product set of schedules: no independent criterion used
    st = [setup.state_ops[i].rvec(S) for i in sorted(si)]
    eff = [o.rvec(S) for k in sorted(pk) for o in setup.povm_ops[k]]
    return exact_rank(ctx, st) == n and exact_rank(ctx, eff) == n


def sub_rank(ctx):
    rng = ctx.rng
    cases = []
    n = ctx.n(36, 720)
    for i in range(n):
        typ = TYPES[i % 4]
        sys = "1q" if (typ in ("qpt", "qmpt") or rng.random() < 0.7) else "3"
        if typ == "qst" and (not ctx.quick) and rng.random() < 0.2:
            sys = "2q"
        d = {"1q": 2, "3": 3, "2q": 4}[sys]
        cfg = {"typ": typ, "sys": sys, "para": rng.randrange(2), "seed": rng.getrandbits(30)}
        complete = rng.random() < 0.6
        if typ in ("povmt", "qmpt"):
            cfg["m"] = rng.choice([2, 3]) if typ == "qmpt" else rng.choice([2, 3, 4])
        if typ != "qst":
            cfg["n_states"] = rng.randint(d * d, d * d + 2) if complete else rng.randint(1, d * d - 1)
        if typ != "povmt":
            k = rng.randint(d + 1, d + 3) if (complete or typ != "qst") else rng.randint(1, 2)
            cfg["povm_ms"] = [rng.choice([2, 3, 4]) for _ in range(k)]
            if typ != "qst" and not complete and rng.random() < 0.5:
                cfg["povm_ms"] = [2]
        dflt = default_schedules(cfg)
        kind = rng.choice(["all", "perm", "repeat"])
        if kind == "all":
            cfg["sched"] = "all"
        elif kind == "perm":
            p = list(dflt); rng.shuffle(p); cfg["sched"] = p
        else:
            cfg["sched"] = dflt + [list(rng.choice(dflt)) for _ in range(2)]
        cfg["kind"] = kind
        cases.append(cfg)
    ctx.sample("rank", cases[0])
    ctx.run_cases("rank", chk_rank, cases)


# ------------------------------------------------------------------ sub-check: witnesses of the refuted theorems on the real code
WITNESSES = [
    # QST, one qubit, normalised Pauli basis, testers given by their Bloch form  E = a0 I + a.sigma ; state (I + 0.3X + 0.2Y + 0.5Z)/2
    {"name": "reshape-error", "povms": [[[0.25, 0, 0, 0.25], [0.25, 0.25, 0, 0], [0.5, -0.25, 0, -0.25]], [[0.5, 0, 0.5, 0], [0.5, 0, -0.5, 0]]]},
    {"name": "mis-split", "povms": [[[0.25, 0, 0, 0.25], [0.25, 0, 0, -0.25], [0.25, 0.25, 0, 0], [0.25, -0.25, 0, 0]], [[0.5, 0, 0.5, 0], [0.5, 0, -0.5, 0]]]},
]


def chk_witness(ctx, case):
    """the Coq witnesses of C08_calc_prob_dists_reshape_mixed_refuted / C08_fisher_evenslice_mixed_refuted (Props/C08.v: statements about
    the code BEFORE the fixes) replayed on quara: the repaired code must return the schedules' own distributions
    (C08_example_calc_prob_dists_mixed is the same computation in the model)"""
    from quara.objects.state import State
    from quara.objects.povm import Povm
    from quara.protocol.qtomography.standard.standard_qst import StandardQst
    S = get_sys("1q")
    c = S["c"]
    r2 = np.sqrt(2.0)
    povms = [Povm(c, [np.array(e, dtype=float) * r2 for e in p]) for p in case["povms"]]        # vec = sqrt2 * (a0, a)
    counts = [len(p) for p in case["povms"]]
    truth = [[2 * (e[0] * 0.5 + 0.5 * (e[1] * 0.3 + e[2] * 0.2 + e[3] * 0.5)) for e in p] for p in case["povms"]]
    for para in (False, True):
        st = State(c, np.array([1.0, 0.3, 0.2, 0.5]) / r2, on_para_eq_constraint=para)
        qt = StandardQst(povms, on_para_eq_constraint=para)
        circ = qt.generate_prob_dists_sequence(st)
        ctx.count("witness", key=(case["name"], para), nontrivial=True, label=case["name"])
        if any(np.abs(np.array(a) - np.array(b)).max() > 1e-12 for a, b in zip(circ, truth)):
            ctx.violation("witness", "Experiment.calc_prob_dist", "witness-circuit", "composed circuit %s differs from the hand-computed Born distributions %s" % (circ, truth), case)
        got = impl_prob_dists(qt, st)
        if got[0] != "ok" or not rows_match(got[1], truth):
            ctx.violation("witness", "StandardQTomography.calc_prob_dists", "mixed-outcome-counts-reshape",
                          "outcome counts %s: calc_prob_dists %s; the schedules' distributions are %s" % (counts, ("raises ValueError: " + got[1][:70]) if got[0] == "err" else "returns " + str([np.round(r, 6).tolist() for r in got[1]]), truth), case)
        if not para:
            continue
        A = np.asarray(qt.calc_matA(), dtype=float)
        for j in range(len(counts)):
            off = sum(counts[:j])
            want = sum(np.outer(A[off + x], A[off + x]) / truth[j][x] for x in range(counts[j]))
            try:
                f = ("ok", np.asarray(qt.calc_fisher_matrix(j, st), dtype=float))
            except ValueError as e:
                f = ("err", str(e))
            ctx.count("witness", key=(case["name"], "fisher", j), nontrivial=True, label=case["name"] + "-fisher")
            if f[0] != "ok" or f[1].shape != want.shape or np.abs(f[1] - want).max() > 1e-9:
                ctx.violation("witness", "StandardQTomography.calc_fisher_matrix", "mixed-outcome-counts-slice",
                              "outcome counts %s, schedule %d: Fisher matrix %s; rows of the schedule [%d,%d)" % (counts, j, ("raises ValueError: " + f[1][:70]) if f[0] == "err" else "differs from sum_x grad p_x grad p_x^T / p_x", off, off + counts[j]), case)
                break


def sub_witness(ctx):
    ctx.sample("witness", WITNESSES[0])
    ctx.run_cases("witness", chk_witness, WITNESSES)


# ------------------------------------------------------------------ sub-check: one tomography object re-used across calls
def chk_history(ctx, cfg):
    """the forward model of ONE tomography object must predict the same (Born) distributions for a candidate before and after the object was
    used with other candidates, after its returned arrays were overwritten by the caller, and generate_prob_dists_sequence must not leave the
    candidate inside the object's own experiment"""
    setup = Setup(cfg)
    if setup.qt is None:
        raise setup.impl_error
    qt, typ = setup.qt, cfg["typ"]
    from quara.settings import Settings
    eps = Settings.get_atol()
    nprng = np.random.default_rng(cfg["seed"] + 7)
    counts = setup.counts()
    arrs1 = setup.physical_candidate(nprng, mix=0.6); arrs2 = setup.physical_candidate(nprng, mix=0.9)
    v1 = np.array([float(x) for x in setup.var_of_arrays(arrs1)])
    obj1, obj2 = setup.quara_object(arrs1), setup.quara_object(arrs2)
    m = ctx.get_model()
    op, zs, qs = setup.request(1, var=v1.tolist())
    vals = m.call(op, zs, qs)
    rows = int(vals[0])
    born = split(fl(vals[1 + rows:]), counts)
    if any(abs(p - eps) < 1e-14 for r in born for p in r):
        ctx.count("history", key=repr(cfg), nontrivial=False, label="next-to-truncation-threshold")
        return
    expected = [trunc_norm(r, eps) for r in born]
    exp_ = qt._experiment
    attr = {"qst": "states", "povmt": "povms", "qpt": "gates", "qmpt": "mprocesses"}[typ]
    slots0 = [id(x) for x in getattr(exp_, attr)]
    sched0 = [list(sc) for sc in exp_.schedules]
    with warnings.catch_warnings():
        warnings.simplefilter("ignore")
        A0, b0 = np.array(qt.calc_matA(), dtype=float), np.array(qt.calc_vecB(), dtype=float)
        p1 = impl_prob_dists(qt, obj1)
        s1 = [np.array(x, dtype=float) for x in qt.generate_prob_dists_sequence(obj1)]
        case = dict(cfg, var=v1.tolist())
        ctx.count("history", key=repr(cfg), nontrivial=True, label="%s-%s" % (typ, "mixed" if len(set(counts)) > 1 else "equal"))
        if p1[0] != "ok" or not rows_match(p1[1], expected):
            ctx.violation("history", "StandardQTomography.calc_prob_dists", "value", "first call: calc_prob_dists differs from the Born distributions", case)
            return
        # ---- the history: other candidates, callers overwriting what they were given
        ops = ["prob2", "seq2", "clobber", "fisher", "prob2"]
        random.Random(cfg["seed"]).shuffle(ops)
        for o in ops:
            if o == "prob2":
                r = impl_prob_dists(qt, obj2)
                if r[0] == "ok":
                    raw = qt.calc_prob_dists(obj2)
                    for row in raw:
                        row[...] = 0.0                      # the caller overwrites the returned distributions
            elif o == "seq2":
                for row in qt.generate_prob_dists_sequence(obj2):
                    np.asarray(row)[...] = 0.0
            elif o == "clobber":
                qt.calc_matA()[...] = 7.0; qt.calc_vecB()[...] = 7.0
            elif o == "fisher" and setup.para and min(min(r) for r in born) > 1e-6:
                qt.calc_fisher_matrix(int(nprng.integers(len(counts))), v1)[...] = 0.0
        A1, b1 = np.array(qt.calc_matA(), dtype=float), np.array(qt.calc_vecB(), dtype=float)
        p1b = impl_prob_dists(qt, obj1)
        s1b = [np.array(x, dtype=float) for x in qt.generate_prob_dists_sequence(obj1)]
    if A1.shape != A0.shape or not np.array_equal(A1, A0) or not np.array_equal(b1, b0):
        ctx.violation("history", "StandardQTomography.calc_matA", "history-changes-result", "matA / vecB changed after the object was used with another candidate (history %s)" % ops, case)
    if p1b[0] != "ok" or not rows_match(p1b[1], expected) or not rows_match(p1b[1], p1[1], 0.0 + 1e-300):
        ctx.violation("history", "StandardQTomography.calc_prob_dists", "history-changes-result", "calc_prob_dists(obj) after the history %s differs from its first result / the Born distributions" % ops, case)
    if len(s1b) != len(s1) or any(a.shape != b.shape or not np.array_equal(a, b) for a, b in zip(s1, s1b)):
        ctx.violation("history", "StandardQTomography.generate_prob_dists_sequence", "history-changes-result", "generate_prob_dists_sequence(obj) changed after the history %s" % ops, case)
    if [id(x) for x in getattr(exp_, attr)] != slots0 or [list(sc) for sc in exp_.schedules] != sched0:
        ctx.violation("history", "StandardQTomography.generate_prob_dists_sequence", "mutates-experiment", "the tomography object's own experiment (%s / schedules) was changed by the calls %s" % (attr, ops), case)


def sub_history(ctx):
    rng = ctx.rng
    cases = []
    for i in range(ctx.n(12, 120)):
        typ = TYPES[i % 4]
        sys = "1q" if (ctx.quick or typ in ("qpt", "qmpt") or rng.random() < 0.7) else "3"
        cases.append(gen_cfg(rng, typ, sys, mixed=(None if typ == "povmt" else (i % 2 == 0))))
    ctx.sample("history", cases[0])
    ctx.run_cases("history", chk_history, cases)


# ------------------------------------------------------------------ sub-check: the ensemble path of compose(povm, mprocess, state)
def chk_ensemble(ctx, case):
    """model: p_x * <pv, HS s / p_x> == <pv, HS s> (theorem C08_ensemble_path) executed, and against quara's compose on a physical instance"""
    S = get_sys(case["sys"])
    nprng = np.random.default_rng(case["seed"])
    rng = random.Random(case["seed"])
    d, n = S["d"], S["n"]
    mo = case["m"]
    hss = rand_kraus_hss(nprng, S, mo, k=1)
    st = rand_state_op(rng, d); pov = rand_povm_ops(rng, d, case["mp"])
    s = st.vec(S)
    m = ctx.get_model()
    from quara.objects.state import State
    from quara.objects.povm import Povm
    from quara.objects.mprocess import MProcess
    from quara.objects.operators import compose_qoperations
    with warnings.catch_warnings():
        warnings.simplefilter("ignore")
        dist = compose_qoperations(Povm(S["c"], [o.vec(S) for o in pov]), MProcess(S["c"], hss), State(S["c"], s))
    ps = np.asarray(dist.ps, dtype=float)
    for x in range(mo):
        for y, o in enumerate(pov):
            pv = o.vec(S)
            vals = m.call("c08.ensemble", [d], [S["sd"]] + [float(t) for t in pv] + [float(t) for t in s] + [float(t) for t in hss[x].ravel()])
            px = S["sd"] * float((hss[x] @ s)[0])
            ctx.count("ensemble", key=(repr(case), x, y), nontrivial=px > 1e-6, label="%s-m%d" % (case["sys"], mo))
            if px > 1e-6 and vals[0] != vals[1]:
                ctx.violation("ensemble", "Model/C08_Forward.v", "theorem-instance", "ensemble path differs from the joint Born probability in the model", case)
            if px > 1e-6 and float(vals[1]) > 1e-9 and abs(ps[x * len(pov) + y] - float(vals[1])) > 1e-9:
                ctx.violation("ensemble", "operators.compose_qoperations", "joint-layout", "compose(povm, mprocess, state)[%d*%d+%d] = %.12g, <pv_y, HS_x s> = %.12g" % (x, len(pov), y, ps[x * len(pov) + y], float(vals[1])), case)


def sub_ensemble(ctx):
    rng = ctx.rng
    cases = [{"sys": rng.choice(["1q", "1q", "3"] if ctx.quick else ["1q", "3", "2q"]), "m": rng.choice([2, 3, 4]), "mp": rng.choice([2, 3]), "seed": rng.getrandbits(30)} for _ in range(ctx.n(6, 120))]
    ctx.sample("ensemble", cases[0])
    ctx.run_cases("ensemble", chk_ensemble, cases)


SUBS = [("witness", sub_witness), ("coeffs", sub_coeffs), ("forward", sub_forward), ("prob_dists", sub_prob_dists),
        ("rank", sub_rank), ("ensemble", sub_ensemble), ("history", sub_history)]
FNS = {"witness": chk_witness, "coeffs": chk_coeffs, "forward": chk_forward, "prob_dists": chk_prob_dists, "rank": chk_rank, "ensemble": chk_ensemble, "history": chk_history}


def regen_forward_job(scratch_root):
    """translator tie, the part that does not touch ctx (runs in a thread next to the Props check): regenerate Gallina definitions of the
    index / stacking logic of the forward model from the CURRENT source with gen/c08_py2coq.py, compile them, re-check coq/gen/C08_Equiv.v.
    returns (ok, info, theorem names, {theorem: axioms})"""
    import os, re, shutil, subprocess, sys
    import runner
    V = runner.V
    scratch = os.path.join(scratch_root, "gen")
    os.makedirs(scratch, exist_ok=True)
    gen_v = os.path.join(scratch, "Gen_c08_forward.v")
    for stem in (gen_v[:-2], os.path.join(scratch, "C08_Equiv")):
        for ext in (".vo", ".vos", ".vok", ".glob"):
            try:
                os.remove(stem + ext)
            except OSError:
                pass
    equiv = os.path.join(V, "coq", "gen", "C08_Equiv.v")
    src = open(equiv).read()
    src_nc = re.sub(r"\(\*.*?\*\)", " ", src, flags=re.S)
    thms = re.findall(r"^\s*Theorem\s+([\w']+)", src_nc, flags=re.M)
    r = subprocess.run([sys.executable, os.path.join(V, "gen", "c08_py2coq.py"), os.environ.get("VERIF_REPO", "/repo"), gen_v],
                       capture_output=True, text=True, timeout=120)
    if r.returncode != 0:
        return False, {"theorem": thms[0], "error": "translator rejected the source (outside its subset): " + (r.stdout + r.stderr)[-600:]}, thms, {}
    q = ["-Q", os.path.join(V, "coq", "theories"), "QV", "-Q", scratch, "QVGen"]
    r = subprocess.run(["timeout", "300", "coqc"] + q + [gen_v], capture_output=True, text=True)
    if r.returncode != 0:
        return False, {"theorem": thms[0], "error": "regenerated definitions do not compile: " + (r.stdout + r.stderr)[-600:]}, thms, {}
    dst = os.path.join(scratch, "C08_Equiv.v")
    shutil.copy(equiv, dst)
    r = subprocess.run(["timeout", "600", "coqc"] + q + [dst], capture_output=True, text=True)
    out = r.stdout + r.stderr
    if r.returncode != 0:
        m_ = re.search(r"line (\d+), characters", out)
        thm = None
        if m_:
            upto = "\n".join(src.splitlines()[:int(m_.group(1))])
            names = re.findall(r"^\s*(?:Theorem|Lemma)\s+([\w']+)", upto, flags=re.M)
            thm = names[-1] if names else None
        return False, {"theorem": thm, "error": out[-800:]}, thms, {}
    blocks = runner.parse_assumptions(out)
    bad = [a for closed, axs in blocks for a in axs if a not in runner.ALLOWED_AXIOMS and a.split(".")[-1] not in runner.ALLOWED_AXIOMS]
    if len(blocks) != len(thms) or bad:
        return False, {"theorem": thms[0], "error": "assumption gate on regenerated proofs: %d blocks / %d theorems, disallowed %s" % (len(blocks), len(thms), bad)}, thms, {}
    return True, {}, thms, {t: ("closed" if closed else sorted(set(axs))) for t, (closed, axs) in zip(thms, blocks)}


def run(ctx):
    import runner
    ctx.rule = ("configurations: tomography type x system (1 qubit Pauli / qutrit Gell-Mann / 2 qubits Pauli) x flag x unknown outcome count 2..4 x "
                "random physical testers built from small Gaussian-integer matrices (exactly rational operators; POVM outcome counts drawn from 2..4 "
                "independently, so mostly mixed) x schedule list (default / permutation / subset / with repetitions; plus a malformed stream with an "
                "out-of-range tester index and a single-outcome instrument); candidates: an interior physical point, affine-basis points around it, "
                "a second physical point, arbitrary dyadic points, the origin. non-trivial = at least two schedules (coeffs), candidate other than "
                "the origin (forward), singular-value gap around the exact rank (rank); distinct = distinct (configuration, candidate)")
    ctx.assumptions = ["C08: the circuit semantics in the model is coefficient-level (QObj.born, HS matrix times state vector); its agreement with the "
                       "operator-level Born rule tr(E rho) is checked numerically per case (orthonormal Hermitian basis validated by the harness), "
                       "not proved here (C02/C06)",
                       "C08: truncate_and_normalize is the identity on valid distributions (proved: C08_trunc_norm_valid); for candidates whose Born "
                       "vector is not a distribution quara's composed circuit is compared after the same truncation/normalisation",
                       "C08 translator tie: typing table and abstractions of gen/c08_py2coq.py (State = its .vec, Povm = its .vecs, a schedule = the list "
                       "of its item indices, np.sqrt(dim) -> sd, int(dim*dim) -> vec_size, rank tests decided by declared types, never-read variables dropped)"]
    # flow.standard_run with this property's own translator tie (flow.regen_check is bound to gen/py2coq.py)
    # the regenerated-model obligations are checked concurrently with Props/C08.v (two independent coqc chains)
    import os, threading
    box = {}
    scratch_root = getattr(ctx, "scratch", os.path.join(runner.V, "build", ctx.prop_id))

    def job():
        try:
            box["r"] = regen_forward_job(scratch_root)
        except Exception as e:           # a crashed tie is a broken tie
            box["r"] = (False, {"theorem": None, "error": "translator tie crashed: %r" % (e,)}, [], {})
    th = threading.Thread(target=job)
    th.start()
    ok, info = runner.check_props(ctx)
    th.join()
    ok2, info2, thms2, ax2 = box["r"]
    ctx.theorems = list(ctx.theorems) + [t for t in thms2 if t not in ctx.theorems]
    ctx.obligations += len(thms2)
    if ok2:
        ctx.axioms.update(ax2)
        ctx.discharged += len(thms2)
    if not ok2:
        ok, info = False, info2
        ctx.tie_broken = True       # the correspondence sub-checks then run with the thorough-tier case counts (search for a failing input)
        ctx.note("regenerated-model obligations (coq/gen/C08_Equiv.v) not discharged: %s" % str(info2)[:400])
    if not ok:
        ctx.discharged = min(ctx.discharged, ctx.obligations - 1)
    for name, fn in SUBS:
        if ctx.only is None or name in ctx.only:
            fn(ctx)
    if not ok and not ctx.violations:
        ctx.violation("theorems", "Props/%s.v" % ctx.prop_id, "theorem-broken:%s" % info.get("theorem"),
                      "theorem %s no longer checks: %s" % (info.get("theorem"), info.get("error", "")[-400:]),
                      {"theorem": info.get("theorem"), "error": info.get("error")}, no_input=True)
    elif not ok:
        ctx.note("theorem obligations not discharged: %s" % info)


def replay(ctx, doc):
    flow.standard_replay(ctx, doc, FNS)
