"""C09 — linear estimation inverts the forward model exactly.

Sub-checks
  tomo      real tomography objects (QST / POVMT / QPT / QMPT, both parametrisations, complete / over-complete /
            depolarised / re-ordered tester sets built from quara's typical testers).  matA, vecB are read from the
            implementation (floats -> exact rationals); the extracted model produces an inverse candidate M by
            Gauss-Jordan, CHECKS  M (A^T A) = I  exactly and returns the exact least-squares solution of every
            dataset.  Compared: implementation estimate vs exact solution (tolerance scaled by the exactly
            computed |G|_inf |M|_inf), normal equations evaluated exactly on the implementation's own output,
            exact recovery (estimate from exact data == true object's variables, and == the object), sequence vs
            single, re-ordered sequence, changed / permuted sample counts, result -> object accessors.
  rankdef   informationally incomplete tester sets: the model certifies a kernel vector of A^T A exactly; the
            implementation must raise.
  synthetic LinearEstimator driven through a real StandardQst whose coefficient tables are replaced by small exact
            matrices (tall / wide / rank-deficient / unequal block lengths / malformed data): the estimator AS CODED
            (model op c09.coded = the code after the repairs fixes/fullrank-guard-column-rank.diff and
            fixes/linear-estimator-unequal-outcome-counts.diff) must agree branch by branch, is_fullrank_matA() must
            agree with the model's guard (exact rank == number of columns), and the property predicates are evaluated.
  history   hidden state: ONE LinearEstimator object (two per history) serves an interleaved list of jobs over a pool of
            DIFFERENT tomographies - same class / parametrisation / shape with different testers (depolarised, read-out
            noise, permuted schedules, synthetic tables of one shape), other shapes, other classes, both parametrisations,
            rank-deficient members that must raise in between - returning to earlier members; single and sequence calls.
            Every result is compared with the extracted model's result for THAT job alone (theorem C09_history_is_map:
            the model's history is the map of the per-job results); a disagreeing result is classified with a fresh
            estimator / a freshly built tomography (estimator-object state, tomography-object state, process state).
            After the history: every earlier result object, every tomography's matA / vecB and every input array must
            be unchanged.
  large     (thorough) 2-qubit QPT: exact inverse is out of budget, the normal equations and exact recovery are
            evaluated exactly on the implementation's output.
"""
import random
import warnings
from fractions import Fraction

import numpy as np

from common import flow
from common.model import rflat

LEVEL = "proof"

SITE_EST = "LinearEstimator.calc_estimate_sequence"
SITE_ONE = "LinearEstimator.calc_estimate"
SITE_GUARD = "StandardQTomography.is_fullrank_matA"
SITE_RES = "StandardQTomographyEstimationResult"
SITE_MODEL = "c09-model"

SYS = {"q1": ("qubit", 1), "t1": ("qutrit", 1), "q2": ("qubit", 2)}
MODE = {"qst": "state", "povmt": "povm", "qpt": "gate", "qmpt": "mprocess"}
KAPPA_BAND = 1e8          # above this the float implementation is not compared (counted as trivial)
TOL_REL = 1e-11           # relative tolerance per unit of exact kappa = |G|_inf |M|_inf.  Calibrated: over 1518 datasets of the thorough
                          # tomo stream the largest observed |x_impl - x_exact| / (kappa (1+|x|)) is 2.4e-14 (weak testers, cancellation
                          # in f - b by a factor 2000); everything else is below 1e-15.  A float32 round trip of the data (6e-8) is visible.

T_STATES = {
    "q1": {"complete": ["x0", "y0", "z0", "z1"], "over": ["x0", "x1", "y0", "y1", "z0", "z1", "a"]},
    "t1": {"complete": ["01z0", "12z0", "02z1", "01x0", "01y0", "12x0", "12y0", "02x0", "02y0"],
           "over": ["01z0", "12z0", "02z1", "01x0", "01y0", "12x0", "12y0", "02x0", "02y0", "01x1", "12y1", "0_1_2_superposition"]},
    "q2": {"complete": ["x0", "y0", "z0", "z1"], "over": ["x0", "y0", "z0", "z1", "a"]},
}
T_POVMS = {
    "q1": {"complete": ["x", "y", "z"], "over": ["x", "y", "z", "x", "z"], "odd": ["x", "y", "z"]},
    "t1": {"complete": ["01x3", "01y3", "z3", "12x3", "12y3", "02x3", "02y3"],
           "over": ["01x3", "01y3", "z3", "12x3", "12y3", "02x3", "02y3", "z3", "01x3"],
           "mixed": ["01x3", "01y3", "z3", "12x3", "12y3", "02x3", "02y3", "z2"]},
    "q2": {"complete": ["x", "y", "z"], "over": ["x", "y", "z"]},
}
TRUTH_NAMES = {
    ("state", "q1"): ["x0", "x1", "y0", "y1", "z0", "z1", "a"],
    ("state", "t1"): ["01z0", "12z0", "02z1", "01x0", "12y1", "02x1", "0_1_2_superposition", "01y0"],
    ("state", "q2"): ["bell_phi_plus", "bell_psi_minus", "x0_z1", "a_y0", "z0_z0"],
    ("povm", "q1", 2): ["x", "y", "z"],
    ("povm", "t1", 3): ["z3", "01x3", "12y3", "02x3"],
    ("povm", "t1", 2): ["z2"],
    ("povm", "q2", 4): ["bell", "x_z", "z_z", "y_x"],
    ("gate", "q1"): ["hadamard", "x90", "y90", "z90", "phase", "piover8", "x", "identity", "zm90"],
    ("gate", "t1"): ["01x90", "12y90", "02z90", "01y180", "identity"],
    ("gate", "q2"): ["cx", "cz", "swap", "zx90", "zz90"],
    ("mprocess", "q1", 2): ["x-type1", "y-type1", "z-type1", "x-type2", "z-type2"],
    ("mprocess", "t1", 3): ["z3-type1", "z3-type2"],
    ("mprocess", "t1", 2): ["z2-type1", "z2-type2"],
    ("mprocess", "q2", 2): ["xxparity-type1", "zzparity-type1"],
    ("mprocess", "q2", 4): ["bell-type1"],
}


def fr(s):
    return Fraction(s)


def fstr(x):
    x = Fraction(x)
    return "%d/%d" % (x.numerator, x.denominator)


# ------------------------------------------------------------------------------------------ quara object builders
def _csys(sysname):
    from quara.objects.composite_system_typical import generate_composite_system
    mode, num = SYS[sysname]
    return generate_composite_system(mode, num)


def _depolarize(obj, mode, c_sys, rate):
    from quara.objects.gate import get_depolarizing_channel
    from quara.objects.operators import compose_qoperations
    dp = get_depolarizing_channel(p=float(rate), c_sys=c_sys)
    return compose_qoperations(obj, dp) if mode == "povm" else compose_qoperations(dp, obj)


def _testers(c_sys, mode, names, base):
    """typical testers; with base > 0 tester i is additionally depolarised with rate base*(1 + i mod 5)/5 (asymmetric);
    base >= 0.9: every tester uniformly with rate base (weak, badly conditioned set)"""
    from quara.objects.tester_typical import generate_tester_states, generate_tester_povms
    objs = (generate_tester_states if mode == "state" else generate_tester_povms)(c_sys, list(names))
    if base:
        objs = [_depolarize(o, mode, c_sys, base if base >= 0.9 else base * (1 + (i % 5)) / 5.0) for i, o in enumerate(objs)]
    return objs


def _readout_flip(povm, c_sys, base):
    """asymmetric classical read-out noise: outcome y is reported as y+1 (mod k) with probability base*(1+y)/k.
    The result is a physical POVM whose elements have UNEQUAL traces (so vecB is not constant within a schedule)."""
    from quara.objects.povm import Povm
    k = len(povm.vecs)
    eps = [base * (1 + y) / k for y in range(k)]
    vecs = [(1 - eps[x]) * povm.vecs[x] + eps[(x - 1) % k] * povm.vecs[(x - 1) % k] for x in range(k)]
    return Povm(c_sys, vecs, is_physicality_required=False)


def _trine_povm(c_sys, phi):
    """a physical 3-outcome rank-1 POVM of a qubit in the X-Z plane (normalised Pauli basis coefficients)"""
    from quara.objects.povm import Povm
    vecs = []
    for k in range(3):
        th = phi + 2 * np.pi * k / 3
        vecs.append(np.sqrt(2) / 3 * np.array([1.0, np.cos(th), 0.0, np.sin(th)]))
    vecs[2] = np.array([np.sqrt(2), 0, 0, 0]) - vecs[0] - vecs[1]
    return Povm(c_sys, vecs, is_physicality_required=False)


def _odd_povms(c_sys):
    """a 1-outcome POVM (identity) and a 4-outcome POVM of a qubit: outcome counts 1 and 4 != dimension 2"""
    from quara.objects.povm import Povm
    e0 = np.array([np.sqrt(2), 0.0, 0.0, 0.0]); ex = np.array([0.0, 1.0, 0.0, 0.0]); ez = np.array([0.0, 0.0, 0.0, 1.0])
    ident = Povm(c_sys, [e0], is_physicality_required=False)
    four = Povm(c_sys, [0.25 * e0 + 0.25 * ex, 0.25 * e0 - 0.25 * ex, 0.25 * e0 + 0.125 * ez, 0.25 * e0 - 0.125 * ez], is_physicality_required=False)
    return ident, four


def build_tomo(case):
    from quara.protocol.qtomography.standard.standard_qst import StandardQst
    from quara.protocol.qtomography.standard.standard_povmt import StandardPovmt
    from quara.protocol.qtomography.standard.standard_qpt import StandardQpt
    from quara.protocol.qtomography.standard.standard_qmpt import StandardQmpt
    c = _csys(case["sys"])
    kind, para, sched = case["kind"], bool(case["para"]), case.get("sched")
    states = _testers(c, "state", case["states"], case.get("srate")) if case.get("states") else []
    povms = _testers(c, "povm", case["povms"], case.get("prate")) if case.get("povms") else []
    if case.get("pflip"):
        povms = [_readout_flip(p, c, float(case["pflip"]) * (1 + (i % 3)) / 3.0) for i, p in enumerate(povms)]
    if case.get("trine") is not None:
        povms = povms + [_trine_povm(c, float(case["trine"]))]
    if case.get("odd_povms"):
        ident, four = _odd_povms(c)
        povms = povms[:1] + [ident] + povms[1:2] + [four] + povms[2:]
    if kind == "qst":
        sc = "all" if sched is None else [[("state", 0), ("povm", i)] for i in sched]
        qt = StandardQst(povms, on_para_eq_constraint=para, schedules=sc)
    elif kind == "povmt":
        sc = "all" if sched is None else [[("state", i), ("povm", 0)] for i in sched]
        qt = StandardPovmt(states, int(case["nout"]), on_para_eq_constraint=para, schedules=sc)
    else:
        pairs = [(i, j) for i in range(len(states)) for j in range(len(povms))]
        mid = "gate" if kind == "qpt" else "mprocess"
        sc = "all" if sched is None else [[("state", pairs[t][0]), (mid, 0), ("povm", pairs[t][1])] for t in sched]
        if kind == "qpt":
            qt = StandardQpt(states, povms, on_para_eq_constraint=para, schedules=sc)
        else:
            qt = StandardQmpt(states, povms, int(case["nout"]), on_para_eq_constraint=para, schedules=sc)
    return qt, c


def build_truth(case, c, spec):
    """spec = {"names": [..], "weights": ["p/q", ..], "dep": rate}: convex mixture of typical objects, then depolarised"""
    from quara.objects.qoperation_typical import generate_qoperation
    from quara.objects.state import State
    from quara.objects.povm import Povm
    from quara.objects.gate import Gate
    from quara.objects.mprocess import MProcess
    mode = MODE[case["kind"]]
    if spec.get("custom"):
        # qubit POVMs with 3 / 4 outcomes (outcome count != dimension)
        obj = _trine_povm(c, float(spec["phi"])) if spec["custom"] == "trine" else _odd_povms(c)[1]
        return _depolarize(obj, mode, c, spec["dep"]) if spec.get("dep") else obj
    kw = {"ids": [0, 1]} if (mode == "gate" and case["sys"] == "q2") else {}
    objs = [generate_qoperation(mode=mode, name=nm, c_sys=c, **kw) for nm in spec["names"]]
    ws = [float(fr(w)) for w in spec["weights"]]
    if len(objs) == 1:
        obj = objs[0]
    elif mode == "state":
        obj = State(c, sum(w * o.vec for w, o in zip(ws, objs)), is_physicality_required=False)
    elif mode == "povm":
        obj = Povm(c, [sum(w * o.vecs[x] for w, o in zip(ws, objs)) for x in range(len(objs[0].vecs))], is_physicality_required=False)
    elif mode == "gate":
        obj = Gate(c, sum(w * o.hs for w, o in zip(ws, objs)), is_physicality_required=False)
    else:
        obj = MProcess(c, [sum(w * o.hss[x] for w, o in zip(ws, objs)) for x in range(len(objs[0].hss))], is_physicality_required=False)
    if spec.get("dep"):
        obj = _depolarize(obj, mode, c, spec["dep"])
    if spec.get("split"):
        # an instrument with m >= 3 outcomes from a 2-outcome one: outcome 0 is split into m-1 outcomes, each followed by its own
        # unitary gate and weighted (weights sum to 1): every element stays CP, the sum stays trace preserving, the FIRST ROWS of
        # the m Hilbert-Schmidt matrices are all different (w_i * first row of HS_0, and first row of HS_1)
        ws2 = [float(fr(w)) for w in spec["split"]["w"]]
        gs = [generate_qoperation(mode="gate", name=nm, c_sys=c).hs for nm in spec["split"]["gates"]]
        hss = [w * (g @ obj.hss[0]) for w, g in zip(ws2, gs)] + [obj.hss[1]]
        obj = MProcess(c, hss, is_physicality_required=False)
    return obj


def ref_stacked_from_var(mode, dim, nout, var, para):
    """independent reference for 'the object that carries these variables' (stacked vector in quara's layout), written from the
    definitions, NOT through quara's convert_var_to_*: with the equality constraint parametrised away the omitted components are
    state: v_0 = 1/sqrt(d);  povm: E_last = sqrt(d) e_0 - sum of the others;  gate: first HS row = e_0;
    mprocess: first row of the LAST HS matrix = e_0 - sum over the other outcomes of THEIR first rows"""
    var = np.asarray(var, dtype=float)
    d2 = dim * dim
    e0 = np.zeros(d2); e0[0] = 1.0
    if not para:
        return var.copy()
    if mode == "state":
        return np.hstack([[1.0 / np.sqrt(dim)], var])
    if mode == "povm":
        vs = var.reshape(nout - 1, d2)
        return np.hstack([vs.flatten(), np.sqrt(dim) * e0 - vs.sum(axis=0)])
    if mode == "gate":
        return np.hstack([e0, var])
    hs_size = d2 * d2
    out, first_sum = [], np.zeros(d2)
    for x in range(nout - 1):
        blk = var[x * hs_size:(x + 1) * hs_size]
        first_sum = first_sum + blk[:d2]
        out.append(blk)
    rest = var[(nout - 1) * hs_size:]
    out.append(np.hstack([e0 - first_sum, rest]))
    return np.hstack(out)


def true_var(obj, c, para):
    return np.asarray(type(obj).convert_stacked_vector_to_var(c, obj.to_stacked_vector(), para), dtype=float)


def block_sizes(qt):
    sizes = {}
    for (j, x) in qt._coeffs_1st.keys():
        sizes[j] = sizes.get(j, 0) + 1
    return [sizes[j] for j in sorted(sizes)]


def split_blocks(vec, sizes):
    out, o = [], 0
    for s in sizes:
        out.append(np.array(vec[o:o + s], dtype=float)); o += s
    return out


# ------------------------------------------------------------------------------------------ model access
def model_solve(ctx, A, b, fs):
    """fs: list of data vectors (floats or Fractions, length m). returns dict"""
    m_, n_ = A.shape
    qs = rflat(A) + rflat(b)
    for f in fs:
        qs += list(f)
    st, v = ctx.get_model().try_call("c09.solve", [m_, n_, len(fs)], qs)
    if st == "err":
        return {"status": "err", "code": v}
    if int(v[0]) == 1:
        xs = [v[4 + i * n_: 4 + (i + 1) * n_] for i in range(len(fs))]
        return {"status": "inv", "rank": int(v[1]), "normG": float(v[2]), "normM": float(v[3]),
                "kappa": max(1.0, float(v[2] * v[3])), "xs": xs}
    return {"status": "ker", "rank": int(v[1]), "w": v[2:]}


def model_coded(ctx, A, b, seq):
    """seq: list of datasets, dataset = list of (count, vector). returns ('ok', [x..]) / ('err', code)"""
    m_, n_ = A.shape
    zs = [m_, n_, len(seq)]
    qs = rflat(A) + rflat(b)
    for ds in seq:
        zs.append(len(ds))
        for cnt, d in ds:
            zs += [len(d), int(cnt)]
            qs += [x if isinstance(x, Fraction) else float(x) for x in d]
    st, v = ctx.get_model().try_call("c09.coded", zs, qs)
    if st == "err":
        return ("err", v)
    k = int(v[0])
    return ("ok", [v[1 + i * n_: 1 + (i + 1) * n_] for i in range(k)])


def model_residual(ctx, A, b, f, x):
    """exact |A x - (f-b)|^2 and A^T (A x - (f-b)).  Both are sums over the rows, so large matrices are sent to the model in
    row blocks (the extracted list functions are not tail recursive: ~150k entries per request at most) and added exactly."""
    m_, n_ = A.shape
    step = m_ if m_ * n_ <= 150000 else max(1, 100000 // n_)
    f = list(f); xs = [float(t) for t in x]
    r2, atr = Fraction(0), [Fraction(0)] * n_
    for o in range(0, m_, step):
        k = min(step, m_ - o)
        v = ctx.get_model().call("c09.residual", [k, n_], rflat(A[o:o + k]) + rflat(b[o:o + k]) + f[o:o + k] + xs)
        r2 += v[0]
        atr = [a + t for a, t in zip(atr, v[1:])]
    return float(r2), [float(t) for t in atr]


def model_predict(ctx, A, b, v):
    m_, n_ = A.shape
    return ctx.get_model().call("c09.predict", [m_, n_], rflat(A) + rflat(b) + list(v))


def impl_seq(qt, seq, **kw):
    """run the implementation; returns ('ok', result) / ('raise', exception)"""
    from quara.protocol.qtomography.standard.linear_estimator import LinearEstimator
    try:
        with warnings.catch_warnings():
            warnings.simplefilter("ignore")
            return ("ok", LinearEstimator().calc_estimate_sequence(qt, seq, **kw))
    except Exception as e:          # noqa: the raise branch is part of the contract
        return ("raise", e)


def impl_one(qt, ds):
    from quara.protocol.qtomography.standard.linear_estimator import LinearEstimator
    try:
        with warnings.catch_warnings():
            warnings.simplefilter("ignore")
            return ("ok", LinearEstimator().calc_estimate(qt, ds))
    except Exception as e:
        return ("raise", e)


def maxabs(a, b):
    a = np.asarray(a, dtype=float); b = np.asarray(b, dtype=float)
    if a.shape != b.shape:
        return float("inf")
    return float(np.abs(a - b).max()) if a.size else 0.0


# ------------------------------------------------------------------------------------------ sub-check: tomo
def gen_datasets(ctx, case, qt, c, A, b, sizes):
    """returns list of dicts: kind, dists (list of np arrays, floats), exact (list of Fractions or None), truth var / object"""
    rng = random.Random(case["seed"])
    m_, n_ = A.shape
    para = bool(case["para"])
    out = []
    truths = []
    for spec in case["truths"]:
        obj = build_truth(case, c, spec)
        truths.append(obj)
        with warnings.catch_warnings():
            warnings.simplefilter("ignore")
            pd = qt.generate_prob_dists_sequence(obj)
        lab = "interior" if spec.get("dep") else ("pure" if len(spec.get("names", [0])) == 1 else "boundary-mix")
        out.append({"kind": "exact", "label": "exact-" + lab, "dists": [np.array(p, dtype=float) for p in pd], "exact": None,
                    "tvar": true_var(obj, c, para), "obj": obj})
    for s in case.get("sampled", []):
        obj = truths[s["truth"]]
        with warnings.catch_warnings():
            warnings.simplefilter("ignore")
            ed = qt.generate_empi_dists(obj, int(s["N"]), int(s["seed"]))
        out.append({"kind": "sampled", "label": "sampled-N%d" % s["N"], "dists": [np.array(d, dtype=float) for _, d in ed],
                    "exact": None, "tvar": None, "obj": None})
    for _ in range(case.get("n_adv", 0)):
        # adversarial: not normalised, negative entries, exact dyadic rationals (so float == rational)
        vec = [Fraction(rng.randint(-24, 40), 16) for _ in range(m_)]
        if rng.random() < 0.3:
            vec = [v if rng.random() < 0.5 else Fraction(0) for v in vec]
        out.append({"kind": "adv", "label": "adversarial", "dists": split_blocks([float(v) for v in vec], sizes), "exact": None,
                    "tvar": None, "obj": None})
    for _ in range(case.get("n_var", 0)):
        # an arbitrary (in general non-physical) variable vector: the data are its EXACT prediction A v + b
        v = [Fraction(rng.randint(-9, 9), rng.choice([1, 2, 3, 4, 5, 7])) for _ in range(n_)]
        f = model_predict(ctx, A, b, v)
        out.append({"kind": "var", "label": "exact-of-arbitrary-var", "dists": split_blocks([float(x) for x in f], sizes),
                    "exact": f, "tvar": np.array([float(x) for x in v]), "vexact": v, "obj": None})
    return out


def chk_tomo(ctx, case):
    sub = "tomo"
    qt, c = build_tomo(case)
    para = bool(case["para"])
    A = np.array(qt.calc_matA(), dtype=float); b = np.array(qt.calc_vecB(), dtype=float)
    m_, n_ = A.shape
    sizes = block_sizes(qt)
    lab0 = "%s-%s-%s-%s%s" % (case["kind"], case["sys"], "para" if para else "full", case.get("tset", "?"), ("-m%d" % case["nout"]) if case.get("nout") else "")
    if n_ != qt.num_variables or sum(sizes) != m_ or b.shape != (m_,):
        ctx.violation(sub, "StandardQTomography.calc_matA", "shape", "matA %s vecB %s num_variables %s blocks %s" % (A.shape, b.shape, qt.num_variables, sizes), case)
        return
    data = gen_datasets(ctx, case, qt, c, A, b, sizes)
    rng = random.Random(case["seed"] + 1)
    counts = [[rng.choice([1, 10, 100, 1000, 12345]) for _ in sizes] for _ in data]
    seq = [list(zip(cn, d["dists"])) for cn, d in zip(counts, data)]
    fs_model = [d["exact"] if d["exact"] is not None else [float(x) for x in np.hstack(d["dists"])] for d in data]
    unequal = len(set(sizes)) > 1

    # ---- model: certified inverse (or certified kernel) and the exact least-squares solutions
    ms = model_solve(ctx, A, b, fs_model)
    if ms["status"] == "err":
        ctx.violation(sub, SITE_MODEL, "certificate-rejected", "model could not certify inverse or kernel (code %s)" % ms["code"], case)
        return
    ist, ires = impl_seq(qt, seq)
    fullrank_impl = bool(qt.is_fullrank_matA())
    if ms["status"] == "ker":
        # generated as informationally complete but exactly rank deficient: the implementation must raise
        ctx.count(sub, key=(lab0, "ker", case["seed"]), nontrivial=True, label=lab0 + ":rank-deficient")
        check_rank_deficient(ctx, sub, case, A, ms, ist, ires, fullrank_impl)
        return
    kappa = ms["kappa"]
    if kappa > KAPPA_BAND:
        ctx.count(sub, key=(lab0, "band", case["seed"]), nontrivial=False, label=lab0 + ":ill-conditioned-skipped")
        return
    if ms["rank"] != n_ or int(np.linalg.matrix_rank(A)) != n_ or not fullrank_impl:
        ctx.violation(sub, SITE_GUARD, "rank-value", "certified inverse exists but rank: model %s numpy %s n %s is_fullrank_matA %s" % (ms["rank"], np.linalg.matrix_rank(A), n_, fullrank_impl), case)
    # ---- the estimator as coded (model) must take the same branch as the implementation
    cst, cval = model_coded(ctx, A, b, seq)
    if ist == "raise":
        ctx.count(sub, key=(lab0, "raise", case["seed"]), nontrivial=True, label=lab0 + ":impl-raises")
        if unequal and isinstance(ires, ValueError):
            ctx.violation(sub, SITE_EST, "unequal-outcome-counts-raise",
                          "tester set with outcome counts %s has full column rank (certified inverse, kappa=%.3g) but the estimator raises %s: %s; model-as-coded: %s %s"
                          % (sizes, kappa, type(ires).__name__, str(ires)[:120], cst, cval if cst == "err" else ""), case)
        else:
            ctx.violation(sub, SITE_EST, "unexpected-raise", "certified inverse exists (kappa=%.3g) but the estimator raises %s: %s" % (kappa, type(ires).__name__, str(ires)[:200]), case)
        return
    if cst != "ok":
        ctx.violation(sub, SITE_EST, "model-branch", "implementation returns, model-as-coded raises code %s" % cval, case)
        return
    if unequal:
        ctx.count(sub, key=(lab0, "unequal", case["seed"]), nontrivial=True, label=lab0 + ":unequal-outcome-counts-estimated")
    tol = TOL_REL * kappa
    xs_impl = [np.asarray(v, dtype=float) for v in ires.estimated_var_sequence]
    if len(xs_impl) != len(data):
        ctx.violation(sub, SITE_EST, "sequence-length", "%d datasets, %d estimates" % (len(data), len(xs_impl)), case)
        return
    singles = []
    for i, d in enumerate(data):
        xm = np.array([float(t) for t in ms["xs"][i]])
        xc = np.array([float(t) for t in cval[i]])
        scale = 1.0 + float(np.abs(xm).max())
        key = (lab0, d["label"], case["seed"], i)
        ctx.count(sub, key=key, nontrivial=bool(np.abs(np.hstack(d["dists"])).max() > 0), label=lab0 + ":" + d["label"])
        sc = dict(case, focus=i)
        # model internal: exact solve == as-coded model (exact inputs differ only for kind 'var', where coded got floats)
        if d["exact"] is None and list(ms["xs"][i]) != list(cval[i]):
            ctx.violation(sub, SITE_MODEL, "coded-vs-solve", "as-coded model and certified solve differ on dataset %d" % i, sc)
        if d["kind"] == "var" and list(ms["xs"][i]) != list(d["vexact"]):
            ctx.violation(sub, SITE_MODEL, "exact-recovery-exact", "model: exact data of v does not return v exactly", sc)
        # (a) value
        if xs_impl[i].shape != (n_,) or maxabs(xs_impl[i], xm) > tol * scale:
            ctx.violation(sub, SITE_EST, "value", "%s %s: estimate differs from the exact least-squares solution by %.3g (tol %.3g, kappa %.3g)"
                          % (lab0, d["label"], maxabs(xs_impl[i], xm), tol * scale, kappa), sc)
            continue
        # (b) normal equations on the implementation's own output, evaluated exactly
        r2, atr = model_residual(ctx, A, b, fs_model[i] if d["exact"] is None else [float(x) for x in np.hstack(d["dists"])], xs_impl[i])
        if max(abs(t) for t in atr) > ms["normG"] * tol * scale:
            ctx.violation(sub, SITE_EST, "normal-equations", "%s %s: |A^T(Ax-(f-b))|_inf = %.3g (tol %.3g)" % (lab0, d["label"], max(abs(t) for t in atr), ms["normG"] * tol * scale), sc)
        # (c) exact recovery
        if d["tvar"] is not None:
            if maxabs(xs_impl[i], d["tvar"]) > (tol + 1e-12 * kappa) * scale:
                ctx.violation(sub, SITE_EST, "exact-recovery", "%s %s: estimate from exact data differs from the true variables by %.3g (tol %.3g)"
                              % (lab0, d["label"], maxabs(xs_impl[i], d["tvar"]), tol * scale), sc)
        # (d) single estimate == element of the sequence estimate
        s1, r1 = impl_one(qt, seq[i])
        if s1 != "ok":
            ctx.violation(sub, SITE_ONE, "sequence-vs-single", "single estimate raises %s where the sequence estimate returns" % type(r1).__name__, sc)
            continue
        singles.append(r1)
        if maxabs(r1.estimated_var, xm) > tol * scale:
            ctx.violation(sub, SITE_ONE, "value", "%s %s: calc_estimate differs from the exact least-squares solution by %.3g (tol %.3g) while calc_estimate_sequence agrees" % (lab0, d["label"], maxabs(r1.estimated_var, xm), tol * scale), sc)
        if len(r1.estimated_var_sequence) != 1 or maxabs(r1.estimated_var, xs_impl[i]) > 1e-12 * scale:
            ctx.violation(sub, SITE_ONE, "sequence-vs-single", "%s %s: single %s vs sequence element differ by %.3g" % (lab0, d["label"], i, maxabs(r1.estimated_var, xs_impl[i])), sc)
        # (e) sample counts: permuted / replaced counts give the same estimate
        for alt in (counts[i][::-1], [1] * len(sizes), [rng.choice([0, 3, 10 ** 9]) for _ in sizes]):
            s2, r2_ = impl_one(qt, list(zip(alt, d["dists"])))
            if s2 != "ok" or maxabs(r2_.estimated_var, r1.estimated_var) > 1e-13 * scale:
                ctx.violation(sub, SITE_EST, "depends-on-sample-counts", "%s %s: counts %s -> %s change the estimate by %s" % (lab0, d["label"], counts[i], alt, "raise" if s2 != "ok" else maxabs(r2_.estimated_var, r1.estimated_var)), sc)
                break
        # (e2) the same numbers handed over in other array representations (strided / reversed-stride views, read-only
        #      buffers, float32 when every entry is exactly representable, a tuple of pairs): same estimate
        if i < 2:
            def _variants(x):
                big = np.zeros(2 * len(x) + 1); big[1::2] = x
                ro = x.copy(); ro.setflags(write=False)
                out = [("strided-view", big[1::2]), ("reversed-stride-view", x[::-1].copy()[::-1]), ("read-only", ro)]
                if np.array_equal(x.astype(np.float32).astype(np.float64), x):
                    out.append(("float32", x.astype(np.float32)))
                return out
            names = [nm for nm, _ in _variants(d["dists"][0])]
            for nm in names:
                alt_ds = tuple((cn, dict(_variants(x)).get(nm, x)) for cn, x in zip(counts[i], d["dists"]))
                s3, r3_ = impl_one(qt, alt_ds if nm == "read-only" else list(alt_ds))
                if s3 != "ok" or maxabs(r3_.estimated_var, r1.estimated_var) > 1e-13 * scale:
                    ctx.violation(sub, SITE_EST, "depends-on-data-representation", "%s %s: data passed as %s arrays %s" % (lab0, d["label"], nm, "raise " + type(r3_).__name__ if s3 != "ok" else "change the estimate by %.3g" % maxabs(r3_.estimated_var, r1.estimated_var)), sc)
                    break
            if any(not np.array_equal(x, y) for x, y in zip(d["dists"], split_blocks(np.hstack(d["dists"]), sizes))):
                ctx.violation(sub, SITE_EST, "mutates-argument", "%s %s: the data arrays were modified by the estimator" % (lab0, d["label"]), sc)
        # (f) result -> object
        try:
            with warnings.catch_warnings():
                warnings.simplefilter("ignore")
                qo = r1.estimated_qoperation
            back = true_var(qo, c, para)
            if maxabs(back, r1.estimated_var) > 1e-12 * scale or bool(qo.on_para_eq_constraint) != para:
                ctx.violation(sub, SITE_RES + ".estimated_qoperation", "result-object", "%s: variables of the returned object differ from estimated_var by %.3g" % (lab0, maxabs(back, r1.estimated_var)), sc)
            # ... including the components that the equality constraint fixes (to_var drops exactly those, so the round trip
            # above is blind to them): the WHOLE stacked vector against an independent expansion of the estimated variables
            ref = ref_stacked_from_var(MODE[case["kind"]], c.dim, case.get("nout"), r1.estimated_var, para)
            if maxabs(qo.to_stacked_vector(), ref) > 1e-12 * scale:
                ctx.violation(sub, SITE_RES + ".estimated_qoperation", "result-object-constrained-part", "%s %s: the returned object differs from the object defined by estimated_var (equality constraint %s) by %.3g"
                              % (lab0, d["label"], "parametrised away" if para else "kept", maxabs(qo.to_stacked_vector(), ref)), sc)
            if d["obj"] is not None and maxabs(qo.to_stacked_vector(), d["obj"].to_stacked_vector()) > (tol + 1e-12 * kappa) * scale * 4:
                ctx.violation(sub, SITE_RES + ".estimated_qoperation", "object-recovery", "%s %s: object estimated from exact data differs from the true object by %.3g"
                              % (lab0, d["label"], maxabs(qo.to_stacked_vector(), d["obj"].to_stacked_vector())), sc)
        except Exception as e:
            ctx.violation(sub, SITE_RES + ".estimated_qoperation", "result-object-raise", "%s: %s %s" % (lab0, type(e).__name__, str(e)[:200]), sc)
    # ---- sequence-level accessors and order independence
    try:
        if maxabs(ires.estimated_var, xs_impl[0]) != 0.0:
            ctx.violation(sub, SITE_RES + ".estimated_var", "result-object", "estimated_var is not the first element of the sequence", case)
        with warnings.catch_warnings():
            warnings.simplefilter("ignore")
            qos = ires.estimated_qoperation_sequence
        if len(qos) != len(xs_impl) or any(maxabs(true_var(q, c, para), x) > 1e-12 * (1 + np.abs(x).max()) for q, x in zip(qos, xs_impl)):
            ctx.violation(sub, SITE_RES + ".estimated_qoperation_sequence", "result-object", "objects of the sequence do not carry the estimated variables", case)
        elif any(maxabs(q.to_stacked_vector(), ref_stacked_from_var(MODE[case["kind"]], c.dim, case.get("nout"), x, para)) > 1e-12 * (1 + np.abs(x).max()) for q, x in zip(qos, xs_impl)):
            ctx.violation(sub, SITE_RES + ".estimated_qoperation_sequence", "result-object-constrained-part", "%s: an object of the sequence differs from the object defined by its estimated variables in the components fixed by the equality constraint" % lab0, case)
    except Exception as e:
        ctx.violation(sub, SITE_RES + ".estimated_qoperation_sequence", "result-object-raise", "%s %s" % (type(e).__name__, str(e)[:200]), case)
    st3, r3 = impl_seq(qt, seq[::-1], is_computation_time_required=True)
    if st3 != "ok" or any(maxabs(a, b_) > 1e-12 * (1 + np.abs(b_).max()) for a, b_ in zip(r3.estimated_var_sequence, xs_impl[::-1])) \
            or len(r3.computation_times) != len(seq):
        ctx.violation(sub, SITE_EST, "sequence-order", "%s: estimating the reversed sequence (with computation times) does not give the reversed estimates" % lab0, case)
    # ---- the library's own consistency check, for every truth (not one named object)
    if case.get("consistency"):
        from quara.simulation import consistency_check as cc
        from quara.protocol.qtomography.standard.linear_estimator import LinearEstimator
        for d in data:
            if d["obj"] is None:
                continue
            with warnings.catch_warnings():
                warnings.simplefilter("ignore")
                mse, _ = cc.calc_mse_of_true_estimated(d["obj"], qt, LinearEstimator())
            ctx.count(sub, key=(lab0, "cc", d["label"], case["seed"]), nontrivial=False, label=lab0 + ":consistency-check")
            if not (mse <= n_ * ((tol + 1e-12 * kappa) * 4 * (1 + np.abs(d["tvar"]).max())) ** 2):
                ctx.violation(sub, "consistency_check.calc_mse_of_true_estimated", "exact-recovery", "%s %s: squared error to the true object %.3g" % (lab0, d["label"], mse), case)


def report_accepted(ctx, sub, case, A, ms, fullrank_impl, returned=True):
    """the model certified a kernel vector of A^T A (tester set not informationally complete): the estimator must raise
    at the guard.  Called when it returned a value, or when is_fullrank_matA() is True (then an exception, if any, came from
    np.linalg.inv hitting an exact zero pivot - by luck, not by design)."""
    m_, n_ = A.shape
    w = [float(t) for t in ms["w"]]
    how = "the estimator returns a value instead of raising" if returned else "the estimator only fails later inside np.linalg.inv (LinAlgError)"
    if m_ < n_:
        ctx.violation(sub, SITE_GUARD, "wide-matA-passes-guard",
                      "matA is %dx%d (fewer rows than variables), A^T A is exactly singular (certified kernel vector, e.g. w=%s), is_fullrank_matA()=%s and %s"
                      % (m_, n_, [round(t, 4) for t in w[:6]], fullrank_impl, how), case)
    else:
        ctx.violation(sub, SITE_EST if returned else SITE_GUARD, "rank-deficient-accepted",
                      "matA %dx%d has exact rank %d < %d (certified kernel vector) but is_fullrank_matA()=%s and %s" % (m_, n_, ms["rank"], n_, fullrank_impl, how), case)


def check_rank_deficient(ctx, sub, case, A, ms, ist, ires, fullrank_impl):
    """tester set with a certified kernel: the (repaired) code raises at the guard (model: E_guard).  The exception CLASS is
    not part of the property and is not compared, with one exception: a LinAlgError means np.linalg.inv was reached with an
    exactly singular A^T A - the branch the model proves unreachable (C09_never_singular); np.linalg.inv raises there only
    when LU happens to hit an exact zero pivot, otherwise it returns a meaningless matrix."""
    if ist == "ok":
        report_accepted(ctx, sub, case, A, ms, fullrank_impl, returned=True)
    elif fullrank_impl:
        report_accepted(ctx, sub, case, A, ms, fullrank_impl, returned=False)
    elif isinstance(ires, np.linalg.LinAlgError):
        ctx.violation(sub, SITE_EST, "guard-not-consulted", "rank-deficient tester set, is_fullrank_matA()=False, but the estimator reaches np.linalg.inv of the singular A^T A (LinAlgError: %s) instead of raising at the guard"
                      % str(ires)[:100], case)


def truth_specs(rng, kind, sysname, nout, k):
    mode = MODE[kind]
    if mode in ("povm", "mprocess") and (mode, sysname, nout) not in TRUTH_NAMES:
        # qubit, 3 or 4 outcomes: no typical object exists
        specs = []
        for i in range(k):
            dep = [0, rng.choice([0.05, 0.2, 0.5]), rng.choice([0, 0.1])][i % 3]
            if mode == "povm":
                specs.append({"custom": "trine", "phi": rng.choice([0.3, 1.1, 2.0]), "dep": dep} if nout == 3 else {"custom": "four", "dep": dep})
            else:
                cuts = sorted(rng.sample(range(1, 8), nout - 2))
                ws = [Fraction(b - a, 8) for a, b in zip([0] + cuts, cuts + [8])]
                specs.append({"names": [rng.choice(TRUTH_NAMES[(mode, sysname, 2)])], "weights": ["1"], "dep": dep,
                              "split": {"w": [fstr(w) for w in ws], "gates": [rng.choice(TRUTH_NAMES[("gate", sysname)]) for _ in ws]}})
        return specs
    names = TRUTH_NAMES[(mode, sysname)] if mode in ("state", "gate") else TRUTH_NAMES[(mode, sysname, nout)]
    specs = []
    for i in range(k):
        r = i % 3
        if r == 0:                              # pure / boundary
            specs.append({"names": [rng.choice(names)], "weights": ["1"], "dep": 0})
        elif r == 1 or len(names) < 2:          # interior
            specs.append({"names": [rng.choice(names)], "weights": ["1"], "dep": rng.choice([0.05, 0.2, 0.5, 0.9])})
        else:                                   # boundary mixture (convex combination, no depolarisation) or interior mixture
            a, b_ = rng.sample(names, 2)
            w = Fraction(rng.randint(1, 7), 8)
            specs.append({"names": [a, b_], "weights": [fstr(w), fstr(1 - w)], "dep": rng.choice([0, 0, 0.1])})
    return specs


def tomo_case(rng, kind, sysname, para, tset, nout=None, perm=False, n_truth=3, n_adv=2, n_var=2, n_samp=2, consistency=False):
    case = {"kind": kind, "sys": sysname, "para": para, "tset": tset, "seed": rng.randrange(10 ** 9)}
    # suffixes: -dep  asymmetric depolarisation of every tester;  -flip  depolarisation + asymmetric read-out noise on the POVMs
    #           -weak  every tester depolarised with rate 0.9995 (valid, badly conditioned: sigma_min/sigma_max ~ 5e-4)
    dep = tset.endswith("-dep") or tset.endswith("-flip")
    weak = tset.endswith("-weak")
    base = tset.replace("-dep", "").replace("-flip", "").replace("-weak", "")
    if kind in ("povmt", "qpt", "qmpt"):
        case["states"] = T_STATES[sysname][base if base in T_STATES[sysname] else "complete"]
        case["srate"] = 0.9995 if weak else (rng.choice([0.013, 0.05, 0.11]) if dep else 0)
    if kind in ("qst", "qpt", "qmpt"):
        case["povms"] = T_POVMS[sysname][base]
        case["prate"] = 0.9995 if weak else (rng.choice([0.017, 0.04, 0.09]) if dep else 0)
        if tset.endswith("-flip"):
            case["pflip"] = rng.choice([0.06, 0.15, 0.3])
    if nout is not None:
        case["nout"] = nout
    if base == "odd":
        case["odd_povms"] = True
    case["truths"] = truth_specs(rng, kind, sysname, nout, n_truth)
    case["sampled"] = [{"truth": rng.randrange(n_truth), "N": rng.choice([10, 100, 1000]), "seed": rng.randrange(10 ** 6)} for _ in range(n_samp)]
    case["n_adv"], case["n_var"] = n_adv, n_var
    case["consistency"] = consistency
    if perm:
        ns = len(case.get("states", [])) ** SYS[sysname][1] if case.get("states") else 1
        npv = (len(case.get("povms", [])) + (2 if case.get("odd_povms") else 0)) ** SYS[sysname][1] if case.get("povms") else 1
        total = ns if kind == "povmt" else (npv if kind == "qst" else ns * npv)
        p = list(range(total)); rng.shuffle(p)
        case["sched"] = p
    return case


def sub_tomo(ctx):
    rng = ctx.rng
    cases = []
    reps = ctx.n(1, 4)
    for _ in range(reps):
        for para in (False, True):
            for tset in ("complete", "over", "over-dep"):
                cases.append(tomo_case(rng, "qst", "q1", para, tset, consistency=True))
                cases.append(tomo_case(rng, "povmt", "q1", para, tset, nout=2, consistency=True))
                cases.append(tomo_case(rng, "qpt", "q1", para, tset, consistency=(tset == "complete")))
                cases.append(tomo_case(rng, "qmpt", "q1", para, tset, nout=2, n_truth=3, n_adv=1, n_var=1, n_samp=1, consistency=(tset == "complete")))
            # asymmetric read-out noise (POVM elements of unequal trace) and weak (badly conditioned) testers
            cases.append(tomo_case(rng, "qst", "q1", para, "over-flip", consistency=True))
            cases.append(tomo_case(rng, "qpt", "q1", para, "complete-flip", n_truth=2, n_adv=1, n_var=1, n_samp=1))
            cases.append(tomo_case(rng, "qmpt", "q1", para, "complete-flip", nout=2, n_truth=2, n_adv=1, n_var=1, n_samp=1))
            cases.append(tomo_case(rng, "qst", "t1", para, "complete-flip", n_truth=2, n_adv=1, n_var=1, n_samp=1))
            cases.append(tomo_case(rng, "qst", "q1", para, "complete-weak", n_truth=2, n_adv=1, n_var=1, n_samp=1))
            cases.append(tomo_case(rng, "povmt", "q1", para, "complete-weak", nout=2, n_truth=2, n_adv=1, n_var=1, n_samp=1))
            # re-ordered schedule lists
            cases.append(tomo_case(rng, "qst", "q1", para, "over-dep", perm=True))
            cases.append(tomo_case(rng, "qpt", "q1", para, "complete-dep", perm=True, n_truth=2, n_adv=1, n_var=1, n_samp=1))
            # qutrit
            cases.append(tomo_case(rng, "qst", "t1", para, "complete", consistency=True))
            cases.append(tomo_case(rng, "qst", "t1", para, "over-dep", perm=True))
            cases.append(tomo_case(rng, "povmt", "t1", para, "complete", nout=3, n_truth=3, n_adv=1, n_var=1, n_samp=1))
            cases.append(tomo_case(rng, "povmt", "t1", para, "over-dep", nout=2, n_truth=2, n_adv=1, n_var=1, n_samp=1))
            # estimated objects with m >= 3 outcomes on a qubit (outcome count != dimension; with the equality constraint
            # parametrised away the last element is reconstructed from ALL the others): POVMT and QMPT, m = 3 and 4
            for nout_ in (3, 4):
                cases.append(tomo_case(rng, "povmt", "q1", para, "complete-dep", nout=nout_, n_truth=2, n_adv=1, n_var=1, n_samp=1))
                cases.append(tomo_case(rng, "qmpt", "q1", para, "complete", nout=nout_, n_truth=2, n_adv=1, n_var=1, n_samp=0))
            # qubit tester set with 1-, 2- and 4-outcome POVMs (outcome count != dimension, single outcome), also re-ordered
            cases.append(tomo_case(rng, "qst", "q1", para, "odd", n_truth=2, n_adv=1, n_var=1, n_samp=1))
            cases.append(tomo_case(rng, "qst", "q1", para, "odd-dep", perm=True, n_truth=2, n_adv=1, n_var=1, n_samp=1))
            # qutrit tester set with a 2-outcome and 3-outcome POVMs (over-complete, unequal outcome counts)
            cases.append(tomo_case(rng, "qst", "t1", para, "mixed", n_truth=2, n_adv=1, n_var=1, n_samp=1))
    if not ctx.quick:
        for para in (False, True):
            cases.append(tomo_case(rng, "qpt", "t1", para, "complete", n_truth=3, n_adv=1, n_var=1, n_samp=1))
            cases.append(tomo_case(rng, "qst", "q2", para, "complete", consistency=True))
            cases.append(tomo_case(rng, "qst", "q2", para, "complete-dep", perm=True))
            cases.append(tomo_case(rng, "povmt", "q2", para, "complete", nout=4, n_truth=3, n_adv=1, n_var=1, n_samp=1))
            cases.append(tomo_case(rng, "povmt", "q2", para, "over-dep", nout=4, n_truth=2, n_adv=1, n_var=1, n_samp=1))
    ctx.sample("tomo", cases[0]); ctx.sample("tomo", cases[3])
    ctx.run_cases("tomo", chk_tomo, cases)


# ------------------------------------------------------------------------------------------ sub-check: rankdef
def chk_rankdef(ctx, case):
    sub = "rankdef"
    qt, c = build_tomo(case)
    A = np.array(qt.calc_matA(), dtype=float); b = np.array(qt.calc_vecB(), dtype=float)
    m_, n_ = A.shape
    sizes = block_sizes(qt)
    rng = random.Random(case["seed"])
    lab = "%s-%s-%s-%dx%d" % (case["kind"], case["sys"], "para" if case["para"] else "full", m_, n_)
    # data: exact distributions of a physical truth
    obj = build_truth(case, c, case["truths"][0])
    with warnings.catch_warnings():
        warnings.simplefilter("ignore")
        pd = qt.generate_prob_dists_sequence(obj)
    dists = [np.array(p, dtype=float) for p in pd]
    f = [float(x) for x in np.hstack(dists)]
    ms = model_solve(ctx, A, b, [f])
    if ms["status"] == "err":
        ctx.violation(sub, SITE_MODEL, "certificate-rejected", "model could not certify inverse or kernel (code %s)" % ms["code"], case)
        return
    ist, ires = impl_seq(qt, [[(rng.choice([10, 100]), d) for d in dists]])
    fullrank_impl = bool(qt.is_fullrank_matA())
    if ms["status"] == "inv":
        # the float matrix happens to have full column rank exactly
        trivial = ms["kappa"] > KAPPA_BAND
        ctx.count(sub, key=(lab, case["seed"]), nontrivial=False, label=lab + (":numerically-full-rank-skipped" if trivial else ":complete-after-all"))
        if not trivial and ist != "ok":
            ctx.violation(sub, SITE_EST, "unexpected-raise", "%s: certified inverse (kappa %.3g) but the estimator raises %s" % (lab, ms["kappa"], type(ires).__name__), case)
        return
    ctx.count(sub, key=(lab, case["seed"]), nontrivial=True, label=lab + (":wide" if m_ < n_ else ":tall-or-square") + (":raises-" + type(ires).__name__ if ist == "raise" else ":RETURNS"))
    # the model of the (repaired) code raises at the guard: exact rank < number of columns
    cst, cval = model_coded(ctx, A, b, [[(10, d) for d in dists]])
    if (cst, cval) != ("err", 1) or ms["rank"] >= n_:
        ctx.violation(sub, SITE_MODEL, "guard-vs-kernel", "certified kernel vector but model-as-coded gives %s %s, exact rank %s of %s columns" % (cst, cval if cst == "err" else "", ms["rank"], n_), case)
    check_rank_deficient(ctx, sub, case, A, ms, ist, ires, fullrank_impl)
    # the certified kernel vector is invisible to the testers: two variable vectors, same exact data (runtime echo of theorem 11)
    w = ms["w"]
    if any(x != 0 for x in model_predict(ctx, A, np.zeros(m_), w)):
        ctx.violation(sub, SITE_MODEL, "kernel-not-invisible", "A w != 0 for the certified kernel vector", case)


def sub_rankdef(ctx):
    rng = ctx.rng
    cases = []

    def add(kind, sysname, para, states=None, povms=None, nout=None, dep=False, trine=None):
        case = {"kind": kind, "sys": sysname, "para": para, "seed": rng.randrange(10 ** 9), "tset": "incomplete"}
        if states is not None:
            case["states"] = states; case["srate"] = 0.03 if dep else 0
        if povms is not None:
            case["povms"] = povms; case["prate"] = 0.07 if dep else 0
        if nout is not None:
            case["nout"] = nout
        if trine is not None:
            case["trine"] = trine
        case["truths"] = truth_specs(rng, kind, sysname, nout, 2)[1:2]
        cases.append(case)

    for para in (False, True):
        for dep in (False, True):
            for pv in (["x"], ["z"], ["x", "y"], ["y", "z"], ["x", "x", "z"]):
                add("qst", "q1", para, povms=pv, dep=dep)
            add("povmt", "q1", para, states=["x0", "y0", "z0"], nout=2, dep=dep)
            add("povmt", "q1", para, states=["z0", "z1", "x0", "x1"], nout=2, dep=dep)
            add("qpt", "q1", para, states=["x0", "y0", "z0", "z1"], povms=["x", "y"], dep=dep)
            add("qpt", "q1", para, states=["x0", "z0", "z1"], povms=["x", "y", "z"], dep=dep)
            add("qpt", "q1", para, states=["x0", "z0"], povms=["x", "y", "z"], dep=dep)
            add("qmpt", "q1", para, states=["x0", "y0", "z0"], povms=["x", "y", "z"], nout=2, dep=dep)
        # a single three-outcome (trine) POVM: 3 x 4 / 3 x 3 — physical, generic angles, not informationally complete
        for phi in (0.3, 1.1):
            add("qst", "q1", para, povms=[], trine=phi)
        add("qst", "t1", para, povms=["01x3", "01y3"])
        add("qst", "t1", para, povms=["01x3", "01y3", "z3"], dep=True)
        add("qst", "t1", para, povms=["01x3", "01y3", "z3", "12x3", "12y3"], dep=True)
        add("povmt", "t1", para, states=["01z0", "12z0", "02z1", "01x0", "01y0"], nout=3)
    if not ctx.quick:
        for para in (False, True):
            add("qst", "q2", para, povms=["x", "y"])
            add("qst", "q2", para, povms=["z"], dep=True)
            add("povmt", "q2", para, states=["x0", "z0", "z1"], nout=4)
            add("qmpt", "q1", para, states=["x0", "y0", "z0", "z1"], povms=["x", "z"], nout=2, dep=True)
    ctx.sample("rankdef", cases[0])
    ctx.run_cases("rankdef", chk_rankdef, cases)


# ------------------------------------------------------------------------------------------ sub-check: synthetic
_SYN = {}


def synthetic_tomo(rows_by_block, b_by_block):
    """a real StandardQst whose coefficient tables are replaced: calc_matA / calc_vecB / is_fullrank_matA / LinearEstimator
    run unchanged on exactly representable numbers"""
    if "c" not in _SYN:
        _SYN["c"] = _csys("q1")
        _SYN["povms"] = _testers(_SYN["c"], "povm", ["x", "y", "z"], 0)
    from quara.protocol.qtomography.standard.standard_qst import StandardQst
    qt = StandardQst(_SYN["povms"], on_para_eq_constraint=False, schedules="all")
    c1, c0 = {}, {}
    # keys are inserted in REVERSED order: calc_matA / calc_vecB must sort by (schedule, outcome), not rely on insertion order
    for j, (rows, bs) in reversed(list(enumerate(zip(rows_by_block, b_by_block)))):
        for x, (r, bb) in reversed(list(enumerate(zip(rows, bs)))):
            c1[(j, x)] = np.array([float(t) for t in r], dtype=np.float64)
            c0[(j, x)] = float(bb)
    qt._coeffs_1st, qt._coeffs_0th = c1, c0
    return qt


def chk_synthetic(ctx, case):
    sub = "synthetic"
    blocks = [[[fr(t) for t in r] for r in blk] for blk in case["A"]]
    bvals = [[fr(t) for t in blk] for blk in case["b"]]
    qt = synthetic_tomo(blocks, bvals)
    A = np.array(qt.calc_matA(), dtype=float); b = np.array(qt.calc_vecB(), dtype=float)
    m_, n_ = A.shape
    sizes = [len(blk) for blk in blocks]
    if [list(map(float, r)) for blk in blocks for r in blk] != A.tolist() or [float(t) for blk in bvals for t in blk] != b.tolist():
        ctx.violation(sub, "StandardQTomography.calc_matA", "stacking-order", "calc_matA / calc_vecB do not stack the coefficient tables in (schedule, outcome) order", case)
        return
    seq = [[(int(cnt), np.array([float(fr(t)) for t in d], dtype=float)) for cnt, d in ds] for ds in case["seq"]]
    seq_exact = [[(int(cnt), [fr(t) for t in d]) for cnt, d in ds] for ds in case["seq"]]
    cst, cval = model_coded(ctx, A, b, seq_exact)
    ist, ires = impl_seq(qt, seq)
    fl = [[t for _, d in ds for t in d] for ds in seq_exact]
    wellformed = all(len(f) == m_ and [len(d) for _, d in ds] == sizes for f, ds in zip(fl, seq_exact))
    ms = model_solve(ctx, A, b, fl if wellformed else [])
    if ms["status"] == "err":
        ctx.violation(sub, SITE_MODEL, "certificate-rejected", "model could not certify inverse or kernel (code %s)" % ms["code"], case)
        return
    unequal = len(set(sizes)) > 1
    lab = "%s:%s%s%s" % (case["label"], "inv" if ms["status"] == "inv" else "ker", ":unequal-blocks" if unequal else "", "" if wellformed else ":malformed-data")
    ctx.count(sub, key=(case["label"], case["id"]), nontrivial=(m_ >= 2 and n_ >= 2), label=lab + ":" + (("model-ok" if cst == "ok" else "model-err%s" % cval)))
    fullrank_impl = bool(qt.is_fullrank_matA())
    # ---- (0a) the oracle behind the guard: np.linalg.matrix_rank == exact pivot count of the model (rank_of), every shape
    np_rank = int(np.linalg.matrix_rank(A))
    if np_rank != ms["rank"]:
        ctx.violation(sub, "np.linalg.matrix_rank", "rank-oracle-vs-exact", "matA %dx%d (small integers times 2^%s): np.linalg.matrix_rank = %d, exact pivot count = %d" % (m_, n_, case.get("scale2", 0), np_rank, ms["rank"]), case)
        return
    # ---- (0) the guard: is_fullrank_matA() == (exact rank == number of columns)  [exact small integers: no band needed]
    if ms["status"] == "ker":
        # not informationally complete (certified kernel vector): model raises at the guard, so must the implementation
        if (cst, cval) != ("err", 1) or ms["rank"] >= n_:
            ctx.violation(sub, SITE_MODEL, "guard-vs-kernel", "certified kernel vector but model-as-coded gives %s %s, exact rank %s of %s columns" % (cst, cval if cst == "err" else "", ms["rank"], n_), case)
            return
        check_rank_deficient(ctx, sub, case, A, ms, ist, ires, fullrank_impl)
        return
    if ms["rank"] != n_ or not fullrank_impl:
        ctx.violation(sub, SITE_GUARD, "rank-value", "certified inverse exists but exact rank %s of %s columns, is_fullrank_matA()=%s" % (ms["rank"], n_, fullrank_impl), case)
        return
    # ---- (1) branch correspondence with the estimator as coded (full column rank from here on)
    if cst == "ok":
        if ist != "ok":
            if unequal and wellformed and isinstance(ires, ValueError):
                ctx.violation(sub, SITE_EST, "unequal-outcome-counts-raise", "blocks of %s rows, full column rank (certified inverse), model-as-coded returns, but the estimator raises ValueError: %s" % (sizes, str(ires)[:100]), case)
            elif wellformed:
                ctx.violation(sub, SITE_EST, "unexpected-raise", "certified inverse exists, model-as-coded returns, but the estimator raises %s: %s" % (type(ires).__name__, str(ires)[:150]), case)
            else:
                ctx.violation(sub, SITE_EST, "model-branch", "model-as-coded returns, implementation raises %s: %s" % (type(ires).__name__, str(ires)[:150]), case)
            return
    elif cval in (3, 4):
        # malformed data: np.hstack of no block (3) / f - b with different lengths (4): ValueError
        if wellformed:
            ctx.violation(sub, SITE_MODEL, "model-branch", "model-as-coded raises code %s on well-formed data" % cval, case)
            return
        if ist != "raise":        # the exception class (ValueError today) is not part of the property and is not compared
            ctx.violation(sub, SITE_EST, "model-branch", "model-as-coded raises code %s (data of the wrong length), implementation returns a value" % cval, case)
        return
    else:
        # 1 (guard) / 2 (singular behind a passing guard) contradict the certified inverse; 5 = producer failed
        ctx.violation(sub, SITE_MODEL, "certificate-rejected", "model-as-coded gives error %s although an inverse is certified" % cval, case)
        return
    # ---- (2) the property
    if not wellformed:
        # model-as-coded AND implementation return on data that do not follow the schedule's block structure (possible
        # with np.hstack when the total length happens to be m): values are compared through (1) only
        if len(ires.estimated_var_sequence) != len(cval) or any(maxabs(x, [float(t) for t in c]) > 1e-9 * (1 + max(abs(float(t)) for t in c)) * ms.get("kappa", 1.0) for x, c in zip(ires.estimated_var_sequence, cval)):
            ctx.violation(sub, SITE_EST, "value", "synthetic %s: estimate on irregular data differs from the model-as-coded" % case["label"], case)
        return
    kappa = ms["kappa"]
    tol = 1e-11 * kappa
    xs = [np.asarray(v, dtype=float) for v in ires.estimated_var_sequence]
    for i, f in enumerate(fl):
        xm = np.array([float(t) for t in ms["xs"][i]]); scale = 1.0 + float(np.abs(xm).max())
        if list(ms["xs"][i]) != list(cval[i]):
            ctx.violation(sub, SITE_MODEL, "coded-vs-solve", "as-coded model and certified solve differ", case)
        if maxabs(xs[i], xm) > tol * scale:
            ctx.violation(sub, SITE_EST, "value", "synthetic %s: estimate differs from exact least squares by %.3g (tol %.3g)" % (case["label"], maxabs(xs[i], xm), tol * scale), dict(case, focus=i))
            continue
        _, atr = model_residual(ctx, A, b, f, xs[i])
        if max(abs(t) for t in atr) > ms["normG"] * tol * scale:
            ctx.violation(sub, SITE_EST, "normal-equations", "synthetic: |A^T r|_inf = %.3g" % max(abs(t) for t in atr), dict(case, focus=i))
        if case.get("vars") and case["vars"][i] is not None:
            v = [fr(t) for t in case["vars"][i]]
            if list(ms["xs"][i]) != v:
                ctx.violation(sub, SITE_MODEL, "exact-recovery-exact", "model: exact data of v does not return v exactly", case)
            if maxabs(xs[i], [float(t) for t in v]) > tol * scale:
                ctx.violation(sub, SITE_EST, "exact-recovery", "synthetic: exact data of v returns v + %.3g" % maxabs(xs[i], [float(t) for t in v]), dict(case, focus=i))
        s1, r1 = impl_one(qt, [(7 * cnt + 1, d) for cnt, d in seq[i]])
        if s1 != "ok" or maxabs(r1.estimated_var, xs[i]) > 1e-13 * scale:
            ctx.violation(sub, SITE_EST, "depends-on-sample-counts", "synthetic: single estimate with other counts differs from the sequence element", dict(case, focus=i))


def gen_synthetic(rng, idx):
    """small exact instances.  entries of A: small integers; b, data: dyadic rationals (exact as floats)"""
    n = rng.randint(1, 5)
    shape = rng.choice(["tall", "tall", "tall", "square", "wide", "tall-deficient", "unequal", "unequal", "malformed"])
    nb = rng.randint(1, 4)
    if shape == "wide":
        n = max(n, 2); total = rng.randint(1, n - 1); nb = min(nb, total)
    elif shape == "square":
        total = n
        nb = min(nb, total)
    else:
        total = rng.randint(n + 1, n + 6)
    # split total rows into nb blocks
    if shape in ("unequal",) and total >= 3:
        nb = max(2, min(nb, total - 1))
        cuts = sorted(rng.sample(range(1, total), nb - 1))
        sizes = [b - a for a, b in zip([0] + cuts, cuts + [total])]
        if len(set(sizes)) == 1:
            sizes[0] += 1; total += 1
    else:
        k = max(1, total // nb)
        sizes = [k] * nb
        total = k * nb
        if shape in ("tall", "tall-deficient", "malformed", "unequal") and total <= n:
            sizes = [s + 1 for s in sizes]; total = sum(sizes)
    rows = [[rng.randint(-3, 3) for _ in range(n)] for _ in range(total)]
    if shape == "tall-deficient" and n >= 2:
        # rank n - d for a random d >= 1: d columns are integer combinations of the others
        dep = rng.sample(range(n), rng.randint(1, n - 1))
        others = [t for t in range(n) if t not in dep]
        for j in dep:
            co = [rng.randint(-2, 2) for _ in others]
            for r in rows:
                r[j] = sum(c * r[t] for c, t in zip(co, others))
    # the whole matrix times 2^k (exact in binary floating point): rank, guard and invertibility are scale invariant
    scale2 = rng.choice([0, 0, 0, -20, -9, 7, 20])
    if scale2:
        rows = [[Fraction(t) * Fraction(2) ** scale2 for t in r] for r in rows]
    bvec = [Fraction(rng.randint(-8, 8), 8) for _ in range(total)]
    A_blocks, b_blocks, o = [], [], 0
    for s in sizes:
        A_blocks.append([[fstr(t) for t in r] for r in rows[o:o + s]]); b_blocks.append([fstr(t) for t in bvec[o:o + s]]); o += s
    nseq = rng.choice([0, 1, 1, 2, 2, 3]) if shape != "malformed" else rng.randint(1, 3)      # 0: an empty sequence returns an empty result
    seq, vars_ = [], []
    for _ in range(nseq):
        if rng.random() < 0.5:
            v = [Fraction(rng.randint(-8, 8), rng.choice([1, 2, 4])) for _ in range(n)]
            f = [sum(Fraction(a) * x for a, x in zip(r, v)) + bb for r, bb in zip(rows, bvec)]
            vars_.append([fstr(t) for t in v])
        else:
            f = [Fraction(rng.randint(-40, 40), 16) for _ in range(total)]
            vars_.append(None)
        ds, o = [], 0
        for s in sizes:
            ds.append([rng.choice([0, 1, 10, 1000]), [fstr(t) for t in f[o:o + s]]]); o += s
        seq.append(ds)
    if shape == "malformed":
        kind = rng.choice(["drop-block", "short-block", "extra-entry", "empty-dataset"])
        ds = seq[-1]
        if kind == "drop-block" and len(ds) >= 2 and total - sizes[-1] >= 2:
            seq[-1] = ds[:-1]
        elif kind == "short-block" and len(ds) >= 2 and len(ds[0][1]) >= 2:
            ds[0][1] = ds[0][1][:-1]
        elif kind == "extra-entry" and len(ds) == 1:
            ds[0][1] = ds[0][1] + ["1/2"]
        elif kind == "empty-dataset":
            seq[-1] = []
        else:
            for d in ds:
                d[1] = d[1] + ["1/4"]
        vars_[-1] = None
    if shape != "malformed":
        shape = ("wide" if total < n else "square" if total == n else "tall") + ("-deficient" if shape == "tall-deficient" and n >= 2 else "") \
            + ("-unequal" if len(set(sizes)) > 1 else "")
    return {"id": idx, "label": shape, "A": A_blocks, "b": b_blocks, "seq": seq, "vars": vars_, "scale2": scale2}


def sub_synthetic(ctx):
    cases = [gen_synthetic(ctx.rng, i) for i in range(ctx.n(1000 if getattr(ctx, "boost", False) else 180, 2500))]
    ctx.sample("synthetic", cases[0])
    ctx.run_cases("synthetic", chk_synthetic, cases)


# ------------------------------------------------------------------------------------------ sub-check: history
SIG_HIST_EST = "estimate-depends-on-estimator-history"      # the re-used estimator object disagrees, a fresh estimator agrees
SIG_HIST_QT = "estimate-depends-on-tomography-history"      # fresh estimator on the used tomography disagrees, on a rebuilt one agrees
SIG_HIST_PROC = "estimate-wrong-even-with-fresh-objects"      # fresh estimator on a rebuilt tomography disagrees too: module / class level state, or a plain defect


def build_member(spec):
    """pool member -> (qt, c or None)"""
    if spec["type"] == "real":
        return build_tomo(spec["case"])
    blocks = [[[fr(t) for t in r] for r in blk] for blk in spec["A"]]
    bvals = [[fr(t) for t in blk] for blk in spec["b"]]
    return synthetic_tomo(blocks, bvals), None


def _job_estimates(qt, est, job_seq, mode):
    """run one job on the given estimator object: list of estimates (or exception)"""
    try:
        with warnings.catch_warnings():
            warnings.simplefilter("ignore")
            if mode == "single":
                res = [est.calc_estimate(qt, ds) for ds in job_seq]
                return ("ok", res, [np.array(r.estimated_var, dtype=float) for r in res])
            r = est.calc_estimate_sequence(qt, job_seq)
            return ("ok", [r], [np.array(v, dtype=float) for v in r.estimated_var_sequence])
    except Exception as e:      # noqa
        return ("raise", e, None)


def chk_history(ctx, case):
    from quara.protocol.qtomography.standard.linear_estimator import LinearEstimator
    sub = "history"
    rng = random.Random(case["seed"])
    pool = []
    for spec in case["pool"]:
        qt, c = build_member(spec)
        A = np.array(qt.calc_matA(), dtype=float); b = np.array(qt.calc_vecB(), dtype=float)
        ms = model_solve(ctx, A, b, [])
        if ms["status"] == "err":
            ctx.violation(sub, SITE_MODEL, "certificate-rejected", "model could not certify inverse or kernel (code %s)" % ms["code"], case)
            return
        skip = ms["status"] == "inv" and ms["kappa"] > KAPPA_BAND
        pool.append({"spec": spec, "qt": qt, "A": A, "b": b, "A0": A.copy(), "b0": b.copy(), "sizes": block_sizes(qt), "ms": ms, "skip": skip,
                     "shape_key": (type(qt).__name__, bool(qt.on_para_eq_constraint), qt.num_schedules, qt.num_variables, A.shape)})
    usable = [i for i, pm in enumerate(pool) if not pm["skip"]]
    if len(usable) < 2:
        ctx.count(sub, key=("hist", case["id"], "skip"), nontrivial=False, label="history:pool-ill-conditioned-skipped")
        return
    # ---- the jobs: every usable member at least twice, interleaved, random estimator object, single / sequence calls
    order = usable * 2 + [rng.choice(usable) for _ in range(case["extra_jobs"])]
    rng.shuffle(order)
    n_est = int(case.get("n_est", 2))
    jobs = []
    for t in order:
        pm = pool[t]
        m_ = pm["A"].shape[0]
        k = rng.choice([1, 1, 2, 3])
        seq = []
        for _ in range(k):
            vec = [float(Fraction(rng.randint(-24, 40), 16)) for _ in range(m_)]
            seq.append([(rng.choice([1, 10, 1000]), d) for d in split_blocks(vec, pm["sizes"])])
        jobs.append({"t": t, "est": 0 if rng.random() < 0.7 else rng.randrange(n_est), "mode": rng.choice(["single", "seq"]), "seq": seq,
                     "seq0": [[(cnt, d.copy()) for cnt, d in ds] for ds in seq]})
    # ---- the history: the estimator objects are created ONCE
    ests = [LinearEstimator() for _ in range(n_est)]
    seen = {e: [] for e in range(n_est)}          # per estimator: (shape_key, member index) already served
    for ji, job in enumerate(jobs):
        pm = pool[job["t"]]
        job["out"] = _job_estimates(pm["qt"], ests[job["est"]], job["seq"], job["mode"])
        job["snap"] = None if job["out"][0] != "ok" else [x.copy() for x in job["out"][2]]
        # the caller scribbles on the arrays the tomography hands out: later jobs (and the tomography) must not notice
        for arr in (pm["qt"].calc_matA(), pm["qt"].calc_vecB()):
            try:
                arr[...] = np.nan
            except (ValueError, TypeError):      # read-only buffers are fine
                pass
        job["collision"] = any(k == pm["shape_key"] and t != job["t"] for k, t in seen[job["est"]])
        seen[job["est"]].append((pm["shape_key"], job["t"]))
    # ---- every result against the model's result for that job ALONE
    for ji, job in enumerate(jobs):
        pm = pool[job["t"]]
        ms, A, b = pm["ms"], pm["A0"], pm["b0"]
        st, res, xs = job["out"]
        lab = "history:%s:%s" % ("real" if pm["spec"]["type"] == "real" else "synthetic", "rank-deficient" if ms["status"] == "ker" else ("same-shape-other-testers-seen-before" if job["collision"] else "first-of-its-shape"))
        ctx.count(sub, key=("hist", case["id"], ji), nontrivial=bool(job["collision"] or ms["status"] == "ker"), label=lab + ":" + job["mode"])
        jc = dict(case, focus_job=ji)
        if ms["status"] == "ker":
            check_rank_deficient(ctx, sub, jc, A, ms, "ok" if st == "ok" else "raise", res, bool(pm["qt"].is_fullrank_matA()))
            continue
        cst, cval = model_coded(ctx, A, b, job["seq0"])
        if cst != "ok":
            ctx.violation(sub, SITE_MODEL, "model-branch", "model-as-coded raises code %s on a well-formed job" % cval, jc)
            continue
        tol = TOL_REL * ms["kappa"]
        xm = [np.array([float(t) for t in x]) for x in cval]
        def off(xlist):
            if xlist is None or len(xlist) != len(xm):
                return float("inf")         # raised, or wrong number of estimates
            return max(maxabs(x, y) / (1.0 + float(np.abs(y).max())) for x, y in zip(xlist, xm))
        d_shared = off(xs)
        if d_shared <= tol:
            continue
        # classify: fresh estimator on the same tomography object / on a rebuilt tomography
        d_fresh = off(_job_estimates(pm["qt"], LinearEstimator(), job["seq0"], job["mode"])[2])
        d_rebuilt = off(_job_estimates(build_member(pm["spec"])[0], LinearEstimator(), job["seq0"], job["mode"])[2])
        sig = SIG_HIST_EST if d_fresh <= tol else (SIG_HIST_QT if d_rebuilt <= tol else SIG_HIST_PROC)
        prev = [t for k, t in seen[job["est"]][:sum(1 for j in jobs[:ji] if j["est"] == job["est"])]]
        ctx.violation(sub, SITE_EST, sig,
                      "job %d of a history (tomography member %d, %s %s, matA %dx%d, estimator object #%d previously used for members %s): %s (relative; tol %.3g; inf = raises); "
                      "fresh estimator on the same tomography: %.3g; fresh estimator on a rebuilt tomography: %.3g"
                      % (ji, job["t"], pm["shape_key"][0], "para" if pm["shape_key"][1] else "full", A.shape[0], A.shape[1], job["est"], prev[-6:],
                         ("the re-used estimator raises %s: %s" % (type(res).__name__, str(res)[:100])) if st != "ok" else ("estimate differs from the exact least-squares solution of THIS job by %.3g" % d_shared),
                         tol, d_fresh, d_rebuilt), jc)
    # ---- nothing that was handed out or handed in has changed
    for ji, job in enumerate(jobs):
        if job["out"][0] == "ok":
            st, res, xs = job["out"]
            now = [np.array(r.estimated_var, dtype=float) for r in res] if job["mode"] == "single" else [np.array(v, dtype=float) for v in res[0].estimated_var_sequence]
            if len(now) != len(job["snap"]) or any(not np.array_equal(a, b_) for a, b_ in zip(now, job["snap"])):
                ctx.violation(sub, SITE_RES, "result-changed-by-later-call", "the result object returned by job %d reports different estimates after later jobs ran" % ji, dict(case, focus_job=ji))
        for ds, ds0 in zip(job["seq"], job["seq0"]):
            if any(c1 != c0 or not np.array_equal(d1, d0) for (c1, d1), (c0, d0) in zip(ds, ds0)):
                ctx.violation(sub, SITE_EST, "mutates-argument", "the empirical distributions passed to job %d were modified" % ji, dict(case, focus_job=ji))
    for t, pm in enumerate(pool):
        if not (np.array_equal(np.array(pm["qt"].calc_matA(), dtype=float), pm["A0"]) and np.array_equal(np.array(pm["qt"].calc_vecB(), dtype=float), pm["b0"])):
            ctx.violation(sub, "StandardQTomography.calc_matA", "tomography-changed-by-estimation", "matA / vecB of pool member %d differ after the history" % t, case)


def _syn_member(rng, m_sizes, n, deficient=False):
    total = sum(m_sizes)
    rows = [[rng.randint(-3, 3) for _ in range(n)] for _ in range(total)]
    if deficient and n >= 2:
        j = rng.randrange(n); others = [t for t in range(n) if t != j]
        co = [rng.randint(-2, 2) for _ in others]
        for r in rows:
            r[j] = sum(c * r[t] for c, t in zip(co, others))
    bvec = [Fraction(rng.randint(-8, 8), 8) for _ in range(total)]
    A_blocks, b_blocks, o = [], [], 0
    for sz in m_sizes:
        A_blocks.append([[str(t) for t in r] for r in rows[o:o + sz]]); b_blocks.append([fstr(t) for t in bvec[o:o + sz]]); o += sz
    return {"type": "syn", "A": A_blocks, "b": b_blocks}


def gen_history(rng, idx, quick):
    """pool families chosen so that SEVERAL members share class, parametrisation, number of schedules, number of
    variables and matA shape but differ in their testers (the situation in which state keyed by 'the setting' goes wrong)"""
    def real(kind, sysname, para, tset, **kw):
        return {"type": "real", "case": tomo_case(rng, kind, sysname, para, tset, n_truth=1, n_adv=0, n_var=0, n_samp=0, **kw)}
    fam = ["qst-q1", "synthetic", "povmt-q1", "mixed", "qst-t1", "qpt-q1"][idx % 6]
    para = bool(rng.getrandbits(1))
    pool = []
    if fam == "qst-q1":
        pool = [real("qst", "q1", para, "complete"), real("qst", "q1", para, "complete-dep"), real("qst", "q1", para, "complete-flip"),
                real("qst", "q1", para, "complete-dep", perm=True), real("qst", "q1", not para, "complete-dep"), real("qst", "q1", para, "over-dep"),
                real("qst", "q1", para, "over", perm=True), real("qst", "q1", para, "odd-dep")]
        inc = {"type": "real", "case": {"kind": "qst", "sys": "q1", "para": para, "seed": rng.randrange(10 ** 9), "tset": "incomplete", "povms": ["x", "y"], "prate": 0}}
        pool.append(inc)
    elif fam == "povmt-q1":
        pool = [real("povmt", "q1", para, "complete", nout=2), real("povmt", "q1", para, "complete-dep", nout=2), real("povmt", "q1", para, "complete-dep", nout=2, perm=True),
                real("povmt", "q1", not para, "complete-dep", nout=2), real("povmt", "q1", para, "over-dep", nout=2), real("qst", "q1", para, "complete-dep")]
        pool.append({"type": "real", "case": {"kind": "povmt", "sys": "q1", "para": para, "seed": rng.randrange(10 ** 9), "tset": "incomplete", "states": ["x0", "y0", "z0"], "srate": 0, "nout": 2}})
    elif fam == "qst-t1":
        pool = [real("qst", "t1", para, "complete"), real("qst", "t1", para, "complete-flip"), real("qst", "t1", para, "complete-dep", perm=True), real("qst", "t1", para, "mixed"),
                real("qst", "q1", para, "complete-dep")]
    elif fam == "qpt-q1":
        pool = [real("qpt", "q1", para, "complete"), real("qpt", "q1", para, "complete-dep"), real("qpt", "q1", para, "complete-flip"), real("qst", "q1", para, "complete-flip"),
                real("povmt", "q1", para, "complete-dep", nout=2)]
    elif fam == "synthetic":
        n = rng.randint(2, 4); sizes = [rng.randint(1, 3) for _ in range(3)]
        while sum(sizes) <= n:
            sizes[rng.randrange(3)] += 1
        pool = [_syn_member(rng, sizes, n) for _ in range(4)] + [_syn_member(rng, sizes, n, deficient=True)]
        pool += [_syn_member(rng, list(reversed(sizes)), n), _syn_member(rng, [s + 1 for s in sizes], n), _syn_member(rng, [2] * (n + 1), max(1, n - 1))]
    else:
        pool = [real("qst", "q1", para, "complete-dep"), real("qst", "q1", para, "complete-flip"), real("povmt", "q1", para, "complete-dep", nout=2),
                real("qmpt", "q1", para, "complete", nout=2), real("qmpt", "q1", para, "complete-dep", nout=2)]
        pool += [_syn_member(rng, [2, 2, 2], 4), _syn_member(rng, [2, 2, 2], 4), _syn_member(rng, [2, 2, 2], 4, deficient=True)]
    rng.shuffle(pool)
    return {"id": idx, "family": fam, "pool": pool, "seed": rng.randrange(10 ** 9), "extra_jobs": 4 if quick else 10, "n_est": 2}


def sub_history(ctx):
    cases = [gen_history(ctx.rng, i, ctx.quick) for i in range(ctx.n(30 if getattr(ctx, "boost", False) else 12, 72))]
    ctx.sample("history", cases[0])
    ctx.run_cases("history", chk_history, cases)



# ------------------------------------------------------------------------------------------ sub-check: large (thorough)
def chk_large(ctx, case):
    sub = "large"
    qt, c = build_tomo(case)
    para = bool(case["para"])
    A = np.array(qt.calc_matA(), dtype=float); b = np.array(qt.calc_vecB(), dtype=float)
    m_, n_ = A.shape
    G = A.T @ A
    kappa = float(np.linalg.cond(G, np.inf))      # float estimate, used for the tolerance only (the exact inverse is out of budget)
    normG = float(np.abs(G).sum(axis=1).max())
    seq, tv, objs = [], [], []
    for spec in case["truths"]:
        obj = build_truth(case, c, spec)
        with warnings.catch_warnings():
            warnings.simplefilter("ignore")
            pd = qt.generate_prob_dists_sequence(obj)
        seq.append([(100, np.array(p, dtype=float)) for p in pd]); tv.append(true_var(obj, c, para)); objs.append(obj)
    rng = random.Random(case["seed"])
    seq.append(split_blocks_counts([float(Fraction(rng.randint(-24, 40), 16)) for _ in range(m_)], block_sizes(qt)))
    tv.append(None)
    ist, ires = impl_seq(qt, seq)
    if ist != "ok":
        ctx.violation(sub, SITE_EST, "unexpected-raise", "2-qubit tomography raises %s" % type(ires).__name__, case)
        return
    tol = 1e-10 * max(1.0, kappa)      # float estimate of kappa, up to 512 variables
    for i, (ds, t) in enumerate(zip(seq, tv)):
        x = np.asarray(ires.estimated_var_sequence[i], dtype=float)
        if i in (0, len(seq) - 1):      # the twin entry point calc_estimate on exact and on adversarial data
            s1, r1 = impl_one(qt, ds)
            if s1 != "ok" or maxabs(r1.estimated_var, x) > 1e-12 * (1.0 + float(np.abs(x).max())):
                ctx.violation(sub, SITE_ONE, "sequence-vs-single", "large: calc_estimate(dataset %d) %s" % (i, "raises " + type(r1).__name__ if s1 != "ok" else "differs from the sequence element by %.3g" % maxabs(r1.estimated_var, x)), dict(case, focus=i))
        f = [float(v) for v in np.hstack([d for _, d in ds])]
        scale = 1.0 + float(np.abs(x).max())
        _, atr = model_residual(ctx, A, b, f, x)
        ctx.count(sub, key=(case["kind"], case["sys"], para, i, case["seed"]), nontrivial=True, label="%s-%s-%s:%s" % (case["kind"], case["sys"], "para" if para else "full", "exact" if t is not None else "adversarial"))
        if max(abs(v) for v in atr) > normG * tol * scale:
            ctx.violation(sub, SITE_EST, "normal-equations", "large: |A^T(Ax-(f-b))|_inf = %.3g (tol %.3g)" % (max(abs(v) for v in atr), normG * tol * scale), dict(case, focus=i))
        if t is not None and maxabs(x, t) > tol * scale:
            ctx.violation(sub, SITE_EST, "exact-recovery", "large: estimate from exact data differs from the true variables by %.3g" % maxabs(x, t), dict(case, focus=i))
        # the returned OBJECT: whole stacked vector vs the independent expansion of the estimated variables and vs the true object
        with warnings.catch_warnings():
            warnings.simplefilter("ignore")
            qo = ires.estimated_qoperation_sequence[i] if i else ires.estimated_qoperation
        ref = ref_stacked_from_var(MODE[case["kind"]], c.dim, case.get("nout"), x, para)
        if maxabs(qo.to_stacked_vector(), ref) > 1e-12 * scale:
            ctx.violation(sub, SITE_RES + ".estimated_qoperation", "result-object-constrained-part", "large: the returned object differs from the object defined by estimated_var by %.3g" % maxabs(qo.to_stacked_vector(), ref), dict(case, focus=i))
        if t is not None and maxabs(qo.to_stacked_vector(), objs[i].to_stacked_vector()) > 4 * tol * scale:
            ctx.violation(sub, SITE_RES + ".estimated_qoperation", "object-recovery", "large: object estimated from exact data differs from the true object by %.3g" % maxabs(qo.to_stacked_vector(), objs[i].to_stacked_vector()), dict(case, focus=i))


def split_blocks_counts(vec, sizes):
    return [(10, d) for d in split_blocks(vec, sizes)]


def sub_large(ctx):
    if ctx.quick:
        ctx.note("large (2-qubit QPT 576x256, qutrit QMPT, 2-qubit QMPT 1152x512): thorough tier only")
        return
    cases = []
    for para in (False, True):
        case = {"kind": "qpt", "sys": "q2", "para": para, "tset": "complete", "seed": ctx.rng.randrange(10 ** 9),
                "states": T_STATES["q2"]["complete"], "srate": 0, "povms": T_POVMS["q2"]["complete"], "prate": 0,
                "truths": truth_specs(ctx.rng, "qpt", "q2", None, 2)}
        cases.append(case)
        # measurement-process tomography beyond one qubit: qutrit (3- and 2-outcome instruments; 567x243 .. 378x153) and
        # 2 qubits (parity instruments, 1152x512 / 1152x496)
        for sysname, nout in (("t1", 3), ("t1", 2), ("q2", 2)):
            cases.append({"kind": "qmpt", "sys": sysname, "para": para, "nout": nout, "tset": "complete", "seed": ctx.rng.randrange(10 ** 9),
                          "states": T_STATES[sysname]["complete"], "srate": 0.03 if sysname == "t1" else 0,
                          "povms": T_POVMS[sysname]["complete"], "prate": 0.05 if sysname == "t1" else 0,
                          "truths": truth_specs(ctx.rng, "qmpt", sysname, nout, 2)})
    ctx.sample("large", cases[0])
    ctx.run_cases("large", chk_large, cases)


SUBS = [("tomo", sub_tomo), ("history", sub_history), ("rankdef", sub_rankdef), ("synthetic", sub_synthetic), ("large", sub_large)]
FNS = {"synthetic": chk_synthetic, "tomo": chk_tomo, "rankdef": chk_rankdef, "large": chk_large, "history": chk_history}


TRANSLATED = [
    # (translator, regenerated file, equivalence file re-checked against it)
    ("c09_py2coq.py", "Gen_c09_linear.v", "C09_Equiv.v"),          # guard, calc_estimate(_sequence), result accessors
    ("c09_var_py2coq.py", "Gen_c09_var.v", "C09_VarEquiv.v"),      # convert_var_to_hss / convert_var_to_vecs (object from variables)
]


def regen_glue(ctx):
    """translator ties (same protocol as flow.regen_check, with this property's own translators): regenerate Gallina
    definitions from the CURRENT source, compile them, and re-check the equivalence files of coq/gen (regenerated == hand-written
    model on all inputs; transported property theorems).  returns (ok, info) - the first failure"""
    import os, re, shutil, subprocess, sys
    import runner
    V = runner.V
    scratch = os.path.join(getattr(ctx, "scratch", os.path.join(V, "build", ctx.prop_id)), "gen")
    os.makedirs(scratch, exist_ok=True)
    result = (True, {})
    for translator, gen_name, equiv_name in TRANSLATED:
        gen_v = os.path.join(scratch, gen_name)
        for stem in (gen_v[:-2], os.path.join(scratch, equiv_name[:-2])):
            for ext in (".vo", ".vos", ".vok", ".glob"):
                try:
                    os.remove(stem + ext)
                except OSError:
                    pass
        equiv = os.path.join(V, "coq", "gen", equiv_name)
        src = open(equiv).read()
        src_nc = re.sub(r"\(\*.*?\*\)", " ", src, flags=re.S)
        thms = re.findall(r"^\s*Theorem\s+([\w']+)", src_nc, flags=re.M)
        ctx.theorems = list(ctx.theorems) + [t for t in thms if t not in ctx.theorems]
        ctx.obligations += len(thms)

        def bad(theorem, error):
            nonlocal result
            if result[0]:
                result = (False, {"theorem": theorem, "error": error})
        r = subprocess.run([sys.executable, os.path.join(V, "gen", translator), os.environ.get("VERIF_REPO", "/repo"), gen_v],
                           capture_output=True, text=True, timeout=120)
        if r.returncode != 0:
            bad(thms[0], "%s rejected the source (outside its subset): %s" % (translator, (r.stdout + r.stderr)[-600:]))
            continue
        q = ["-Q", os.path.join(V, "coq", "theories"), "QV", "-Q", scratch, "QVGen"]
        r = subprocess.run(["timeout", "300", "coqc"] + q + [gen_v], capture_output=True, text=True)
        if r.returncode != 0:
            bad(thms[0], "regenerated %s does not compile: %s" % (gen_name, (r.stdout + r.stderr)[-600:]))
            continue
        dst = os.path.join(scratch, equiv_name)
        shutil.copy(equiv, dst)
        r = subprocess.run(["timeout", "600", "coqc"] + q + [dst], capture_output=True, text=True)
        out = r.stdout + r.stderr
        if r.returncode != 0:
            m_ = re.search(r"line (\d+), characters", out)
            thm = None
            if m_:
                upto = "\n".join(src.splitlines()[:int(m_.group(1))])
                names = re.findall(r"^\s*(?:Theorem|Lemma)\s+([\w']+)", upto, flags=re.M)
                thm = names[-1] if names else None
            bad(thm, out[-800:])
            continue
        blocks = runner.parse_assumptions(out)
        badax = [a_ for closed, axs in blocks for a_ in axs if a_ not in runner.ALLOWED_AXIOMS and a_.split(".")[-1] not in runner.ALLOWED_AXIOMS]
        if len(blocks) != len(thms) or badax:
            bad(thms[0], "assumption gate on regenerated proofs (%s): %d blocks / %d theorems, disallowed %s" % (equiv_name, len(blocks), len(thms), badax))
            continue
        for t, (closed, axs) in zip(thms, blocks):
            ctx.axioms[t] = "closed" if closed else sorted(set(axs))
        ctx.discharged += len(thms)
    return result


def run(ctx):
    import runner
    ctx.rule = ("tomo: seeded configurations over {QST,POVMT,QPT,QMPT} x {full, equality-constrained parametrisation} x "
                "{complete, over-complete, depolarised (asymmetric rates), re-ordered schedules, unequal outcome counts} x {1 qubit, qutrit"
                " (+ 2 qubits thorough)}; per configuration: exact distributions of pure / interior / boundary-mixture truths, sampled data, "
                "adversarial non-normalised dyadic vectors, exact predictions of arbitrary variable vectors. matA/vecB taken from the "
                "implementation as exact rationals; inverse certified exactly (M G = I) before use. non-trivial = certified, kappa <= 1e8, "
                "data not identically zero; distinct = (configuration label, dataset label, seed, index). history: pools of different "
                "tomographies served by re-used estimator objects, non-trivial = the object already served another member of the same shape key. "
                "rankdef: incomplete tester subsets, kernel certified exactly, non-trivial = exactly rank deficient. synthetic: small exact "
                "matrices (times 2^k) through the real estimator / calc_matA / is_fullrank_matA / np.linalg.matrix_rank, every branch of the "
                "estimator as coded compared; non-trivial = at least 2x2. large (thorough): 2-qubit QPT, qutrit and 2-qubit QMPT.")
    ctx.assumptions = [
        "C09: np.linalg.inv / np.linalg.matrix_rank are oracles; inv is checked through the exact certificate M(A^T A)=I (or an exact kernel vector) on the same float matrix, matrix_rank is compared with the exact pivot count",
        "C09: the forward model (matA, vecB = Born rule of the circuit) is C08's claim; exact recovery end-to-end uses quara's own generate_prob_dists_sequence as the source of exact data",
        "C09: the index logic of mprocess.convert_var_to_hss / povm.convert_var_to_vecs is REGENERATED (gen/c09_var_py2coq.py) and proved equal to ref_hss_stacked / ref_vecs_stacked on every run; sqrt(dim) is a model parameter",
        "C09: the glue of is_fullrank_matA / calc_estimate_sequence / calc_estimate / estimated_var(_sequence) is REGENERATED from the source (gen/c09_py2coq.py) and proved equal to the model on every run; the numpy primitives' semantics (Model/C09_PySem.v) stay hand-written",
        "C09: 2-qubit QPT, qutrit QMPT and 2-qubit QMPT (256 .. 512 variables) are checked through exactly evaluated normal equations + exact recovery only (exact inverse out of budget)",
    ]
    # flow.standard_run with this property's own translator tie (flow.regen_check is bound to gen/py2coq.py)
    # the translator ties are re-checked in a second thread while Props/C09.v is re-checked (both are coqc subprocesses)
    import threading

    class _Acc:
        pass
    acc = _Acc(); acc.theorems, acc.obligations, acc.discharged, acc.axioms, acc.prop_id = [], 0, 0, {}, ctx.prop_id
    acc.scratch = ctx.scratch
    box = []
    th = threading.Thread(target=lambda: box.append(regen_glue(acc)))
    th.start()
    ok, info = runner.check_props(ctx)
    th.join()
    ok2, info2 = box[0] if box else (False, {"theorem": None, "error": "regeneration thread died"})
    ctx.theorems = list(ctx.theorems) + [t for t in acc.theorems if t not in ctx.theorems]
    ctx.obligations += acc.obligations
    ctx.discharged += acc.discharged
    ctx.axioms.update(acc.axioms)
    if not ok2:
        ok, info = False, info2
        ctx.boost = True          # widen the sweeps: look harder for a concrete failing input
        ctx.note("regenerated obligations (coq/gen/C09_Equiv.v, C09_VarEquiv.v) not discharged: %s" % str(info2)[:600])
        ctx.note("translator tie broken: sub-checks synthetic / history run with enlarged sizes")
    if not ok:
        ctx.discharged = min(ctx.discharged, ctx.obligations - 1)
    for name, fn in SUBS:
        if ctx.only is None or name in ctx.only:
            fn(ctx)
    if not ok and not ctx.violations:
        ctx.violation("theorems", "Props/%s.v + coq/gen/C09_Equiv.v + coq/gen/C09_VarEquiv.v" % ctx.prop_id, "theorem-broken:%s" % info.get("theorem"),
                      "theorem %s no longer checks: %s" % (info.get("theorem"), info.get("error", "")[-500:]),
                      {"theorem": info.get("theorem"), "error": info.get("error")}, no_input=True)
    elif not ok:
        ctx.note("theorem obligations not discharged: %s" % info)


def replay(ctx, doc):
    flow.standard_replay(ctx, doc, FNS)
