"""C03 — optimisation variables and objects are in one-to-one correspondence.

Sub-checks (every one runs the real quara code and the extracted Coq model on the same inputs and, in addition,
evaluates the property's own predicates on the implementation's outputs with independent numpy code):
  (regen)     the eight convert_*_index_to_*_index functions are regenerated from the current source by gen/py2coq.py and
              coq/gen/C03_Equiv.v re-proves them equal to the model + the transported bijection / points-at-entry theorems
  index_maps  the eight convert_*_index_to_*_index functions, every index of every configuration
  index_wide  the same functions far outside the object-level sweep (d up to 16, m up to 12), called with stand-in arguments
  objects     random NON-physical objects of the four types: to_var, generate_from_var (own and overridden flag), the
              module-level convert_* functions, the static stacked<->var conversions, calc_gradient, malformed variable
              vectors (error branches)
  setq_history the same predicates over HISTORIES of one SetQOperations object: query everything, edit the set through its setters or
              in the lists its properties hand out (same / different number of operations, same / different variable counts), query
              everything again in a shuffled order - against the harness's own record of the current contents, the model on the
              current sizes and a newly constructed set
  setq        SetQOperations with random mixes: total<->local index maps, var_total layout, set_qoperations_from_var_total
  tomography  num_variables of StandardQst / StandardPovmt / StandardQpt / StandardQmpt
"""
import random
import warnings
import numpy as np
from common import flow

LEVEL = "proof"
NAMES = ["state", "gate", "povm", "mprocess"]     # type codes 0..3 (order of SetQOperations.var_total)
TOL = 1e-12

_CS = {}


def csys(d):
    """composite systems: qubit / qutrit / 2 qubits / qubit (x) qutrit / 3 qubits / 2 qutrits"""
    if d not in _CS:
        from quara.objects.composite_system_typical import generate_composite_system
        if d == 2:
            c = generate_composite_system("qubit", 1)
        elif d == 3:
            c = generate_composite_system("qutrit", 1)
        elif d == 4:
            c = generate_composite_system("qubit", 2)
        elif d == 8:
            c = generate_composite_system("qubit", 3)
        elif d == 9:
            c = generate_composite_system("qutrit", 2)
        elif d == 6:
            from quara.objects.elemental_system import ElementalSystem
            from quara.objects.composite_system import CompositeSystem
            from quara.objects.matrix_basis import get_normalized_pauli_basis, get_normalized_gell_mann_basis
            c = CompositeSystem([ElementalSystem(0, get_normalized_pauli_basis()), ElementalSystem(1, get_normalized_gell_mann_basis())])
        else:
            raise AssertionError("no composite system of dimension %d" % d)
        assert c.dim == d
        _CS[d] = c
    return _CS[d]


def total_size(ty, d, m):
    n = d * d
    return [n, n * n, m * n, m * n * n][ty]


def mk_obj(ty, d, m, flag, stacked, shape=None):
    """the quara object whose stacked vector is `stacked` (non-physical allowed); `shape` = multi-index outcome shape of an MProcess"""
    from quara.objects.state import State
    from quara.objects.gate import Gate
    from quara.objects.povm import Povm
    from quara.objects.mprocess import MProcess
    c = csys(d); n = d * d
    a = np.array(stacked, dtype=np.float64)
    kw = dict(is_physicality_required=False, on_para_eq_constraint=bool(flag))
    if ty == 0:
        return State(c, a.copy(), **kw)
    if ty == 1:
        return Gate(c, a.reshape(n, n).copy(), **kw)
    if ty == 2:
        return Povm(c, [a[k * n:(k + 1) * n].copy() for k in range(m)], **kw)
    return MProcess(c, [a[k * n * n:(k + 1) * n * n].reshape(n, n).copy() for k in range(m)], shape=(tuple(shape) if shape else None), **kw)


def entry(obj, ty, idx):
    """the object entry a structured object index designates"""
    if ty == 0:
        return obj.vec[idx[0]]
    if ty == 1:
        return obj.hs[idx[0]][idx[1]]
    if ty == 2:
        return obj.vecs[idx[0]][idx[1]]
    return obj.hss[idx[0]][idx[1]][idx[2]]


def impl_fwd(ty, d, obj, flag, i):
    from quara.objects import state, gate, povm, mprocess
    c = csys(d)
    if ty == 0:
        return (state.convert_var_index_to_state_index(i, flag),)
    if ty == 1:
        return tuple(gate.convert_var_index_to_gate_index(c, i, flag))
    if ty == 2:
        return tuple(povm.convert_var_index_to_povm_index(c, list(obj.vecs), i, flag))
    return tuple(mprocess.convert_var_index_to_mprocess_index(c, obj.hss, i, flag))


def impl_bwd(ty, d, obj, flag, idx):
    from quara.objects import state, gate, povm, mprocess
    c = csys(d)
    if ty == 0:
        return state.convert_state_index_to_var_index(idx[0], flag)
    if ty == 1:
        return gate.convert_gate_index_to_var_index(c, tuple(idx), flag)
    if ty == 2:
        return povm.convert_povm_index_to_var_index(c, list(obj.vecs), tuple(idx), flag)
    return mprocess.convert_mprocess_index_to_var_index(c, tuple(idx), obj.hss, flag)


def all_entries(ty, d, m):
    n = d * d
    if ty == 0:
        return [(k,) for k in range(n)]
    if ty == 1:
        return [(r, c) for r in range(n) for c in range(n)]
    if ty == 2:
        return [(x, a) for x in range(m) for a in range(n)]
    return [(x, r, c) for x in range(m) for r in range(n) for c in range(n)]


def is_implied(ty, d, m, flag, idx):
    """independent statement of which entries are NOT free (the implied component)"""
    if not flag:
        return False
    if ty == 0:
        return idx[0] == 0
    if ty == 1:
        return idx[0] == 0
    if ty == 2:
        return idx[0] == m - 1
    return idx[0] == m - 1 and idx[1] == 0


def flat_of(ty, d, idx):
    n = d * d
    if ty == 0:
        return idx[0]
    if ty == 1:
        return idx[0] * n + idx[1]
    if ty == 2:
        return idx[0] * n + idx[1]
    return idx[0] * n * n + idx[1] * n + idx[2]


# ------------------------------------------------------------------ index maps (exhaustive per configuration)
def chk_index(ctx, case):
    """every variable index and every object entry of one configuration.  Two independent layers:
    (P) the property's predicates on the implementation's outputs alone (free entry / inverse / bijective / points at the
        entry holding the value), stated with independent Python code on an object whose entries are labelled by position;
    (M) agreement with the extracted Coq model (the functions the theorems are about)."""
    m_ = ctx.get_model()
    ty, d, m, flag = case["ty"], case["d"], case["m"], bool(case["flag"])
    site = NAMES[ty] + ".convert_index"
    arity = [1, 2, 2, 3][ty]
    tot = total_size(ty, d, m)
    labelled = mk_obj(ty, d, m, flag, [float(k) for k in range(tot)])       # entry value = its flat position
    var = labelled.to_var()
    tab = [int(v) for v in m_.call("c03.idx_table", [ty, d, m, int(flag)])]
    nv = tab[0]; w = arity + 2
    ents = all_entries(ty, d, m)
    free = [e for e in ents if not is_implied(ty, d, m, flag, e)]
    free_s = set(free); ent_s = set(ents)
    rep = dict(case)
    hdr = "%s d=%d m=%d flag=%s: " % (NAMES[ty], d, m, flag)
    if nv != len(free) or nv != len(var) or len(tab) != 1 + nv * w:
        ctx.violation("index_maps", site, "num-variables", hdr + "model num_variables %d, free entries %d, len(to_var) %d" % (nv, len(free), len(var)), rep)
        return
    fwd = []
    for i in range(nv):
        row = tab[1 + i * w: 1 + (i + 1) * w]
        mod_idx, mod_flat, mod_back = tuple(row[:arity]), row[arity], row[arity + 1]
        idx = tuple(int(v) for v in impl_fwd(ty, d, labelled, flag, i))
        back = int(impl_bwd(ty, d, labelled, flag, idx))
        fwd.append(idx)
        ctx.count("index_maps", key=(ty, d, m, flag, i), nontrivial=True, label=NAMES[ty] + ("-eq" if flag else "-free"))
        # (P) property predicates, implementation only
        bad = None
        if idx not in free_s:
            bad = ("not-a-free-entry", "variable %d is mapped to %s which is not a free entry" % (i, idx))
        elif back != i:
            bad = ("not-inverse", "variable %d -> %s -> %d" % (i, idx, back))
        elif float(entry(labelled, ty, idx)) != float(var[i]) or float(flat_of(ty, d, idx)) != float(var[i]):
            bad = ("points-at-wrong-entry", "variable %d holds %s, entry %s holds %s (flat position %s)" % (i, var[i], idx, entry(labelled, ty, idx), flat_of(ty, d, idx)))
        if bad:
            ctx.violation("index_maps", site, bad[0], hdr + bad[1], dict(rep, i=i))
        # (M) the model
        if idx != mod_idx or back != mod_back or (idx in ent_s and flat_of(ty, d, idx) != mod_flat):
            ctx.violation("index_maps", site, "model-mismatch", hdr + "var %d: impl %s back %s, model %s back %s (flat %s)" % (i, idx, back, mod_idx, mod_back, mod_flat), dict(rep, i=i))
    if set(fwd) != free_s or len(set(fwd)) != nv:
        ctx.violation("index_maps", site, "not-bijective", hdr + "image of the variable indices is not the set of free entries (%d distinct, %d of the %d free entries hit)" % (len(set(fwd)), len(set(fwd) & free_s), len(free)), rep)
    # the object-index -> variable-index direction on EVERY entry (implied ones included: value as coded)
    inv = [int(v) for v in m_.call("c03.inv_table", [ty, d, m, int(flag)])]
    if len(inv) != len(ents):
        ctx.violation("index_maps", site, "model-mismatch", hdr + "inverse table size", rep); return
    hit = {}
    for e, mv in zip(ents, inv):
        v = int(impl_bwd(ty, d, labelled, flag, e))
        imp = is_implied(ty, d, m, flag, e)
        ctx.count("index_maps", key=(ty, d, m, flag, "inv", e), nontrivial=not imp, label=NAMES[ty] + "-inv" + ("-implied" if imp else ""))
        if not imp:
            if not (0 <= v < nv and fwd[v] == e):
                ctx.violation("index_maps", site, "not-inverse", hdr + "entry %s -> var %s -> %s" % (e, v, fwd[v] if 0 <= v < nv else "out of range"), dict(rep, entry=list(e)))
            elif v in hit:
                ctx.violation("index_maps", site, "not-bijective", hdr + "entries %s and %s both map to variable %d" % (hit[v], e, v), dict(rep, entry=list(e)))
            elif float(var[v]) != float(entry(labelled, ty, e)):
                ctx.violation("index_maps", site, "points-at-wrong-entry", hdr + "entry %s holds %s but its variable %d holds %s" % (e, entry(labelled, ty, e), v, var[v]), dict(rep, entry=list(e)))
            hit[v] = e
        if v != mv:
            ctx.violation("index_maps", site, "model-mismatch", hdr + "entry %s: impl var index %s model %s" % (e, v, mv), dict(rep, entry=list(e)))
    if len(hit) != nv:
        ctx.violation("index_maps", site, "not-bijective", hdr + "the free entries reach %d of the %d variable indices" % (len(hit), nv), rep)


def sub_index_maps(ctx):
    cases = []
    dims = [2, 3, 4, 6]
    for d in dims:
        for flag in (1, 0):
            for ty in (0, 1):
                cases.append({"ty": ty, "d": d, "m": 0, "flag": flag})
            for m in (2, 3, 4, 5):
                for ty in (2, 3):
                    cases.append({"ty": ty, "d": d, "m": m, "flag": flag})
    if not ctx.quick or tie_broken(ctx):
        # thorough tier, or: the translator tie of the index functions did not re-prove on this tree -> widen the search for a failing input
        for flag in (1, 0):
            cases += [{"ty": 0, "d": 9, "m": 0, "flag": flag}, {"ty": 1, "d": 8, "m": 0, "flag": flag}, {"ty": 2, "d": 9, "m": 3, "flag": flag},
                      {"ty": 2, "d": 8, "m": 7, "flag": flag}, {"ty": 3, "d": 2, "m": 9, "flag": flag}, {"ty": 3, "d": 3, "m": 1, "flag": flag},
                      {"ty": 2, "d": 3, "m": 1, "flag": 0}]
            cases += [{"ty": ty, "d": d, "m": m, "flag": flag} for d in (2, 3) for m in (6, 7, 8) for ty in (2, 3)]
    ctx.sample("index_maps", cases[5])
    ctx.run_cases("index_maps", chk_index, cases)
    ctx.note("index maps: every variable index and every object entry of all four types, d in %s, m in 2..5, both flags (%d configurations)" % (dims, len(cases)))


def tie_broken(ctx):
    """flow.standard_run leaves this note when the regenerated index functions no longer re-prove equal to the model"""
    return any("regenerated-model obligations" in n for n in ctx.notes)


# ------------------------------------------------------------------ index maps far outside the object-level sweep
class _Sys:
    """the index functions read nothing of a composite system but .dim"""
    def __init__(self, d):
        self.dim = d


def wide_fns(ty, d, m, flag):
    """(var index -> object index, object index -> var index) as /repo computes them, for ANY (d, m): the eight functions are pure
    integer code that reads only c_sys.dim, len(hss) and vecs[0].shape[0], so stand-ins replace the quara objects"""
    from quara.objects import state, gate, povm, mprocess
    c = _Sys(d)
    if ty == 0:
        return (lambda i: (state.convert_var_index_to_state_index(i, flag),)), (lambda e: state.convert_state_index_to_var_index(e[0], flag))
    if ty == 1:
        return (lambda i: tuple(gate.convert_var_index_to_gate_index(c, i, flag))), (lambda e: gate.convert_gate_index_to_var_index(c, tuple(e), flag))
    if ty == 2:
        vecs = [np.zeros(d * d)] * m
        return (lambda i: tuple(povm.convert_var_index_to_povm_index(c, vecs, i, flag))), (lambda e: povm.convert_povm_index_to_var_index(c, vecs, tuple(e), flag))
    hss = [None] * m
    return (lambda i: tuple(mprocess.convert_var_index_to_mprocess_index(c, hss, i, flag))), (lambda e: mprocess.convert_mprocess_index_to_var_index(c, tuple(e), hss, flag))


def ref_position(ty, d, m, flag, i):
    """independent statement: row-major position of the i-th free entry = i + number of implied entries before it"""
    n = d * d
    if not flag or ty == 2:
        return i                                    # Povm: the implied element is the last one
    if ty == 0:
        return i + 1
    if ty == 1:
        return i + n
    return i + (n if i >= (m - 1) * n * n else 0)   # MProcess: first row of the last HS


def chk_index_wide(ctx, case):
    mdl = ctx.get_model()
    ty, d, m, flag = case["ty"], case["d"], case["m"], bool(case["flag"])
    site = NAMES[ty] + ".convert_index"
    n = d * d
    nv = int(mdl.call("c03.numvar", [ty, d, m, int(flag)])[0])
    nfree = total_size(ty, d, m) - ([1, n, n, n][ty] if flag else 0)
    hdr = "%s d=%d m=%d flag=%s: " % (NAMES[ty], d, m, flag)
    if nv != nfree:
        ctx.violation("index_wide", site, "num-variables", hdr + "model num_variables %d, free entries %d" % (nv, nfree), dict(case)); return
    try:
        fwd, bwd = wide_fns(ty, d, m, flag)
        fwd(0)
    except (AttributeError, TypeError) as e:       # the functions started to read more of their arguments: the stand-ins do not apply
        ctx.note("index_wide skipped for %s: the stand-in arguments are not accepted (%s)" % (NAMES[ty], type(e).__name__)); return
    hs = n * n
    marks = [0, 1, n - 1, n, n + 1, hs - n - 1, hs - n, hs - 1, hs, hs + n, (m - 1) * n - 1, (m - 1) * n, (m - 1) * hs - 1, (m - 1) * hs, (m - 1) * hs + 1,
             (m - 1) * hs + n - 1, (m - 1) * hs + n, nv - n - 1, nv - n, nv - 2, nv - 1]
    rng = random.Random(case["seed"])
    idxs = sorted(set([i for i in marks if 0 <= i < nv] + [rng.randrange(nv) for _ in range(case["k"])]))
    for i in idxs:
        idx = tuple(int(v) for v in fwd(i))
        back = int(bwd(idx))
        mod = tuple(int(v) for v in mdl.call("c03.idx", [ty, d, m, int(flag), i]))
        ctx.count("index_wide", key=(ty, d, m, flag, i), nontrivial=True, label=NAMES[ty] + ("-eq" if flag else "-free"))
        inside = len(idx) == len(all_entries(ty, 1, 1)[0]) and all(0 <= a < b for a, b in zip(idx, [[n], [n, n], [m, n], [m, n, n]][ty]))
        if not inside or is_implied(ty, d, m, flag, idx):
            ctx.violation("index_wide", site, "not-a-free-entry", hdr + "variable %d is mapped to %s which is not a free entry" % (i, idx), dict(case, i=i))
        elif back != i:
            ctx.violation("index_wide", site, "not-inverse", hdr + "variable %d -> %s -> %d" % (i, idx, back), dict(case, i=i))
        elif flat_of(ty, d, idx) != ref_position(ty, d, m, flag, i):
            ctx.violation("index_wide", site, "points-at-wrong-entry", hdr + "variable %d is mapped to %s = flat position %d; the %d-th free entry sits at %d" % (i, idx, flat_of(ty, d, idx), i, ref_position(ty, d, m, flag, i)), dict(case, i=i))
        if idx != mod:
            ctx.violation("index_wide", site, "model-mismatch", hdr + "var %d: impl %s, model %s" % (i, idx, mod), dict(case, i=i))


def sub_index_wide(ctx):
    rng = ctx.rng
    wide = (not ctx.quick) or tie_broken(ctx)
    cases = []
    for k in range(ctx.n(64, 640) if not tie_broken(ctx) else 640):
        ty = k % 4
        d = rng.choice([2, 3, 4, 5, 6, 7, 8, 9, 10, 12, 16] if wide else [2, 3, 5, 7, 8, 10, 12])
        m = rng.randint(1, 12) if ty >= 2 else 0
        flag = (k // 4) % 2
        if ty == 2 and flag and m == 1:
            m = 6
        cases.append({"ty": ty, "d": d, "m": m, "flag": flag, "seed": rng.randrange(10 ** 9), "k": 24})
    ctx.sample("index_wide", cases[3])
    ctx.run_cases("index_wide", chk_index_wide, cases)
    ctx.note("index_wide: %d configurations with d up to %d and m in 1..12 (beyond the stated 2..5), boundary + random variable indices, /repo's index functions called with stand-in arguments" % (len(cases), 16 if wide else 12))


# ------------------------------------------------------------------ objects
def rand_vals(rng, k):
    """small dyadic rationals (exact in float and in Qc), generic: no symmetry, zeros rare"""
    return [rng.randint(-24, 24) / 8.0 if rng.random() < 0.9 else rng.randint(-999, 999) / 64.0 for _ in range(k)]


def ref_reimplied(ty, d, m, flag, stacked):
    """independent numpy statement: the object with its implied component overwritten by the implied value"""
    a = np.array(stacked, dtype=np.float64).copy(); n = d * d
    if not flag:
        return a
    if ty == 0:
        a[0] = 1 / np.sqrt(d)
    elif ty == 1:
        a[:n] = 0.0; a[0] = 1.0
    elif ty == 2:
        tot = np.zeros(n); tot[0] = np.sqrt(d)
        a[(m - 1) * n:] = tot - a[:(m - 1) * n].reshape(m - 1, n).sum(axis=0)
    else:
        hs = n * n; one = np.zeros(n); one[0] = 1.0
        a[(m - 1) * hs:(m - 1) * hs + n] = one - sum(a[x * hs:x * hs + n] for x in range(m - 1))
    return a


def ref_free_mask(ty, d, m, flag):
    return np.array([not is_implied(ty, d, m, flag, e) for e in all_entries(ty, d, m)])


def static_cls(ty):
    from quara.objects.state import State
    from quara.objects.gate import Gate
    from quara.objects.povm import Povm
    from quara.objects.mprocess import MProcess
    return [State, Gate, Povm, MProcess][ty]


def fr(vals):
    return [float(v) for v in vals]


def direct_fns(ty):
    from quara.objects import state, gate, povm, mprocess
    return [(state.convert_vec_to_var, state.convert_var_to_vec), (gate.convert_hs_to_var, gate.convert_var_to_hs),
            (povm.convert_vecs_to_var, povm.convert_var_to_vecs), (mprocess.convert_hss_to_var, mprocess.convert_var_to_hss)][ty]


def arrays_of(obj, ty):
    """copies of the arrays the object holds, in the form the module-level functions take"""
    if ty == 0:
        return np.array(obj.vec, dtype=np.float64)
    if ty == 1:
        return np.array(obj.hs, dtype=np.float64)
    if ty == 2:
        return [np.array(v, dtype=np.float64) for v in obj.vecs]
    return [np.array(h, dtype=np.float64) for h in obj.hss]


def close(a, b, tol=TOL):
    a = np.asarray(a, dtype=float).ravel(); b = np.asarray(b, dtype=float).ravel()
    return a.shape == b.shape and (a.size == 0 or float(np.abs(a - b).max()) <= tol * (1 + float(np.abs(b).max())))


def chk_object(ctx, case):
    mdl = ctx.get_model()
    ty, d, m, flag = case["ty"], case["d"], case["m"], bool(case["flag"])
    rng = random.Random(case["seed"])
    name = NAMES[ty]; n = d * d; c = csys(d); sd = float(np.sqrt(d))
    tot = total_size(ty, d, m)
    mask = ref_free_mask(ty, d, m, flag)
    stacked = np.array(rand_vals(rng, tot))
    if case.get("eqsat"):
        stacked = ref_reimplied(ty, d, m, flag, stacked)       # an object that satisfies its equality constraint
    lab = "%s-%s-%s%s" % (name, "eq" if flag else "free", "sat" if case.get("eqsat") else "generic", "-multishape" if case.get("shape") else "")
    zs = [ty, d, m, int(flag)]
    obj = mk_obj(ty, d, m, flag, stacked, case.get("shape"))
    nontriv = bool(np.count_nonzero(stacked) > tot // 2)
    ctx.count("objects", key=(ty, d, m, flag, case["seed"]), nontrivial=nontriv, label=lab)
    rep = dict(case)

    def viol(site, sig, what):
        ctx.violation("objects", site, sig, "%s d=%d m=%d flag=%s: %s" % (name, d, m, flag, what), rep)

    # --- to_stacked_vector is the layout the model is fed with
    st = np.asarray(obj.to_stacked_vector(), dtype=float)
    if not np.array_equal(st, stacked):
        viol(name + ".to_stacked_vector", "layout", "stacked vector is not the row-major concatenation of the arrays"); return
    # --- to_var : model, length, free entries in order
    var = np.asarray(obj.to_var(), dtype=float)
    var_m = fr(mdl.call("c03.to_var", zs, fr(stacked)))
    nv = int(mdl.call("c03.numvar", zs)[0])
    if not (len(var) == len(var_m) and np.array_equal(var, np.array(var_m))):
        viol(name + ".to_var", "model-mismatch", "to_var differs from the model (len %d vs %d)" % (len(var), len(var_m))); return
    if len(var) != nv:
        viol(name + ".to_var", "length-neq-num-variables", "len(to_var) = %d, num_variables formula = %d" % (len(var), nv))
    if not np.array_equal(var, stacked[mask]):
        viol(name + ".to_var", "not-the-free-entries", "to_var is not the sequence of free entries in row-major order")
    # --- obj -> var -> obj
    obj2 = obj.generate_from_var(var)
    st2 = np.asarray(obj2.to_stacked_vector(), dtype=float)
    st2_m = fr(mdl.call("c03.from_var", zs, [sd] + fr(var)))
    if not close(st2, st2_m):
        viol(name + ".generate_from_var", "model-mismatch", "generate_from_var(to_var) differs from the model, max diff %.3g" % flow.maxdiff(list(st2), st2_m))
    expect = ref_reimplied(ty, d, m, flag, stacked)
    if len(st2) != tot:
        viol(name + ".generate_from_var", "shape-changed", "object -> var -> object has %d entries instead of %d" % (len(st2), tot)); return
    if not np.array_equal(st2[mask], stacked[mask]):
        viol(name + ".generate_from_var", "free-entry-changed", "object -> var -> object changed a free entry")
    elif not close(st2, expect):
        viol(name + ".generate_from_var", "implied-component", "implied component after the round trip is %s, expected %s" % (st2[~mask][:6], expect[~mask][:6]))
    if case.get("eqsat") and not close(st2, stacked):
        viol(name + ".generate_from_var", "roundtrip-obj", "object satisfying its constraint is not reproduced by object -> var -> object")
    if not np.array_equal(np.asarray(obj2.to_var(), dtype=float), var):
        viol(name + ".generate_from_var", "roundtrip-var", "var -> object -> var is not the identity (on to_var of the object)")
    if bool(obj2.on_para_eq_constraint) != flag:
        viol(name + ".generate_from_var", "flag-lost", "generate_from_var changed on_para_eq_constraint")
    if ty == 3 and tuple(obj2.shape) != tuple(obj.shape):
        viol(name + ".generate_from_var", "shape-lost", "generate_from_var changed the outcome shape %s -> %s" % (obj.shape, obj2.shape))
    # --- var -> obj -> var for an unrelated variable vector
    w = np.array(rand_vals(rng, nv))
    obj3 = obj.generate_from_var(w)
    st3 = np.asarray(obj3.to_stacked_vector(), dtype=float)
    st3_m = fr(mdl.call("c03.from_var", zs, [sd] + fr(w)))
    if not close(st3, st3_m):
        viol(name + ".generate_from_var", "model-mismatch", "generate_from_var(w) differs from the model, max diff %.3g" % flow.maxdiff(list(st3), st3_m))
    if len(st3) != tot:
        viol(name + ".generate_from_var", "shape-changed", "var -> object has %d entries instead of %d" % (len(st3), tot)); return
    if not np.array_equal(np.asarray(obj3.to_var(), dtype=float), w):
        viol(name + ".generate_from_var", "roundtrip-var", "var -> object -> var is not the identity")
    if not close(st3, ref_reimplied(ty, d, m, flag, st3)) or not np.array_equal(st3[mask], w):
        viol(name + ".generate_from_var", "implied-component", "generated object does not carry w in its free entries / the implied value in the implied ones")
    # --- the OTHER parametrisation of the same object type, selected with the override argument of generate_from_var
    oflag = not flag
    if not (ty == 2 and m == 1 and oflag):
        zs_o = [ty, d, m, int(oflag)]
        nv_o = int(mdl.call("c03.numvar", zs_o)[0])
        wo = np.array(rand_vals(rng, nv_o))
        st4_m = fr(mdl.call("c03.from_var", zs_o, [sd] + fr(wo)))
        ctx.count("objects", key=(ty, d, m, flag, case["seed"], "override"), nontrivial=False, label=name + "-flag-override")
        try:
            with warnings.catch_warnings():
                warnings.simplefilter("ignore")
                obj4 = obj.generate_from_var(wo, on_para_eq_constraint=oflag)
        except (ValueError, IndexError) as e:
            obj4 = None
            viol(name + ".generate_from_var", "flag-override-raises", "generate_from_var(w, on_para_eq_constraint=%s) with the %d variables of that parametrisation raises %s" % (oflag, nv_o, type(e).__name__))
        if obj4 is not None:
            st4 = np.asarray(obj4.to_stacked_vector(), dtype=float)
            if not close(st4, st4_m):
                viol(name + ".generate_from_var", "flag-override-model-mismatch", "generate_from_var(w, on_para_eq_constraint=%s) differs from the model" % oflag)
            if bool(obj4.on_para_eq_constraint) != oflag or not np.array_equal(np.asarray(obj4.to_var(), dtype=float), wo):
                viol(name + ".generate_from_var", "flag-override-roundtrip-var", "generate_from_var(w, on_para_eq_constraint=%s).to_var() is not w" % oflag)
    # --- the module-level conversion functions the methods are built from, called directly on the arrays
    to_fn, from_fn = direct_fns(ty)
    dv = np.asarray(to_fn(c, arrays_of(obj, ty), flag), dtype=float)
    if not np.array_equal(dv, var):
        viol(name + "." + to_fn.__name__, "inconsistent-with-to_var", "direct call differs from to_var()")
    da = from_fn(c, w.copy(), flag)
    ds = np.asarray(da, dtype=float).ravel() if ty in (0, 1) else np.concatenate([np.asarray(x, dtype=float).ravel() for x in da])
    if not close(ds, st3_m):
        viol(name + "." + from_fn.__name__, "model-mismatch", "direct call differs from the model")
    elif not close(ds, st3):
        viol(name + "." + from_fn.__name__, "inconsistent-with-generate_from_var", "direct call differs from generate_from_var(var)")
    # --- static conversions, consistent with the above
    cls = static_cls(ty)
    zs3 = [ty, d, int(flag)]
    v2s = np.asarray(cls.convert_var_to_stacked_vector(c, w.copy(), flag), dtype=float)
    v2s_m = fr(mdl.call("c03.var_to_stacked", zs3, [sd] + fr(w)))
    if not close(v2s, v2s_m):
        viol(name + ".convert_var_to_stacked_vector", "model-mismatch", "differs from the model")
    elif not close(v2s, st3):
        viol(name + ".convert_var_to_stacked_vector", "inconsistent-with-generate_from_var", "stacked vector of var differs from generate_from_var(var).to_stacked_vector()")
    s2v = np.asarray(cls.convert_stacked_vector_to_var(c, stacked.copy(), flag), dtype=float)
    s2v_m = fr(mdl.call("c03.stacked_to_var", zs3, [sd] + fr(stacked)))
    if not (len(s2v) == len(s2v_m) and np.array_equal(s2v, np.array(s2v_m))):
        viol(name + ".convert_stacked_vector_to_var", "model-mismatch", "differs from the model")
    elif not np.array_equal(s2v, var):
        viol(name + ".convert_stacked_vector_to_var", "inconsistent-with-to_var", "var of the stacked vector differs from to_var()")
    # --- calc_gradient: one-hot at the entry that holds the variable
    idxs = list(range(nv)) if nv <= 40 else sorted(set([0, 1, n - 1, n, n + 1, nv - n - 1, nv - n, nv - 2, nv - 1] + [rng.randrange(nv) for _ in range(12)]))
    for i in [i for i in idxs if 0 <= i < nv]:
        g = np.asarray(obj.calc_gradient(i).to_stacked_vector(), dtype=float)
        g_m = fr(mdl.call("c03.gradient", zs + [i]))
        ctx.count("objects", key=(ty, d, m, flag, "grad", i), nontrivial=False, label=name + "-gradient")
        if not (len(g) == len(g_m) and np.array_equal(g, np.array(g_m))):
            viol(name + ".calc_gradient", "model-mismatch", "gradient %d differs from the model" % i); break
        hot = np.flatnonzero(g)
        pos = int(np.flatnonzero(mask)[i])          # position of the i-th free entry
        if not (len(hot) == 1 and g[hot[0]] == 1.0 and hot[0] == pos and st3[pos] == w[i]):
            viol(name + ".calc_gradient", "not-one-hot-at-entry", "gradient %d is non-zero at %s, variable lives at stacked position %d" % (i, list(hot[:5]), pos)); break
    # out of range: first index past the variables, past the object
    for i in (nv, tot, tot + n):
        try:
            g = np.asarray(obj.calc_gradient(i).to_stacked_vector(), dtype=float); impl = ("ok", g)
        except IndexError:
            impl = ("err", None)
        stt, val = mdl.try_call("c03.gradient", zs + [i])
        ctx.count("objects", key=(ty, d, m, flag, "grad-oor", i), nontrivial=False, label=name + "-gradient-out-of-range-" + stt)
        if (stt == "err") != (impl[0] == "err") or (stt == "ok" and not np.array_equal(impl[1], np.array(fr(val)))):
            viol(name + ".calc_gradient", "out-of-range-branch", "index %d: impl %s model %s" % (i, impl[0], stt))
    # --- malformed variable vectors: reshape / constructor errors exactly where the model says
    for delta in case.get("bad", []):
        L = nv + delta
        if L <= 0:
            continue
        wb = np.array(rand_vals(rng, L))
        try:
            with warnings.catch_warnings():
                warnings.simplefilter("ignore")
                ob = obj.generate_from_var(wb)
            impl = ("ok", np.asarray(ob.to_stacked_vector(), dtype=float))
        except (ValueError, IndexError) as e:
            impl = ("err", type(e).__name__)
        stt, val = mdl.try_call("c03.from_var", zs, [sd] + fr(wb))
        ctx.count("objects", key=(ty, d, m, flag, case["seed"], "bad", delta), nontrivial=False, label="%s-badlen-%s" % (name, stt))
        if (stt == "err") != (impl[0] == "err"):
            viol(name + ".generate_from_var", "error-branch", "variable vector of length %d (expected %d): impl %s, model %s" % (L, nv, impl[0] if impl[0] == "ok" else impl[1], stt))
        elif stt == "ok" and not close(impl[1], fr(val)):
            viol(name + ".generate_from_var", "model-mismatch", "variable vector of length %d accepted with a different result" % L)


SHAPES = {4: [(2, 2)], 6: [(2, 3), (3, 2)], 8: [(2, 4), (4, 2), (2, 2, 2)]}


def gen_object_cases(ctx, count):
    rng = ctx.rng
    cases = []
    combos = [(ty, flag) for ty in range(4) for flag in (1, 0)]
    for k in range(count):
        ty, flag = combos[k % len(combos)]
        r = rng.random()
        if ctx.quick:
            d = 2 if r < 0.4 else 3 if r < 0.75 else 4 if r < 0.95 else 6
        else:
            d = 2 if r < 0.3 else 3 if r < 0.6 else 4 if r < 0.85 else 6 if r < 0.97 else (9 if ty in (0, 2) else 6)
        m = rng.randint(2, 5) if ty >= 2 else 0
        if ty >= 2 and not ctx.quick and rng.random() < 0.1:
            m = rng.choice([1, 6, 7, 8]) if not (ty == 2 and flag) else rng.choice([6, 7, 8])     # outside the stated 2..5 (thorough only)
        if ty == 3 and d == 6:
            m = min(m, 3 if ctx.quick else 4)
        n = d * d
        bad = []
        if rng.random() < 0.5:
            bad = rng.sample([-1, 1, -n, n, n * n, -n * n, 2 * n, n - 1, n * n - n], 3)
        case = {"ty": ty, "d": d, "m": m, "flag": flag, "seed": rng.randrange(10 ** 9), "eqsat": int(rng.random() < 0.4), "bad": bad}
        if ty == 3 and m in SHAPES and rng.random() < 0.5:
            case["shape"] = list(rng.choice(SHAPES[m]))          # multi-index outcome shape (product = m)
        cases.append(case)
    return cases


def sub_objects(ctx):
    cases = gen_object_cases(ctx, ctx.n(480, 6000))
    ctx.sample("objects", cases[2]); ctx.sample("objects", cases[7])
    ctx.run_cases("objects", chk_object, cases)


# ------------------------------------------------------------------ SetQOperations
def nvars(ty, d, m, flag):
    """independent closed form: number of free entries of an object"""
    n = d * d
    return total_size(ty, d, m) - ([1, n, n, n][ty] if flag else 0)


def build_ops(rng, groups):
    return [[mk_obj(ty, d, m, bool(flag), rand_vals(rng, total_size(ty, d, m))) for d, m, flag in grp] for ty, grp in enumerate(groups)]


def set_info(sq, t):
    info = sq.local_info_from_index_var_total(t)
    return [NAMES.index(info["mode"]), int(info["index_operations"]), int(info["index_var_local"])]


def verify_set(ctx, sub, sq, groups, objs, rng, rep, tag="", order=None, fresh=None):
    """every SetQOperations predicate on the set `sq` AS IT IS NOW.  What the set should contain is the harness's own record
    (`groups` = descriptors [d, m, flag], `objs` = the objects, lists NOT shared with sq); expectations are computed from that record
    (closed-form sizes, concatenated to_var) and from the Coq model evaluated on the current descriptors - never from earlier answers
    of sq.  `fresh` = a newly constructed SetQOperations with the same contents (history independence).  `order` = order of the phases;
    the index phases call nothing but the index conversions, so a stale cache cannot be refreshed by an unrelated query first."""
    mdl = ctx.get_model()
    sizes = [[nvars(ty, d, m, bool(flag)) for d, m, flag in grp] for ty, grp in enumerate(groups)]
    blocks = []
    for sz in sizes:
        blocks += [len(sz)] + sz
    desc = []
    for grp in groups:
        desc += [3 * len(grp)] + [int(x) for t in grp for x in t]
    nops = sum(len(g) for g in groups)
    total = sum(sum(sz) for sz in sizes)
    ksz = [sum(sz) for sz in sizes]
    efim = {"state": 0, "gate": ksz[0], "povm": ksz[0] + ksz[1], "mprocess": ksz[0] + ksz[1] + ksz[2]}
    evt = np.concatenate([np.asarray(o.to_var(), dtype=float) for lst in objs for o in lst] + [np.zeros(0)])
    key0 = (rep.get("seed"), tag)

    def viol(site, sig, what):
        ctx.violation(sub, "SetQOperations." + site, sig, what + " (ops %s%s)" % (groups, ("; history: " + tag) if tag else ""), rep)

    def ph_sizes():
        got = int(sq.size_var_total())
        fim = sq._get_operation_mode_to_total_index_map()
        ms = [int(v) for v in mdl.call("c03.set_sizes", desc)]
        ctx.count(sub, key=("sizes",) + key0, nontrivial=nops >= 2, label="ops=%d" % nops)
        if len(evt) != total or [[len(o.to_var()) for o in lst] for lst in objs] != sizes:
            viol("size_var_total", "neq-sum-of-sizes", "the operations' to_var lengths %s are not the closed-form variable counts %s" % ([[len(o.to_var()) for o in lst] for lst in objs], sizes)); return
        if got != total:
            viol("size_var_total", "neq-sum-of-sizes", "size_var_total %d is not the sum of the current operations' variable counts %s" % (got, sizes))
        if [total, efim["gate"], efim["povm"], efim["mprocess"]] != ms:
            viol("size_var_total", "model-mismatch", "closed-form sizes %s differ from the model %s" % ([total, efim], ms))
        if {k: int(v) for k, v in fim.items()} != efim:
            viol("_get_operation_mode_to_total_index_map", "wrong-first-index", "first indices %s, the current contents give %s" % (dict(fim), efim))
        vt = np.asarray(sq.var_total(), dtype=float)
        if len(vt) != total:
            viol("var_total", "length", "len(var_total) %d != %d" % (len(vt), total))
        elif not np.array_equal(vt, evt):
            viol("var_total", "layout", "var_total is not the concatenation states, gates, povms, mprocesses of the current operations' to_var()")
        if fresh is not None and (int(fresh.size_var_total()) != got or not np.array_equal(np.asarray(fresh.var_total(), dtype=float), vt)):
            viol("var_total", "differs-from-fresh-set", "size / var_total differ from a newly constructed set with the same contents")

    def ph_t2l():
        bnd = [b for b in (efim["gate"], efim["povm"], efim["mprocess"], efim["gate"] - 1, efim["povm"] - 1, efim["mprocess"] - 1, 0, total - 1) if 0 <= b < total]
        ts = list(range(total)) if total <= 400 else sorted(set(rng.randrange(total) for _ in range(300)) | set(bnd))
        for t in ts:
            try:
                k, i, j = got = set_info(sq, t)
            except (IndexError, UnboundLocalError) as e:
                viol("local_info_from_index_var_total", "raises-inside-range", "t=%d with %d variables raises %s" % (t, total, type(e).__name__)); return
            mm = [int(v) for v in mdl.call("c03.local_from_total", [t] + blocks)]
            ctx.count(sub, key=key0 + ("t", t), nontrivial=nops >= 2, label="total->local")
            if got != mm:
                viol("local_info_from_index_var_total", "model-mismatch", "t=%d impl %s model %s" % (t, got, mm))
            if fresh is not None and got != set_info(fresh, t):
                viol("local_info_from_index_var_total", "differs-from-fresh-set", "t=%d: %s, a newly constructed set with the same contents says %s" % (t, got, set_info(fresh, t)))
            if not (0 <= i < len(objs[k]) and 0 <= j < sizes[k][i]):
                viol("local_info_from_index_var_total", "out-of-range-local", "t=%d -> %s" % (t, got)); return
            if float(objs[k][i].to_var()[j]) != float(evt[t]):
                viol("local_info_from_index_var_total", "points-at-wrong-variable", "var_total[%d] = %s but %s[%d].to_var()[%d] = %s" % (t, evt[t], NAMES[k], i, j, objs[k][i].to_var()[j])); return
            back = int(sq.index_var_total_from_local_info(NAMES[k], i, j))
            if back != t:
                viol("index_var_total_from_local_info", "not-inverse", "t=%d -> %s -> %d" % (t, got, back)); return
            if got != mm:
                return

    def ph_l2t():
        triples = [(k, i, j) for k in range(4) for i in range(len(sizes[k])) for j in range(sizes[k][i])]
        if len(triples) > 400:
            triples = rng.sample(triples, 300)
        seen = set()
        for k, i, j in triples:
            t = int(sq.index_var_total_from_local_info(NAMES[k], i, j))
            tm = int(mdl.call("c03.total_from_local", [k, i, j] + blocks)[0])
            ctx.count(sub, key=key0 + ("l", k, i, j), nontrivial=nops >= 2, label="local->total")
            if t != tm:
                viol("index_var_total_from_local_info", "model-mismatch", "(%s,%d,%d): impl %d model %d" % (NAMES[k], i, j, t, tm))
            if fresh is not None and t != int(fresh.index_var_total_from_local_info(NAMES[k], i, j)):
                viol("index_var_total_from_local_info", "differs-from-fresh-set", "(%s,%d,%d) -> %d, a newly constructed set with the same contents says %d" % (NAMES[k], i, j, t, int(fresh.index_var_total_from_local_info(NAMES[k], i, j))))
            if not (0 <= t < total) or t in seen:
                viol("index_var_total_from_local_info", "not-injective-into-range", "(%s,%d,%d) -> %d" % (NAMES[k], i, j, t)); return
            seen.add(t)
            if float(evt[t]) != float(objs[k][i].to_var()[j]):
                viol("index_var_total_from_local_info", "points-at-wrong-variable", "(%s,%d,%d) -> %d, var_total[%d] = %s but the variable is %s" % (NAMES[k], i, j, t, t, evt[t], objs[k][i].to_var()[j])); return
            try:
                got = set_info(sq, t)
            except (IndexError, UnboundLocalError) as e:
                viol("local_info_from_index_var_total", "raises-inside-range", "(%s,%d,%d) -> %d with %d variables raises %s" % (NAMES[k], i, j, t, total, type(e).__name__)); return
            if got != [k, i, j]:
                viol("local_info_from_index_var_total", "not-inverse", "(%s,%d,%d) -> %d -> %s" % (NAMES[k], i, j, t, got)); return
            if t != tm:
                return

    def ph_err():
        for t in (-1, total, total + 5):
            try:
                sq.local_info_from_index_var_total(t); impl = "ok"
            except IndexError:
                impl = "IndexError"
            except UnboundLocalError:
                impl = "UnboundLocalError"
            stt, val = mdl.try_call("c03.local_from_total", [t] + blocks)
            ctx.count(sub, key=key0 + ("oor", t), nontrivial=False, label="total-out-of-range")
            if not (impl == "IndexError" and stt == "err" and val == 3):
                viol("local_info_from_index_var_total", "error-branch", "t=%d (%d variables): impl %s model %s %s" % (t, total, impl, stt, val))
        for k in range(4):
            for i in (len(sizes[k]), len(sizes[k]) + 1, -1):
                try:
                    t = int(sq.index_var_total_from_local_info(NAMES[k], i, 0)); impl = ("ok", t)
                except IndexError:
                    impl = ("err", None)
                stt, val = mdl.try_call("c03.total_from_local", [k, i, 0] + blocks)
                ctx.count(sub, key=key0 + ("oor-op", k, i), nontrivial=False, label="operation-index-out-of-range-" + stt)
                if (stt == "err") != (impl[0] == "err") or (stt == "ok" and int(val[0]) != impl[1]):
                    viol("index_var_total_from_local_info", "error-branch", "(%s,%d,0): impl %s model %s %s" % (NAMES[k], i, impl, stt, val))
        try:
            sq.index_var_total_from_local_info("effective_lindbladian", 0, 0)
            viol("index_var_total_from_local_info", "error-branch", "unsupported mode accepted")
        except ValueError:
            pass

    def ph_regen():
        sds = [float(np.sqrt(x)) for x in (2, 3, 4, 6)]
        v = np.array(rand_vals(rng, total))
        try:
            new = sq.set_qoperations_from_var_total(v)
        except (ValueError, IndexError) as e:
            viol("set_qoperations_from_var_total", "raises-on-right-length", "a vector with the %d variables of the current contents raises %s" % (total, type(e).__name__)); return
        newops = [new.states, new.gates, new.povms, new.mprocesses]
        st_new = np.concatenate([np.asarray(o.to_stacked_vector(), dtype=float) for lst in newops for o in lst] + [np.zeros(0)])
        st_m = fr(mdl.call("c03.set_from_var_total", desc, sds + fr(v)))
        ctx.count(sub, key=key0 + ("regen",), nontrivial=nops >= 2, label="set_from_var_total")
        if [len(x) for x in newops] != [len(x) for x in objs]:
            viol("set_qoperations_from_var_total", "regrouping", "number of operations per kind changed")
        if not close(st_new, st_m):
            viol("set_qoperations_from_var_total", "model-mismatch", "regenerated operations differ from the model")
        if not np.array_equal(np.asarray(new.var_total(), dtype=float), v):
            viol("set_qoperations_from_var_total", "roundtrip-var", "var_total of the regenerated set is not the vector it was generated from")
        if [[(int(o.dim), bool(o.on_para_eq_constraint), len(o.to_var())) for o in lst] for lst in newops] != [[(d, bool(flag), nvars(ty, d, m, bool(flag))) for d, m, flag in grp] for ty, grp in enumerate(groups)]:
            viol("set_qoperations_from_var_total", "configuration-changed", "dimension / flag / number of variables of an operation changed")
        else:
            again = sq.set_qoperations_from_var_total(evt)
            st_again = np.concatenate([np.asarray(o.to_stacked_vector(), dtype=float) for lst in (again.states, again.gates, again.povms, again.mprocesses) for o in lst] + [np.zeros(0)])
            exp = np.concatenate([ref_reimplied(ty, d, m, bool(flag), np.asarray(o.to_stacked_vector(), dtype=float)) for ty, (grp, lst) in enumerate(zip(groups, objs)) for (d, m, flag), o in zip(grp, lst)] + [np.zeros(0)])
            if not close(st_again, exp):
                viol("set_qoperations_from_var_total", "roundtrip-obj", "set -> var_total -> set changes more than the implied components")
        for L in (total + 1, total - 1):
            if L < 0:
                continue
            try:
                sq.set_qoperations_from_var_total(np.array(rand_vals(rng, L))); impl = "ok"
            except ValueError:
                impl = "ValueError"
            stt, val = mdl.try_call("c03.set_from_var_total", desc, sds + rand_vals(rng, L))
            ctx.count(sub, key=key0 + ("badlen", L), nontrivial=False, label="set_from_var_total-badlen")
            if not (impl == "ValueError" and stt == "err"):
                viol("set_qoperations_from_var_total", "error-branch", "length %d instead of %d: impl %s model %s" % (L, total, impl, stt))

    phases = {"sizes": ph_sizes, "t2l": ph_t2l, "l2t": ph_l2t, "err": ph_err, "regen": ph_regen}
    for name in (order or ["sizes", "t2l", "l2t", "err", "regen"]):
        phases[name]()


def chk_setq(ctx, case):
    from quara.objects.qoperations import SetQOperations
    rng = random.Random(case["seed"])
    groups = case["ops"]             # four lists (state, gate, povm, mprocess) of [d, m, flag]
    objs = build_ops(rng, groups)
    sq = SetQOperations(states=list(objs[0]), gates=list(objs[1]), povms=list(objs[2]), mprocesses=list(objs[3]))
    verify_set(ctx, "setq", sq, groups, objs, rng, dict(case))


# ---- histories: query -> edit the set through its setters / in place -> query again, several rounds
SETTERS = ["states", "gates", "povms", "mprocesses"]


def apply_step(sq, groups, objs, step, rng):
    """apply one edit to the real set AND to the harness's own record (lists are never shared between the two)"""
    act = step["act"]
    if act == "none":
        return
    if act == "set":                              # public setter(s): whole list(s) replaced
        for ks, grp in sorted(step["new"].items()):
            k = int(ks)
            new = build_ops(rng, [grp if t == k else [] for t in range(4)])[k]
            setattr(sq, SETTERS[k], list(new))
            groups[k] = [list(x) for x in grp]; objs[k] = new
        return
    k = step["k"]
    live = getattr(sq, SETTERS[k])                # the list the property hands out
    if act in ("item", "append", "insert"):
        o = build_ops(rng, [[step["new"]] if t == k else [] for t in range(4)])[k][0]
    if act == "item":
        live[step["i"]] = o; objs[k][step["i"]] = o; groups[k][step["i"]] = list(step["new"])
    elif act == "append":
        live.append(o); objs[k].append(o); groups[k].append(list(step["new"]))
    elif act == "insert":
        live.insert(step["i"], o); objs[k].insert(step["i"], o); groups[k].insert(step["i"], list(step["new"]))
    elif act == "pop":
        live.pop(step["i"]); objs[k].pop(step["i"]); groups[k].pop(step["i"])
    else:
        raise AssertionError("unknown step %r" % (act,))


def chk_setq_history(ctx, case):
    from quara.objects.qoperations import SetQOperations
    rng = random.Random(case["seed"])
    groups = [[list(x) for x in grp] for grp in case["ops"]]
    objs = build_ops(rng, groups)
    sq = SetQOperations(states=list(objs[0]), gates=list(objs[1]), povms=list(objs[2]), mprocesses=list(objs[3]))
    rep = dict(case)
    hist = []
    for r, step in enumerate([{"act": "none"}] + case["steps"]):
        apply_step(sq, groups, objs, step, rng)
        hist.append(step["act"] + (str(step.get("k", "")) if step["act"] != "set" else "".join(sorted(step["new"]))))
        fresh = SetQOperations(states=list(objs[0]), gates=list(objs[1]), povms=list(objs[2]), mprocesses=list(objs[3]))
        ctx.count("setq_history", key=(case["seed"], r, "step"), nontrivial=False, label="step-" + step["act"] + ("-same-sizes" if step.get("same") else ""))
        verify_set(ctx, "setq_history", sq, groups, objs, rng, rep, tag=">".join(hist), order=step.get("order"), fresh=fresh)


def rand_desc(rng, ty, small=True):
    r = rng.random()
    d = 2 if r < 0.75 else 3
    if ty == 3 and d == 3 and rng.random() < 0.7:
        d = 2
    m = rng.randint(2, 4 if d == 2 else 3) if ty >= 2 else 0
    return [d, m, rng.randint(0, 1)]


def other_size_desc(rng, ty, desc):
    """a descriptor of the same type with a DIFFERENT number of variables"""
    for _ in range(50):
        nd = rand_desc(rng, ty)
        if nvars(ty, *nd) != nvars(ty, *desc):
            return nd
    return [desc[0], desc[1], 1 - desc[2]]          # the other parametrisation always differs


def gen_history_cases(ctx, count):
    rng = ctx.rng
    PH = ["sizes", "t2l", "l2t", "err", "regen"]
    # two fixed histories: same number of operations, different variable counts, later kinds present; then the same in place
    cases = [
        {"ops": [[[2, 0, 1]], [[2, 0, 1]], [[2, 2, 1]], [[2, 2, 1]]], "seed": 7,
         "steps": [{"act": "set", "new": {"2": [[2, 3, 1]]}, "order": ["t2l", "l2t", "sizes", "err", "regen"]},
                   {"act": "set", "new": {"0": [[2, 0, 0]]}, "order": ["l2t", "t2l", "regen", "sizes", "err"]}]},
        {"ops": [[[2, 0, 0], [3, 0, 1]], [[2, 0, 0]], [[2, 3, 0], [2, 2, 1]], [[2, 2, 0]]], "seed": 8,
         "steps": [{"act": "item", "k": 2, "i": 0, "new": [3, 2, 1], "order": ["t2l", "l2t", "sizes", "err", "regen"]},
                   {"act": "item", "k": 0, "i": 1, "new": [3, 0, 0], "order": ["l2t", "sizes", "t2l", "regen", "err"]},
                   {"act": "pop", "k": 1, "i": 0, "order": ["t2l", "err", "l2t", "sizes", "regen"]},
                   {"act": "append", "k": 1, "new": [2, 0, 1], "order": ["regen", "l2t", "t2l", "sizes", "err"]}]},
    ]
    for _ in range(count):
        groups = [[rand_desc(rng, ty) for _ in range(rng.randint(0, 2))] for ty in range(4)]
        if sum(len(g) for g in groups) < 2:
            groups[0].append(rand_desc(rng, 0)); groups[3].append(rand_desc(rng, 3))
        cur = [[list(x) for x in g] for g in groups]
        steps = []
        for _ in range(rng.randint(2, 4) if ctx.quick else rng.randint(3, 7)):
            r = rng.random()
            k = rng.randrange(4)
            order = rng.sample(PH, len(PH))
            if r < 0.08:
                st = {"act": "none"}
            elif r < 0.5 or not cur[k]:
                # setter; same count with changed sizes (the stale-cache class), same count same sizes, or another count; sometimes two kinds at once
                new = {}
                for kk in set([k] + ([rng.randrange(4)] if rng.random() < 0.25 else [])):
                    mode = rng.random()
                    if cur[kk] and mode < 0.5:
                        grp = [other_size_desc(rng, kk, x) if rng.random() < 0.7 else list(x) for x in cur[kk]]
                    elif cur[kk] and mode < 0.7:
                        grp = [list(x) for x in cur[kk]]
                    else:
                        grp = [rand_desc(rng, kk) for _ in range(rng.randint(0, 2))]
                    new[str(kk)] = grp
                    cur[kk] = [list(x) for x in grp]
                st = {"act": "set", "new": new}
            elif r < 0.75:
                i = rng.randrange(len(cur[k]))
                nd = other_size_desc(rng, k, cur[k][i]) if rng.random() < 0.75 else list(cur[k][i])
                st = {"act": "item", "k": k, "i": i, "new": nd}
                if nvars(k, *nd) == nvars(k, *cur[k][i]):
                    st["same"] = 1
                cur[k][i] = nd
            elif r < 0.85 and len(cur[k]) < 3:
                nd = rand_desc(rng, k); i = rng.randint(0, len(cur[k]))
                st = {"act": "insert", "k": k, "i": i, "new": nd}; cur[k].insert(i, nd)
            elif r < 0.92 and len(cur[k]) < 3:
                nd = rand_desc(rng, k)
                st = {"act": "append", "k": k, "new": nd}; cur[k].append(nd)
            else:
                i = rng.randrange(len(cur[k]))
                st = {"act": "pop", "k": k, "i": i}; cur[k].pop(i)
            st["order"] = order
            steps.append(st)
        cases.append({"ops": groups, "seed": rng.randrange(10 ** 9), "steps": steps})
    return cases


def sub_setq_history(ctx):
    cases = gen_history_cases(ctx, ctx.n(10, 150))
    ctx.sample("setq_history", cases[0]); ctx.sample("setq_history", cases[2])
    ctx.run_cases("setq_history", chk_setq_history, cases)
    ctx.note("setq_history: %d histories (query everything -> edit through a setter or in the list the property returns -> query everything again in a shuffled order, "
             "2-7 rounds); expectations come from the harness's own record of the current contents, the Coq model on the current sizes and a newly constructed set" % len(cases))


def gen_setq_cases(ctx, count):
    rng = ctx.rng
    cases = [{"ops": [[], [], [], []], "seed": 1}]
    for k in range(count):
        groups = []
        big = (not ctx.quick) and rng.random() < 0.2          # thorough: some sets with up to 6 operations of a kind
        for ty in range(4):
            grp = []
            for _ in range(rng.randint(0, 6 if big else 3)):
                r = rng.random()
                d = 2 if r < 0.55 else 3 if r < 0.9 else 4
                if ty == 3 and d == 4 and (ctx.quick or big):
                    d = 3
                m = rng.randint(2, 5 if d == 2 else 3) if ty >= 2 else 0
                grp.append([d, m, rng.randint(0, 1)])
            groups.append(grp)
        cases.append({"ops": groups, "seed": rng.randrange(10 ** 9)})
    return cases


def sub_setq(ctx):
    cases = gen_setq_cases(ctx, ctx.n(40, 500))
    ctx.sample("setq", cases[1])
    ctx.run_cases("setq", chk_setq, cases)


# ------------------------------------------------------------------ tomography classes
TESTERS = {
    2: ("qubit", 1, ["x0", "y0", "z0", "z1"], ["x", "y", "z"]),
    3: ("qutrit", 1, ["01z0", "12z0", "02z1", "01x0", "01y0", "12x0", "12y0", "02x0", "02y0"], ["01x3", "01y3", "z3", "12x3", "12y3", "02x3", "02y3"]),
    4: ("qubit", 2, ["z0_z0", "z0_z1", "x0_y0", "y0_x0", "z1_x0", "x0_x0"], ["x_x", "x_y", "y_z", "z_z", "z_x"]),
}
_TST = {}


def testers(d):
    if d not in _TST:
        from quara.objects.composite_system_typical import generate_composite_system
        from quara.objects.qoperation_typical import generate_state_object, generate_povm_object
        mode, num, sn, pn = TESTERS[d]
        c = generate_composite_system(mode, num)
        with warnings.catch_warnings():
            warnings.simplefilter("ignore")
            _TST[d] = ([generate_state_object(s, "state", c) for s in sn], [generate_povm_object(p, "povm", c) for p in pn])
    return _TST[d]


def chk_tomography(ctx, case):
    from quara.protocol.qtomography.standard.standard_qst import StandardQst
    from quara.protocol.qtomography.standard.standard_povmt import StandardPovmt
    from quara.protocol.qtomography.standard.standard_qpt import StandardQpt
    from quara.protocol.qtomography.standard.standard_qmpt import StandardQmpt
    mdl = ctx.get_model()
    ty, d, m, flag = case["ty"], case["d"], case["m"], bool(case["flag"])
    states, povms = testers(d)
    with warnings.catch_warnings():
        warnings.simplefilter("ignore")
        if ty == 0:
            t = StandardQst(povms, on_para_eq_constraint=flag); cname = "StandardQst"
        elif ty == 1:
            t = StandardQpt(states, povms, on_para_eq_constraint=flag); cname = "StandardQpt"
        elif ty == 2:
            t = StandardPovmt(states, num_outcomes=m, on_para_eq_constraint=flag); cname = "StandardPovmt"
        else:
            t = StandardQmpt(states, povms, num_outcomes=m, on_para_eq_constraint=flag); cname = "StandardQmpt"
    nv = int(t.num_variables)
    nv_m = int(mdl.call("c03.numvar", [ty, d, m, int(flag)])[0])
    tmpl = t.generate_empty_estimation_obj_with_setting_info()
    lv = len(tmpl.to_var())
    ctx.count("tomography", key=(ty, d, m, flag), nontrivial=True, label=cname)
    if nv != nv_m:
        ctx.violation("tomography", cname + ".num_variables", "model-mismatch", "d=%d m=%d flag=%s: num_variables %d, model %d" % (d, m, flag, nv, nv_m), case)
    if nv != lv:
        ctx.violation("tomography", cname + ".num_variables", "neq-len-to_var", "d=%d m=%d flag=%s: num_variables %d but the estimation object's variable vector has length %d" % (d, m, flag, nv, lv), case)
    # the variable vector really parametrises the estimation object: var -> object -> var
    rng = random.Random(case["seed"])
    w = np.array(rand_vals(rng, nv))
    try:
        ob = t.convert_var_to_qoperation(w.copy())
        ok = np.array_equal(np.asarray(ob.to_var(), dtype=float), w) and int(t._set_qoperations.size_var_total()) == nv
    except Exception as e:      # a vector of num_variables entries must be accepted
        ok = False
    if not ok:
        ctx.violation("tomography", cname + ".convert_var_to_qoperation", "roundtrip-var", "d=%d m=%d flag=%s: a vector of num_variables entries is not reproduced by convert_var_to_qoperation(...).to_var()" % (d, m, flag), case)


def sub_tomography(ctx):
    cases = []
    for d in (2, 3, 4):
        for flag in (1, 0):
            cases.append({"ty": 0, "d": d, "m": 0, "flag": flag, "seed": 11 * d + flag})
            if d < 4 or not ctx.quick:
                cases.append({"ty": 1, "d": d, "m": 0, "flag": flag, "seed": 13 * d + flag})
            for m in (2, 3, 4, 5):
                cases.append({"ty": 2, "d": d, "m": m, "flag": flag, "seed": 17 * d + m + flag})
                if d < 4 and (m <= 3 or not ctx.quick):
                    cases.append({"ty": 3, "d": d, "m": m, "flag": flag, "seed": 19 * d + m + flag})
    ctx.sample("tomography", cases[3])
    ctx.run_cases("tomography", chk_tomography, cases)


SUBS = [("index_maps", sub_index_maps), ("index_wide", sub_index_wide), ("objects", sub_objects), ("setq", sub_setq), ("setq_history", sub_setq_history), ("tomography", sub_tomography)]
FNS = {"index_maps": chk_index, "index_wide": chk_index_wide, "objects": chk_object, "setq": chk_setq, "setq_history": chk_setq_history, "tomography": chk_tomography}


def run(ctx):
    ctx.rule = ("theorems: Props/C03.v plus the equivalence / transported theorems of coq/gen/C03_Equiv.v re-proved against the eight index functions REGENERATED "
                "from the current source (translator tie; when it does not re-prove, the index sweeps are widened to find a failing input). "
                "index_maps: exhaustive over every variable index and every object entry for d in {2,3,4,6} (thorough: also 8, 9 and m in 1, 6..9), m in 2..5, both flags, "
                "all four types, on objects whose entries are labelled by their position; index_wide: the index functions alone, d up to 12 (16), m in 1..12, boundary + random indices; "
                "objects: seeded random NON-physical objects (small dyadic rationals, asymmetric, ~40% built to satisfy the equality constraint, MProcess also with multi-index "
                "outcome shapes) through to_var, generate_from_var (own flag and the override flag), the module-level convert_* functions, the static stacked<->var conversions, "
                "calc_gradient (in and out of range) and malformed variable lengths; SetQOperations: random mixes of 0-3 (thorough: up to 6) "
                "operations per kind with mixed dimensions / flags / outcome counts, every total index and every (kind, operation, local index); "
                "setq_history: 12 (152) histories of 2-7 rounds on one object: all queries, then an edit (setter for one or two kinds, item assignment, insert, append, pop "
                "on the list the property returns; same count with changed variable counts, same sizes, other counts), then all queries again in a shuffled order, expectations from the "
                "harness's own record of the current contents, the model on the current sizes and a newly constructed set; "
                "tomography: all four standard classes on typical testers. Every property predicate is evaluated on the implementation's outputs with independent numpy code "
                "AND the outputs are compared with the extracted Coq model. non-trivial = more than half of the entries non-zero (objects), at least two "
                "operations (sets); distinct = distinct (type, d, m, flag, seed/index)")
    flow.standard_run(ctx, SUBS, regens=[("var_index", "C03_Equiv")])


def replay(ctx, doc):
    flow.standard_replay(ctx, doc, FNS)
