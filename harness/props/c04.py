"""C04 — equality / inequality projections are nearest-point projections.

Sub-checks
  eq      equality projections (all four types, object- and variable-level, both flags) against the extracted Coq model
          (Model/C04_Proj.v), plus the property predicates on the implementation's outputs (constraint residual,
          Pythagoras against feasible competitors, idempotence, fixed points, object-level == variable-level) and operand
          byte snapshots.
  ineq    inequality projections through the VERIFIED certificate (Model/C04_Cert.v cert_check, theorem
          C04_cert_check_sound): input / output converted to operators with the implementation's own conversions,
          exact decision on the rationals the floats denote; plus float tripwires (variational inequality against random
          feasible competitors, an independent eigen-decomposition reference, isometry operator space <-> stacked space,
          idempotence, fixed points, object-level == variable-level, snapshots).
  closures  all six closure factories func_calc_proj_{eq,ineq}_constraint(_with_var), func_calc_proj_physical(_with_var):
          object flag {True, False} x requested flag {None, True, False} (and mode_proj_order / max_iteration /
          eps_truncate_imaginary_part different from the object's own); closure(var) == static variable-level function at the
          REQUESTED flag == to_var(object-level projection) at that flag; those are tied to the model / the certificate.
  errors  error branches (Povm equality projection on a non-Hermitian basis).
  large   raw Gaussian parameter vectors of scale 1e3 under default settings, object- and variable-level (the property
          quantifies over scales up to 1e3; before repair truncate-hs-relative-imag-threshold these raised ValueError).
  eigclip the implementation's output operators against the Coq model of its own algorithm after eigh (Model/C04_EigClip.v:
          clip, rebuild with the conjugate transpose; theorem C04_eig_clip_nearest), executed exactly on LAPACK's (w, U);
          eigh's contract (the theorem's hypothesis) is checked numerically.
  certself  tripwire for the certificate code itself: wrong projections must be rejected, exact ones accepted.

Translator tie (regen_closures): gen/c04_py2coq.py regenerates, from the CURRENT source, the flag handling / argument forwarding /
  callee names of the six QOperation.func_calc_proj_* factories, the assembly rule of MProcess.calc_proj_ineq_constraint_with_var, the integer
  layout of mprocess.convert_var_to_hss / convert_hss_to_var, the default flag of the eight static calc_proj_*_constraint_with_var and the
  index / slice assignments (on a copy) of State / Gate.calc_proj_eq_constraint(_with_var) and the loop skeleton + array arithmetic of
  Povm / MProcess.calc_proj_eq_constraint(_with_var) (MProcess on a deep copy);
  coq/gen/C04_Equiv.v (18 theorems) is re-checked against that text on every run; if the tie breaks the `closures` sweep is widened.

Tolerances (documented constants)
  TOL_EQ    1e-9 * max(1, scale)        model vs implementation, equality projections (rounding is ~1e-16*scale)
  CERT_REL  1e-10, CERT_ATOL 100        certificate slack: eps = CERT_REL*s + CERT_ATOL*atol, delta = eps*s with
                                        s = max(|Y|_F, |X|_F) and atol = quara Settings.get_atol() in force (the code
                                        zeroes coefficients below atol).  Measured on the unchanged tree the three
                                        certificate margins are <= 2e-15*s (1q .. qubit x qutrit, scales 1e-3 .. 1e3),
                                        i.e. the constants leave a factor >= 5e4.
  Every scale runs under quara's DEFAULT settings (atol = 1e-13).  If an inequality projection raises the truncate_hs
  ValueError (the behaviour before repair fixes/truncate-hs-relative-imag-threshold.diff: an ABSOLUTE threshold on the
  imaginary rounding noise, which grows with the size of the entries) that is reported as
  matrix_util.truncate_hs<-calc_proj_ineq_constraint / raises-at-large-scale, and the nearest-point checks of that case are
  still run under Settings.set_atol(1e-14*scale) so that a second defect cannot hide behind the first.
"""
import numpy as np
from common import flow

LEVEL = "proof"
TOL_EQ = 1e-9
CERT_REL = 1e-10
CERT_ATOL = 100.0
DEFAULT_ATOL = 1e-13

_SYS = {}


def get_sys(key):
    """key 'xx' : the composite system used everywhere; key 'xx#2' : an EQUAL but not identical instance (fresh ElementalSystems, same names and bases)"""
    if key in _SYS:
        return _SYS[key]
    if key.endswith("#2"):
        get_sys(key[:-2])
    from quara.objects.composite_system import CompositeSystem
    from quara.objects.elemental_system import ElementalSystem
    from quara.objects import matrix_basis as mb
    P, G = mb.get_normalized_pauli_basis, mb.get_normalized_gell_mann_basis
    spec = {"1q": [P], "1t": [G], "2q": [P, P], "qt": [P, G], "tq": [G, P], "comp1q": [mb.get_comp_basis]}[key[:-2] if key.endswith("#2") else key]
    c = CompositeSystem([ElementalSystem(i, f()) for i, f in enumerate(spec)])
    _SYS[key] = c
    return c


class quara_atol:
    """quara's global absolute tolerance for the duration of a block (restored to the default afterwards)"""

    def __init__(self, atol=DEFAULT_ATOL):
        self.atol = float(atol)

    def __enter__(self):
        from quara.settings import Settings
        self.S = Settings
        Settings.set_atol(self.atol)
        return self.atol

    def __exit__(self, *a):
        self.S.set_atol(DEFAULT_ATOL)


SITE_TRUNC = "matrix_util.truncate_hs<-calc_proj_ineq_constraint"


def is_truncate_error(e):
    return isinstance(e, ValueError) and "imaginary parts of entries of matrix" in str(e)


# ---------------------------------------------------------------------------------- objects
def cls_of(T):
    from quara.objects.state import State
    from quara.objects.povm import Povm
    from quara.objects.gate import Gate
    from quara.objects.mprocess import MProcess
    return {"state": State, "povm": Povm, "gate": Gate, "mprocess": MProcess}[T]


def blocklen(T, d):
    n = d * d
    return n if T in ("state", "povm") else n * n


OBJ_LAYOUTS = ["fortran", "transposed-view", "strided", "read-only"]


def lay(a, layout):
    """the same values in another memory layout (what a caller may legitimately hand to a constructor)"""
    a = np.array(a, dtype=np.float64)
    if layout is None:
        return a.copy()
    if layout == "read-only":
        r = a.copy(); r.flags.writeable = False
        return r
    if a.ndim == 1:                                     # vectors: every non-trivial layout is a strided view
        big = np.full(3 * a.size + 2, -3.5); big[1::3][:a.size] = a
        return big[1::3][:a.size]
    if layout == "fortran":
        return np.asfortranarray(a)                      # owns its data, column-major
    if layout == "transposed-view":
        return np.ascontiguousarray(a.T).T               # a VIEW (base is not None), column-major strides
    big = np.full((2 * a.shape[0] + 1, 2 * a.shape[1] + 1), -3.5); big[1::2, 1::2] = a
    return big[1::2, 1::2]                               # strided in both axes


def build(T, c, x, m, flag, layout=None, **extra):
    """object of type T from the stacked parameter vector x (fresh arrays owned by the caller are NOT shared);
    layout: memory layout of the arrays handed to the constructor (None = fresh C-contiguous copies)"""
    d = c.dim; n = d * d
    x = np.array(x, dtype=np.float64)
    kw = dict(is_physicality_required=False, on_para_eq_constraint=bool(flag))
    kw.update(extra)
    C = cls_of(T)
    if T == "state":
        return C(c, lay(x, layout), **kw)
    if T == "povm":
        return C(c, [lay(x[i * n:(i + 1) * n], layout) for i in range(m)], **kw)
    if T == "gate":
        return C(c, lay(x.reshape(n, n), layout), **kw)
    return C(c, [lay(x[i * n * n:(i + 1) * n * n].reshape(n, n), layout) for i in range(m)], **kw)


def check_object_layouts(ctx, sub, site, T, c, x, m, flag, method, px, tol, case):
    """the object-level projection of an object whose arrays were handed to the constructor in another memory layout (Fortran-ordered,
    transposed view, strided view, read-only) must be the same point, must not raise and must leave the object's arrays untouched"""
    for nm in OBJ_LAYOUTS:
        try:
            o = build(T, c, x, m, flag, layout=nm)
            if maxabs(stacked(o), x) > 0:
                ctx.violation(sub, cls_of(T).__name__ + ".__init__", "depends-on-memory-layout", "an object built from %s arrays does not hold the given values" % nm, dict(case, layout=nm))
                continue
            s0 = snap(arrays_of(T, o))
            q = stacked(getattr(o, method)())
        except Exception as e:
            if is_truncate_error(e):
                raise
            ctx.violation(sub, site, "raises-on-layout:" + type(e).__name__, "%s raises %s (%s) for an object built from %s arrays" % (method, type(e).__name__, str(e)[:80], nm), dict(case, layout=nm))
            continue
        ctx.count(sub, key=None, nontrivial=False, label="object-layout/" + nm)
        if not same(arrays_of(T, o), s0):
            ctx.violation(sub, site, "mutates-argument", "%s modified the arrays of an object built from %s arrays" % (method, nm), dict(case, layout=nm))
        if q.shape != px.shape or maxabs(q, px) > tol:
            ctx.violation(sub, site, "depends-on-memory-layout",
                          "%s of an object built from %s arrays differs by %.3e from the projection of the same values held C-contiguously" % (method, nm, maxabs(q, px)), dict(case, layout=nm))


def stacked(obj):
    return np.array(obj.to_stacked_vector(), dtype=np.float64).copy()


def arrays_of(T, obj):
    if T == "state":
        return [obj.vec]
    if T == "povm":
        return list(obj.vecs)
    if T == "gate":
        return [obj.hs]
    return list(obj.hss)


def snap(arrs):
    return [np.copy(a) for a in arrs]


def same(arrs, snaps):
    return len(arrs) == len(snaps) and all(a.shape == b.shape and np.array_equal(a, b) for a, b in zip(arrs, snaps))


def operators(T, c, x, m):
    """the operators the inequality constraint talks about, through the IMPLEMENTATION's conversions (C02's subject)"""
    from quara.objects.state import to_density_matrix_from_vec
    from quara.objects.povm import to_matrices_from_vecs
    from quara.objects.gate import to_choi_from_hs_with_sparsity
    d = c.dim; n = d * d
    x = np.asarray(x, dtype=np.float64)
    if T == "state":
        return [np.array(to_density_matrix_from_vec(c, x), dtype=complex)]
    if T == "povm":
        return [np.array(M, dtype=complex) for M in to_matrices_from_vecs(c, [x[i * n:(i + 1) * n] for i in range(m)])]
    if T == "gate":
        return [np.array(to_choi_from_hs_with_sparsity(c, x.reshape(n, n)), dtype=complex)]
    return [np.array(to_choi_from_hs_with_sparsity(c, x[i * n * n:(i + 1) * n * n].reshape(n, n)), dtype=complex) for i in range(m)]


# ---------------------------------------------------------------------------------- memory layouts of the argument
def layouts(var0):
    """the same real parameter vector in other memory layouts: a strided (non-contiguous) view and a read-only array"""
    big = np.full(2 * var0.size + 1, 7.25)
    big[1::2][:var0.size] = var0
    strided = big[1::2][:var0.size]
    ro = var0.copy(); ro.flags.writeable = False
    return [("strided-view", strided, lambda: np.array_equal(big[1::2][:var0.size], var0) and bool((big[0::2] == 7.25).all())),
            ("read-only", ro, lambda: np.array_equal(ro, var0))]


def check_layouts(ctx, sub, site, fn, var0, out, what, case):
    """fn(var) must return bitwise the same point for every layout of the same values, without raising and without touching the array"""
    for nm, v, intact in layouts(var0):
        try:
            o = np.array(fn(v), dtype=np.float64)
        except Exception as e:
            if is_truncate_error(e):
                raise
            ctx.violation(sub, site, "raises-on-layout:" + type(e).__name__, "%s raises %s (%s) for a %s of the same values" % (what, type(e).__name__, str(e)[:80], nm), dict(case, layout=nm))
            continue
        ctx.count(sub, key=None, nontrivial=False, label="layout/" + nm)
        if not intact():
            ctx.violation(sub, site, "mutates-argument", "%s modified its argument (or its neighbourhood) given as a %s" % (what, nm), dict(case, layout=nm))
        if o.shape != np.shape(out) or not np.array_equal(o, out):
            ctx.violation(sub, site, "depends-on-memory-layout", "%s returns a different point (max change %.3e) for a %s of the same values" % (what, maxabs(o, out), nm), dict(case, layout=nm))


def check_result_history(ctx, sub, site, fn, var0, out, allow_alias, what, case):
    """the caller modifies the RETURNED array in place and calls again: the second call must return the same point and the argument
    must still be untouched; the returned array must not share memory with the argument (unless allow_alias: State / Gate with the
    constrained parametrisation return the argument itself - aliasing without mutation is C13's subject)"""
    v = var0.copy()
    o1 = fn(v)
    if not isinstance(o1, np.ndarray):
        return
    if np.shares_memory(o1, v):
        if not allow_alias:
            ctx.violation(sub, site, "result-aliases-argument", "the array returned by %s shares memory with its argument: a caller that updates the result in place changes the argument" % what, case)
        return
    if o1.flags.writeable:
        o1 += 1.0 + np.abs(o1)
    o2 = np.array(fn(v), dtype=np.float64)
    ctx.count(sub, key=None, nontrivial=False, label="result-history")
    if not np.array_equal(v, var0):
        ctx.violation(sub, site, "mutates-argument", "%s: the argument changed after the caller modified the returned array and called again" % what, case)
    if o2.shape != np.shape(out) or not np.array_equal(o2, out):
        ctx.violation(sub, site, "depends-on-call-history", "%s returns a different point (max change %.3e) after the caller modified the previously returned array in place" % (what, maxabs(o2, out)), case)


# ---------------------------------------------------------------------------------- harness-side references (tripwires only)
def ref_proj_eq(T, d, m, x):
    n = d * d
    x = np.array(x, dtype=np.float64)
    e0 = np.zeros(n); e0[0] = 1.0
    if T == "state":
        x[0] = 1 / np.sqrt(d); return x
    if T == "povm":
        V = x.reshape(m, n); return (V - (V.sum(axis=0) - np.sqrt(d) * e0) / m).ravel()
    if T == "gate":
        H = x.reshape(n, n); H[0] = e0; return H.ravel()
    H = x.reshape(m, n, n); H[:, 0, :] -= (H[:, 0, :].sum(axis=0) - e0) / m
    return H.ravel()


def eq_residual(T, d, m, x):
    n = d * d
    x = np.asarray(x, dtype=np.float64)
    e0 = np.zeros(n); e0[0] = 1.0
    if T == "state":
        return abs(x[0] - 1 / np.sqrt(d))
    if T == "povm":
        return float(np.abs(x.reshape(m, n).sum(axis=0) - np.sqrt(d) * e0).max())
    if T == "gate":
        return float(np.abs(x.reshape(n, n)[0] - e0).max())
    return float(np.abs(x.reshape(m, n, n)[:, 0, :].sum(axis=0) - e0).max())


def ref_psd_proj(H):
    H = (H + H.conj().T) / 2
    w, U = np.linalg.eigh(H)
    return (U * np.clip(w, 0, None)) @ U.conj().T


def basis_arrays(c):
    return [np.array(b.toarray() if hasattr(b, "toarray") else b, dtype=complex) for b in c.basis()]


def vec_of_op(c, H):
    """coefficients of an operator (harness-side, used only to GENERATE inputs): v_a = Re tr(B_a^dagger H)"""
    return np.array([np.vdot(B, H).real for B in basis_arrays(c)], dtype=np.float64)


# ---------------------------------------------------------------------------------- generators
SCALES = [1e-3, 1e-2, 0.1, 1.0, 1.0, 1.0, 10.0, 100.0, 1e3]


def rnd_vec(rng, k, scale, sparse=False):
    """generic, asymmetric: multiples of scale/16 (short mantissas for scale = power of two; general otherwise)"""
    out = []
    for _ in range(k):
        if sparse and rng.random() < 0.6:
            out.append(0.0)
        else:
            out.append(float(rng.randint(-48, 48)) / 16.0 * scale)
    return out


def gen_eq_cases(ctx, count):
    rng = ctx.rng
    cases = []
    syss = ["1q", "1q", "1t", "2q", "qt"] if ctx.quick else ["1q", "1t", "2q", "qt", "tq"]
    for i in range(count):
        T = ["state", "povm", "gate", "mprocess"][i % 4]
        sk = rng.choice(syss)
        if T in ("gate", "mprocess") and sk in ("qt", "tq") and (rng.random() < 0.7 or ctx.quick):      # quick: qubit x qutrit only for states / POVMs
            sk = rng.choice(["1t", "2q"])
        d = {"1q": 2, "1t": 3, "2q": 4, "qt": 6, "tq": 6}[sk]
        m = rng.randint(2, 5) if T in ("povm", "mprocess") else 1
        if T == "mprocess" and d == 6:
            m = 2
        scale = rng.choice(SCALES)
        kind = rng.choice(["generic", "generic", "generic", "feasible", "sparse", "zero", "physical"])
        L = m * blocklen(T, d)
        if kind == "zero":
            x = [0.0] * L
        elif kind == "physical":
            scale = 1.0
            x = physical_point(T, d, m)
        else:
            x = rnd_vec(rng, L, scale, sparse=(kind == "sparse"))
            if kind == "feasible":
                x = [float(v) for v in ref_proj_eq(T, d, m, x)]
        cases.append({"type": T, "sys": sk, "m": m, "scale": scale, "kind": kind, "flag": bool(rng.getrandbits(1)),
                      "seed": rng.getrandbits(32), "data": x})
    return cases


def physical_point(T, d, m):
    n = d * d
    if T == "state":
        x = np.zeros(n); x[0] = 1 / np.sqrt(d); return x.tolist()
    if T == "povm":
        V = np.zeros((m, n)); V[:, 0] = np.sqrt(d) / m; return V.ravel().tolist()
    if T == "gate":
        return np.eye(n).ravel().tolist()
    return np.concatenate([np.eye(n).ravel() / m for _ in range(m)]).tolist()


SPECTRA = {
    2: [[-1, 2], [1, 1], [-1, -1], [0, 1], [0, 0], [-2, 0]],
    3: [[-1, -1, 2], [1, 1, -3], [0, 0, 1], [2, 2, 2], [-1, 0, 1], [-2, -2, -2]],
    4: [[-1, -1, 2, 2], [0, 0, 0, 1], [1, 1, 1, -3], [-2, -1, 1, 2], [3, 3, 3, 3], [-1, -1, -1, -1]],
}


def spectrum_for(rng, k):
    base = SPECTRA.get(k)
    if base and rng.random() < 0.6:
        return list(rng.choice(base))
    # degenerate blocks of a random pattern
    vals = [rng.choice([-2, -1, -0.5, 0, 0, 0.5, 1, 3]) for _ in range(max(1, k // 2))]
    return [vals[rng.randrange(len(vals))] for _ in range(k)]


def rand_unitary(nrng, k):
    A = nrng.normal(size=(k, k)) + 1j * nrng.normal(size=(k, k))
    Q, R = np.linalg.qr(A)
    return Q * (np.diag(R) / np.abs(np.diag(R)))


def rand_herm(rng, nrng, k, scale, kind):
    """complex Hermitian k x k operator of the requested spectral kind"""
    if kind == "generic":
        A = np.array([[complex(rng.randint(-16, 16), rng.randint(-16, 16)) / 8.0 for _ in range(k)] for _ in range(k)])
        return (A + A.conj().T) / 2 * scale
    if kind == "zero":
        return np.zeros((k, k), dtype=complex)
    U = rand_unitary(nrng, k)
    if kind == "degenerate":
        w = np.array(spectrum_for(rng, k), dtype=float)
    elif kind == "psd":
        w = np.array([rng.choice([0.25, 0.5, 1, 1, 2]) for _ in range(k)], dtype=float)
    elif kind == "boundary":          # rank-deficient PSD: on the boundary of the cone
        r = rng.randint(1, max(1, k - 1))
        w = np.array([rng.choice([0.5, 1, 2]) if i < r else 0.0 for i in range(k)], dtype=float)
    elif kind == "negdef":
        w = -np.array([rng.choice([0.5, 1, 1, 2]) for _ in range(k)], dtype=float)
    elif kind == "tiny-neg":         # barely infeasible
        w = np.array([1.0] * (k - 1) + [-1e-7], dtype=float)
    elif kind == "tiny-pos":         # barely feasible: a clipping threshold other than 0 shows here
        w = np.array([1.0] * (k - 1) + [1e-7], dtype=float)
        if k > 2:
            w[0] = -0.5
    else:
        raise ValueError(kind)
    H = (U * w) @ U.conj().T
    return (H + H.conj().T) / 2 * scale


INEQ_KINDS = ["generic", "generic", "generic", "degenerate", "degenerate", "psd", "boundary", "negdef", "zero", "tiny-neg", "tiny-pos", "params"]


def gen_ineq_cases(ctx, count, plan):
    """plan: list of (type, sys, weight).  Inputs are generated on the operator side (spectral kinds) and turned into
    parameter vectors (states/POVMs: harness-side coefficients; gates/instruments: implementation's Choi->HS, with a
    generous truncation threshold), or directly as parameter vectors (kind 'params')."""
    from quara.objects.gate import to_hs_from_choi_with_sparsity
    rng = ctx.rng
    cases = []
    tot = sum(w for _, _, w in plan)
    for i in range(count):
        r = rng.random() * tot
        for T, sk, w in plan:
            r -= w
            if r <= 0:
                break
        c = get_sys(sk); d = c.dim; n = d * d
        m = rng.randint(2, 5) if T in ("povm", "mprocess") else 1
        if T == "mprocess" and d >= 4:
            m = 2 if d == 6 else rng.randint(2, 3)
        scale = rng.choice(SCALES)
        seed = rng.getrandbits(32)
        nrng = np.random.default_rng(seed)
        kinds = [rng.choice(INEQ_KINDS) for _ in range(m)]
        if "params" in kinds:
            kinds = ["params"] * m
            x = rnd_vec(rng, m * blocklen(T, d), scale)
        else:
            xs = []
            for k in kinds:
                if T in ("state", "povm"):
                    xs.append(vec_of_op(c, rand_herm(rng, nrng, d, scale, k)))
                else:
                    ch = rand_herm(rng, nrng, n, scale, k)
                    xs.append(np.array(to_hs_from_choi_with_sparsity(c, ch, eps_truncate_imaginary_part=1e-9 * max(1.0, scale) * n), dtype=np.float64).ravel())
            x = [float(v) for v in np.concatenate(xs)]
        cases.append({"type": T, "sys": sk, "m": m, "scale": scale, "kinds": kinds, "flag": bool(rng.getrandbits(1)),
                      "seed": seed, "data": x})
    return cases


# ---------------------------------------------------------------------------------- equality projections
def model_eq_obj(ctx, T, d, m, x, herm=1):
    mo = ctx.get_model(); n = d * d; sd = float(np.sqrt(d))
    x = [float(v) for v in x]
    if T == "state":
        return mo.try_call("c04.state_proj_eq", [n], [sd] + x)
    if T == "povm":
        return mo.try_call("c04.povm_proj_eq", [herm, m, n], [sd] + x)
    if T == "gate":
        return mo.try_call("c04.gate_proj_eq", [n], x)
    return mo.try_call("c04.mp_proj_eq", [m, n], x)


def model_eq_var(ctx, T, d, flag, var, via_obj=False):
    mo = ctx.get_model(); n = d * d; sd = float(np.sqrt(d)); f = 1 if flag else 0
    var = [float(v) for v in var]
    if T == "state":
        return mo.try_call("c04.state_via_obj" if via_obj else "c04.state_proj_eq_var", [f, n], [sd] + var)
    if T == "povm":
        return mo.try_call("c04.povm_proj_eq_var", [f, n, len(var)], [sd] + var)
    if T == "gate":
        return mo.try_call("c04.gate_via_obj" if via_obj else "c04.gate_proj_eq_var", [f, n], var)
    return mo.try_call("c04.mp_proj_eq_var", [f, n, len(var)], var)


def maxabs(a, b):
    a = np.asarray(a, dtype=float).ravel(); b = np.asarray(b, dtype=float).ravel()
    if a.shape != b.shape:
        return float("inf")
    return float(np.abs(a - b).max()) if a.size else 0.0


def chk_eq(ctx, case):
    T = case["type"]; c = get_sys(case["sys"]); d = c.dim; m = case["m"]; scale = case["scale"]; flag = case["flag"]
    C = cls_of(T); name = C.__name__
    x = np.array(case["data"], dtype=np.float64)
    tol = TOL_EQ * max(1.0, scale)
    nrng = np.random.default_rng(case["seed"])
    bucket = "%s/%s/m%d/%s/%s" % (T, case["sys"], m, case["kind"], "T" if flag else "F")
    nontriv = case["kind"] not in ("zero",) and float(np.abs(x).max()) > 0
    ctx.count("eq", key=(T, case["sys"], m, flag, case["seed"]), nontrivial=nontriv, label="%s/%s" % (T, case["kind"]))
    ctx.count("eq", key=None, nontrivial=False, label="scale=%g" % scale)

    # ---- object level
    obj = build(T, c, x, m, flag)
    arrs = arrays_of(T, obj); s0 = snap(arrs)
    p = obj.calc_proj_eq_constraint()
    if not same(arrays_of(T, obj), s0):
        ctx.violation("eq", name + ".calc_proj_eq_constraint", "mutates-argument", "object-level equality projection modified the object's own arrays (%s)" % bucket, case)
    px = stacked(p)
    check_object_layouts(ctx, "eq", name + ".calc_proj_eq_constraint", T, c, x, m, flag, "calc_proj_eq_constraint", px, 1e-12 * max(1.0, scale), case)
    st, mod = model_eq_obj(ctx, T, d, m, x)
    if st != "ok":
        ctx.violation("eq", name + ".calc_proj_eq_constraint", "model-mismatch", "model errs (%s) where the implementation returns (%s)" % (mod, bucket), case)
        return
    mod = np.array([float(v) for v in mod])
    if maxabs(px, mod) > tol:
        # correspondence failed: decide with the property predicates below whether the PROPERTY fails
        res = eq_residual(T, d, m, px)
        z = ref_proj_eq(T, d, m, x)
        closer = float(np.sum((x - z) ** 2)) + tol * tol < float(np.sum((x - px) ** 2))
        sig = "not-feasible" if res > tol else ("not-nearest" if closer else "model-mismatch")
        ctx.violation("eq", name + ".calc_proj_eq_constraint", sig,
                      "equality projection differs from the model by %.3e (%s); constraint residual %.3e; a feasible point is closer: %s" % (maxabs(px, mod), bucket, res, closer), case)
        return
    # ---- property predicates on the implementation's output
    res = eq_residual(T, d, m, px)
    if res > 1e-12 * max(1.0, scale):
        ctx.violation("eq", name + ".calc_proj_eq_constraint", "not-feasible", "constraint residual %.3e after projection (%s)" % (res, bucket), case)
    if not p.is_eq_constraint_satisfied(atol=float(1e-9 * max(1.0, scale))):
        ctx.violation("eq", name + ".calc_proj_eq_constraint", "not-feasible", "implementation's own is_eq_constraint_satisfied is False after projection (%s)" % bucket, case)
    dxp = float(np.sum((x - px) ** 2))
    for _ in range(5):
        z = ref_proj_eq(T, d, m, nrng.normal(size=x.size) * scale * nrng.choice([0.1, 1.0, 3.0]) + (px if nrng.random() < 0.5 else 0.0))
        dxz = float(np.sum((x - z) ** 2)); dpz = float(np.sum((px - z) ** 2))
        S2 = max(dxz, dxp, dpz, scale * scale)
        if abs(dxz - dxp - dpz) > 1e-9 * S2 or dxp > dxz + 1e-9 * S2:
            ctx.violation("eq", name + ".calc_proj_eq_constraint", "not-nearest",
                          "Pythagoras fails against a feasible competitor: |x-z|^2=%.6e |x-Px|^2=%.6e |Px-z|^2=%.6e (%s)" % (dxz, dxp, dpz, bucket), case)
            break
    p2 = stacked(p.calc_proj_eq_constraint())
    if maxabs(p2, px) > 1e-12 * max(1.0, scale):
        ctx.violation("eq", name + ".calc_proj_eq_constraint", "not-idempotent", "P(P(x)) differs from P(x) by %.3e (%s)" % (maxabs(p2, px), bucket), case)
    if case["kind"] in ("feasible", "physical") and maxabs(px, x) > 1e-12 * max(1.0, scale):
        ctx.violation("eq", name + ".calc_proj_eq_constraint", "moves-feasible-point", "feasible input moved by %.3e (%s)" % (maxabs(px, x), bucket), case)

    # ---- variable level, both flags
    for f in (True, False):
        of = build(T, c, x, m, f)
        var0 = np.array(of.to_var(), dtype=np.float64).copy()
        var = var0.copy()
        out = C.calc_proj_eq_constraint_with_var(c, var, on_para_eq_constraint=f)
        out = np.array(out, dtype=np.float64).copy()
        ctx.count("eq", key=(T, case["sys"], m, f, case["seed"], "var"), nontrivial=nontriv, label="var/%s/%s" % (T, "T" if f else "F"))
        check_layouts(ctx, "eq", name + ".calc_proj_eq_constraint_with_var", lambda v, f=f: C.calc_proj_eq_constraint_with_var(c, v, on_para_eq_constraint=f),
                      var0, out, "calc_proj_eq_constraint_with_var(flag %s)" % f, dict(case, flag_var=f))
        check_result_history(ctx, "eq", name + ".calc_proj_eq_constraint_with_var", lambda v, f=f: C.calc_proj_eq_constraint_with_var(c, v, on_para_eq_constraint=f),
                             var0, out, f and T in ("state", "gate"), "calc_proj_eq_constraint_with_var(flag %s)" % f, dict(case, flag_var=f))
        mutated = not np.array_equal(var, var0)
        diag = ""
        if T == "mprocess" and d <= 3 and m <= 3:
            # the array-heap model (Model/C04_Heap.v h_proj_eq_with_var = the code with repair
            # mprocess-proj-eq-var-mutates-argument; theorems C04_mprocess_eq_proj_with_var_pure / _value) predicts BOTH the
            # returned array and the contents of var after the call
            zs, qs = [1 if f else 0, m, d * d], [float(v) for v in var0]
            hv = [float(v) for v in ctx.get_model().call("c04.mp_heap", zs, qs)]
            h_var, h_out = np.array(hv[:len(var0)]), np.array(hv[len(var0):])
            ctx.count("eq", key=None, nontrivial=False, label="heap-model/%s/impl-%s" % ("T" if f else "F", "mutates" if mutated else "pure"))
            if maxabs(h_var, var0) > 0:
                ctx.violation("eq", "Model/C04_Heap.v", "heap-model-mismatch", "the executed heap model modifies var although C04_mprocess_eq_proj_with_var_pure says it cannot (flag %s) (%s)" % (f, bucket), dict(case, flag_var=f))
            if maxabs(h_out, out) > tol:
                ctx.violation("eq", "Model/C04_Heap.v", "heap-model-mismatch", "heap model returns a different array than the implementation (%.3e, flag %s) (%s)" % (maxabs(h_out, out), f, bucket), dict(case, flag_var=f))
            if mutated:
                # diagnostic: is this the behaviour of the code as it was before the repair (writes through the views of var)?
                pv_ = [float(v) for v in ctx.get_model().call("c04.mp_heap_prefix", zs, qs)]
                diag = ("; the contents of var after the call %s the heap model of the code BEFORE repair mprocess-proj-eq-var-mutates-argument (hss are views of var, `hs[0] -= vec / len(hss)` writes through them)"
                        % ("equal" if maxabs(np.array(pv_[:len(var0)]), var) <= tol else "differ from"))
        if mutated:
            ctx.violation("eq", name + ".calc_proj_eq_constraint_with_var", "mutates-argument",
                          "the var array handed to calc_proj_eq_constraint_with_var(on_para_eq_constraint=%s) was modified in place (max change %.3e) (%s)%s" % (f, maxabs(var, var0), bucket, diag),
                          dict(case, flag_var=f))
        st, mv = model_eq_var(ctx, T, d, f, var0)
        mv = np.array([float(v) for v in mv]) if st == "ok" else None
        # object path through the closure handed to the optimisers: generate_from_var -> project -> to_var
        v2 = var0.copy()
        out2 = np.array(of.func_calc_proj_eq_constraint(f)(v2), dtype=np.float64)
        if not np.array_equal(v2, var0):
            ctx.violation("eq", "QOperation.func_calc_proj_eq_constraint", "mutates-argument", "closure modified its var argument (flag %s) (%s)" % (f, bucket), dict(case, flag_var=f))
        if mv is None or maxabs(out, mv) > tol:
            # correspondence failed: does the PROPERTY fail (the two forms compute different points)?
            sig = "object-vs-variable" if maxabs(out2, out) > tol else "model-mismatch"
            ctx.violation("eq", name + ".calc_proj_eq_constraint_with_var", sig,
                          "variable-level equality projection (flag %s) differs from the model by %s and from the object-level path by %.3e (%s)" % (
                              f, "model error" if mv is None else "%.3e" % maxabs(out, mv), maxabs(out2, out), bucket), dict(case, flag_var=f))
            continue
        if T in ("state", "gate"):
            st2, mv2 = model_eq_var(ctx, T, d, f, var0, via_obj=True)
            if st2 != "ok" or maxabs([float(v) for v in mv2], mv) > 0:
                ctx.violation("eq", "Model/C04_Proj.v", "model-obj-var-disagree", "model: object path and variable path differ (flag %s) (%s)" % (f, bucket), dict(case, flag_var=f))
        if maxabs(out2, out) > tol:
            ctx.violation("eq", name + ".calc_proj_eq_constraint_with_var", "object-vs-variable",
                          "object-level (generate_from_var -> project -> to_var) and variable-level projections differ by %.3e (flag %s) (%s)" % (maxabs(out2, out), f, bucket), dict(case, flag_var=f))
        v3 = var0.copy()
        out3 = np.array(of.func_calc_proj_eq_constraint_with_var(f)(v3), dtype=np.float64)
        if not np.array_equal(v3, var0):
            ctx.violation("eq", "QOperation.func_calc_proj_eq_constraint_with_var", "mutates-argument",
                          "the closure handed to the optimisers modified its var argument (flag %s, max change %.3e) (%s)" % (f, maxabs(v3, var0), bucket), dict(case, flag_var=f))
        if maxabs(out3, out) > 0 and maxabs(out3, out) > tol:
            ctx.violation("eq", "QOperation.func_calc_proj_eq_constraint_with_var", "value", "closure differs from the static method by %.3e (flag %s)" % (maxabs(out3, out), f), dict(case, flag_var=f))
        # (b) to_var(P(obj)) == P_var(to_var(obj)) whenever the parametrisation does not discard what P changes
        if (not f) or T in ("state", "gate") or case["kind"] in ("feasible", "physical"):
            pv = np.array(of.calc_proj_eq_constraint().to_var(), dtype=np.float64)
            if maxabs(pv, out) > max(tol, 1e-12):
                ctx.violation("eq", name + ".calc_proj_eq_constraint_with_var", "object-vs-variable",
                              "to_var(P(obj)) and P_var(to_var(obj)) differ by %.3e (flag %s) (%s)" % (maxabs(pv, out), f, bucket), dict(case, flag_var=f))
        if f:
            # with the constraint built into the parametrisation the variable-level projection is the identity
            if maxabs(out, var0) > 1e-12 * max(1.0, scale):
                ctx.violation("eq", name + ".calc_proj_eq_constraint_with_var", "moves-feasible-point", "flag True: variables moved by %.3e (%s)" % (maxabs(out, var0), bucket), dict(case, flag_var=f))


def sub_eq(ctx):
    cases = gen_eq_cases(ctx, ctx.n(240, 2000))
    ctx.sample("eq", dict(cases[0], data=cases[0]["data"][:8]))
    ctx.run_cases("eq", chk_eq, cases)


# ---------------------------------------------------------------------------------- inequality projections
def exact_herm(H):
    H = np.array((np.asarray(H, dtype=complex) + np.asarray(H, dtype=complex).conj().T) / 2)
    k = H.shape[0]
    for i in range(k):
        H[i, i] = H[i, i].real
        for j in range(i + 1, k):
            H[j, i] = np.conj(H[i, j])
    return H


def antiherm(H):
    return float(np.abs(H - H.conj().T).max()) if H.size else 0.0


def run_cert(ctx, X, Y, eps, delta):
    """exact evaluation of Model/C04_Cert.v cert_check on the rationals the floats denote.
    returns (ok, detail dict)"""
    from common.model import cflat
    Xe, Ye = exact_herm(X), exact_herm(Y)
    k = Xe.shape[0]
    v = ctx.get_model().call("c04.cert", [k], [float(eps), float(delta)] + cflat(Xe) + cflat(Ye))
    det = {"all": int(v[0]), "hermX": int(v[1]), "hermY": int(v[2]), "psd(X+eps)": int(v[3]), "psd(X-Y+eps)": int(v[4]),
           "|<X,X-Y>|<=delta": int(v[5]), "<X,X-Y>": float(v[6])}
    return bool(int(v[0])), det


def cert_consts(X, Y, atol):
    s = max(float(np.linalg.norm(Y)), float(np.linalg.norm(X)))
    eps = CERT_REL * s + CERT_ATOL * atol
    return s, eps, eps * max(s, 1e-300)


def rand_psd_competitors(nrng, X, Y, s, count):
    k = X.shape[0]
    out = []
    for t in range(count):
        A = nrng.normal(size=(k, k)) + 1j * nrng.normal(size=(k, k))
        mode = t % 4
        if mode == 0:
            Z = A @ A.conj().T * (s / k) * nrng.choice([0.01, 0.3, 1.0])
        elif mode == 1:                     # near the output: X_+ + small PSD bump (the discriminating direction)
            v = A[:, :1]
            Z = ref_psd_proj(X) + (v @ v.conj().T) * (s / k) * nrng.choice([1e-3, 1e-2, 0.1])
        elif mode == 2:                     # low rank
            v = A[:, :max(1, k // 2)]
            Z = v @ v.conj().T * (s / k)
        else:                               # near the true projection of Y
            v = A[:, :1]
            Z = ref_psd_proj(Y) + (v @ v.conj().T) * (s / k) * nrng.choice([0.0, 1e-4, 1e-2])
        out.append((Z + Z.conj().T) / 2)
    return out


def check_projection_pair(ctx, case, site, bucket, Ys, Xs, atol, nrng, replay, ncomp=20, sub="ineq"):
    """certificate + tripwires for input operators Ys and output operators Xs. returns True if all fine"""
    ok_all = True
    for idx, (Y, X) in enumerate(zip(Ys, Xs)):
        s, eps, delta = cert_consts(X, Y, atol)
        ah = max(antiherm(X), antiherm(Y))
        if ah > 1e-9 * s + atol:          # defects below the code's own truncation threshold carry no information
            ctx.violation(sub, site, "not-hermitian", "operator %d is not Hermitian (%.3e) (%s)" % (idx, ah, bucket), replay)
            ok_all = False
            continue
        ok, det = run_cert(ctx, X, Y, eps, delta)
        if not ok:
            which = "infeasible-output" if not det["psd(X+eps)"] else ("not-nearest" if (not det["psd(X-Y+eps)"] or not det["|<X,X-Y>|<=delta"]) else "certificate-input")
            ctx.violation(sub, site, which,
                          "nearest-PSD certificate rejected for operator %d (%s): %s eps=%.3e delta=%.3e |Y|=%.3e" % (idx, bucket, det, eps, delta, s), replay)
            ok_all = False
            continue
        # float tripwires (redundant with the theorem; they guard the certificate code)
        dYX = float(np.linalg.norm(Y - X) ** 2)
        for Z in rand_psd_competitors(nrng, X, Y, max(s, atol), ncomp):
            dYZ = float(np.linalg.norm(Y - Z) ** 2); dXZ = float(np.linalg.norm(X - Z) ** 2)
            S2 = max(dYZ, dYX, dXZ, s * s, atol * atol)
            if dYZ < dYX + dXZ - 1e-9 * S2 - 2 * delta - 2 * eps * abs(np.trace(Z).real):
                ctx.violation(sub, site, "not-nearest", "variational inequality fails against a PSD competitor: |Y-Z|^2=%.6e < |Y-X|^2+|X-Z|^2=%.6e (operator %d, %s) although the certificate accepted" % (dYZ, dYX + dXZ, idx, bucket), replay)
                ok_all = False
                break
        R = ref_psd_proj(Y)
        # the code zeroes coefficients below atol: up to k^2 coefficients in an orthonormal basis, i.e. up to k*atol in Frobenius norm
        if float(np.linalg.norm(R - X)) > 1e-9 * s + 2 * X.shape[0] * atol:
            ctx.violation(sub, site, "differs-from-reference", "output differs from an independent eigen-decomposition reference by %.3e (operator %d, %s) although the certificate accepted" % (float(np.linalg.norm(R - X)), idx, bucket), replay)
            ok_all = False
    return ok_all


def _ineq_body(ctx, case, atol, default_settings):
    T = case["type"]; c = get_sys(case["sys"]); d = c.dim; m = case["m"]; scale = case["scale"]; flag = case["flag"]
    C = cls_of(T); name = C.__name__
    x_in = np.array(case["data"], dtype=np.float64)
    nrng = np.random.default_rng(case["seed"])
    kinds = case["kinds"]
    bucket = "%s/%s/m%d/%s/%s/scale=%g" % (T, case["sys"], m, "+".join(sorted(set(kinds))), "T" if flag else "F", scale)
    if True:
        tolv = TOL_EQ * scale + 10 * atol
        o0 = build(T, c, x_in, m, flag)
        var0 = np.array(o0.to_var(), dtype=np.float64).copy()
        varg = var0.copy()
        # the object the optimisers see: generate_from_var(var) (for flag True this is the equality-feasible completion)
        obj = o0.generate_from_var(varg, on_para_eq_constraint=flag)
        x = stacked(obj)
        s0 = snap(arrays_of(T, obj))
        p = obj.calc_proj_ineq_constraint()
        px = stacked(p)
        if not same(arrays_of(T, obj), s0) or not np.array_equal(varg, var0):
            ctx.violation("ineq", name + ".calc_proj_ineq_constraint", "mutates-argument", "object-level inequality projection modified its operand (%s)" % bucket, case)
        check_object_layouts(ctx, "ineq", name + ".calc_proj_ineq_constraint", T, c, x, m, flag, "calc_proj_ineq_constraint", px, tolv, case)
        Ys = operators(T, c, x, m); Xs = operators(T, c, px, m)
        spect = np.concatenate([np.linalg.eigvalsh(exact_herm(Y)) for Y in Ys])
        sn = max(float(np.abs(spect).max()), 1e-300)
        nneg = int((spect < -1e-9 * sn).sum()); npos = int((spect > 1e-9 * sn).sum())
        lab = "mixed" if (nneg and npos) else ("all-neg" if nneg else ("psd" if npos else "zero"))
        is_cplx = max(float(np.abs(np.asarray(Y).imag).max()) for Y in Ys) > 1e-9 * sn
        nontriv = lab == "mixed" and is_cplx
        ctx.count("ineq", key=(T, case["sys"], m, flag, case["seed"]), nontrivial=nontriv, label="%s/%s/%s" % (T, case["sys"], lab))
        ctx.count("ineq", key=None, nontrivial=False, label="scale=%g" % scale)
        ctx.count("ineq", key=None, nontrivial=False, label="complex" if is_cplx else "real-symmetric")
        # isometry: distances in operator space == distances in stacked-parameter space (orthonormal bases; C02)
        dop = sum(float(np.linalg.norm(Y - X) ** 2) for Y, X in zip(Ys, Xs)); dst = float(np.sum((x - px) ** 2))
        nop = sum(float(np.linalg.norm(Y) ** 2) for Y in Ys); nst = float(np.sum(x ** 2))
        floor = 1e-20 * max(nop, nst, atol * atol)          # distances below rounding level carry no information
        if abs(nop - nst) > 1e-9 * max(nop, nst) + floor or abs(dop - dst) > 1e-9 * max(dop, dst) + floor:
            ctx.violation("ineq", name + ".calc_proj_ineq_constraint", "operator-space-not-isometric",
                          "squared norm / distance in operator space %.9e / %.9e vs stacked-parameter space %.9e / %.9e (%s): nearest in one is not nearest in the other" % (nop, dop, nst, dst, bucket), case)
        ok = check_projection_pair(ctx, case, name + ".calc_proj_ineq_constraint", bucket, Ys, Xs, atol, nrng, case, ncomp=20)
        if not ok:
            return
        # idempotence and fixed points (consequences of uniqueness; checked on the implementation)
        p2 = stacked(p.calc_proj_ineq_constraint())
        if maxabs(p2, px) > tolv:
            ctx.violation("ineq", name + ".calc_proj_ineq_constraint", "not-idempotent", "P(P(x)) differs from P(x) by %.3e (%s)" % (maxabs(p2, px), bucket), case)
        # `lab` calls eigenvalues above -1e-9*(largest |eigenvalue| of ANY operator of the object) non-negative; the nearest point
        # of such an input lies at distance ||negative parts||_F (isometry), so that much movement is what the property demands
        negn = float(np.sqrt((np.clip(spect, None, 0.0) ** 2).sum()))
        if lab in ("psd", "zero") and maxabs(px, x) > tolv + 2 * negn:
            ctx.violation("ineq", name + ".calc_proj_ineq_constraint", "moves-feasible-point",
                          "PSD input (negative parts %.3e) moved by %.3e (%s)" % (negn, maxabs(px, x), bucket), case)
        # variable level: same point as the object level, operand untouched
        v1 = var0.copy()
        out = np.array(C.calc_proj_ineq_constraint_with_var(c, v1, on_para_eq_constraint=flag), dtype=np.float64)
        if not np.array_equal(v1, var0):
            ctx.violation("ineq", name + ".calc_proj_ineq_constraint_with_var", "mutates-argument", "var modified in place (flag %s) (%s)" % (flag, bucket), case)
        check_result_history(ctx, "ineq", name + ".calc_proj_ineq_constraint_with_var", lambda v: C.calc_proj_ineq_constraint_with_var(c, v, on_para_eq_constraint=flag),
                             var0, out, False, "calc_proj_ineq_constraint_with_var(flag %s)" % flag, case)
        check_layouts(ctx, "ineq", name + ".calc_proj_ineq_constraint_with_var", lambda v: C.calc_proj_ineq_constraint_with_var(c, v, on_para_eq_constraint=flag),
                      var0, out, "calc_proj_ineq_constraint_with_var(flag %s)" % flag, case)
        pv = np.array(p.to_var(), dtype=np.float64)
        if maxabs(out, pv) > tolv:
            ctx.violation("ineq", name + ".calc_proj_ineq_constraint_with_var", "object-vs-variable",
                          "variable-level inequality projection differs from to_var(object-level projection) by %.3e (flag %s) (%s)" % (maxabs(out, pv), flag, bucket), case)
        if default_settings:     # the closures build their objects with the default settings
            v2 = var0.copy()
            out2 = np.array(o0.func_calc_proj_ineq_constraint(flag)(v2), dtype=np.float64)
            v3 = var0.copy()
            out3 = np.array(o0.func_calc_proj_ineq_constraint_with_var(flag)(v3), dtype=np.float64)
            if not (np.array_equal(v2, var0) and np.array_equal(v3, var0)):
                ctx.violation("ineq", "QOperation.func_calc_proj_ineq_constraint", "mutates-argument", "closure modified its var argument (%s)" % bucket, case)
            if maxabs(out2, out) > tolv or maxabs(out3, out) > tolv:
                ctx.violation("ineq", name + ".calc_proj_ineq_constraint_with_var", "object-vs-variable",
                              "closures func_calc_proj_ineq_constraint / _with_var differ from the static method by %.3e / %.3e (%s)" % (maxabs(out2, out), maxabs(out3, out), bucket), case)
        if not flag:
            # flag False: variables ARE the stacked vector, so the variable-level output is itself certified
            Xv = operators(T, c, out, m)
            dv = sum(float(np.linalg.norm(A - B)) for A, B in zip(Xv, Xs))
            if dv > 1e-9 * sn + 10 * atol:
                ctx.violation("ineq", name + ".calc_proj_ineq_constraint_with_var", "object-vs-variable", "operators of the variable-level output differ by %.3e (%s)" % (dv, bucket), case)


def chk_ineq(ctx, case):
    """default quara settings at every scale (the property quantifies over scales 1e-3..1e3).  If the projection raises the
    truncate_hs ValueError the PROPERTY fails (reported); the nearest-point checks are then still run under a threshold that
    admits the rounding noise, so that a second defect is not hidden behind the first."""
    scale = case["scale"]
    try:
        with quara_atol() as atol:
            _ineq_body(ctx, case, atol, True)
        return
    except ValueError as e:
        if not is_truncate_error(e):
            raise
        err = str(e)[:60]
    who = "%s inequality projection (%s input of scale %g, default settings atol=1e-13)" % (cls_of(case["type"]).__name__, "+".join(sorted(set(case["kinds"]))), scale)
    try:
        with quara_atol(1e-14 * max(scale, 10.0)) as atol:
            _ineq_body(ctx, case, atol, False)
    except ValueError as e:
        if not is_truncate_error(e):
            raise
        ctx.violation("ineq", SITE_TRUNC, "raises:non-real-output",
                      "%s raises ValueError('%s...') and still does with the threshold relaxed to %.0e: the rebuilt operator has genuinely complex coefficients (not Hermitian - e.g. a missing conjugate)" % (who, err, 1e-14 * max(scale, 10.0)), case)
        return
    ctx.violation("ineq", SITE_TRUNC, "raises-at-large-scale" if scale > 10 else "raises",
                  "%s raises ValueError('%s...'): the imaginary parts it rejects are rounding noise (the call succeeds and is judged under Settings.set_atol(%.0e))" % (who, err, 1e-14 * max(scale, 10.0)), case)


def ineq_plan(ctx):
    if ctx.quick:
        return [("state", "1q", 4), ("state", "1t", 4), ("state", "2q", 4), ("state", "qt", 3),
                ("povm", "1q", 4), ("povm", "1t", 4), ("povm", "2q", 3), ("povm", "qt", 1),
                ("gate", "1q", 8), ("gate", "1t", 4), ("gate", "2q", 0.8),
                ("mprocess", "1q", 6), ("mprocess", "1t", 1.5), ("mprocess", "2q", 0.3)]
    return [("state", "1q", 3), ("state", "1t", 3), ("state", "2q", 3), ("state", "qt", 4), ("state", "tq", 2),
            ("povm", "1q", 3), ("povm", "1t", 3), ("povm", "2q", 3), ("povm", "qt", 3), ("povm", "tq", 1),
            ("gate", "1q", 6), ("gate", "1t", 4), ("gate", "2q", 1.0),
            ("mprocess", "1q", 5), ("mprocess", "1t", 2), ("mprocess", "2q", 0.6)]


def sub_ineq(ctx):
    cases = gen_ineq_cases(ctx, ctx.n(150, 800), ineq_plan(ctx))
    if not ctx.quick:
        # qubit x qutrit gates / instruments: 36 x 36 Choi matrices, the exact decision takes several seconds each
        cases += gen_ineq_cases(ctx, 2, [("gate", "qt", 1)]) + gen_ineq_cases(ctx, 1, [("gate", "tq", 1)]) + gen_ineq_cases(ctx, 1, [("mprocess", "qt", 1)])
    ctx.sample("ineq", dict(cases[0], data=cases[0]["data"][:8]))
    ctx.run_cases("ineq", chk_ineq, cases)


# ---------------------------------------------------------------------------------- error branches
def chk_errors(ctx, case):
    """Povm.calc_proj_eq_constraint raises ValueError on a non-Hermitian basis (model: None / Err 1); the variable-level
    form has no such guard (model and code agree on that too)."""
    from quara.objects.povm import Povm
    c = get_sys("comp1q"); d = 2; n = 4; m = case["m"]
    x = np.array(case["data"], dtype=np.float64)
    o = Povm(c, [x[i * n:(i + 1) * n].copy() for i in range(m)], is_physicality_required=False, on_para_eq_constraint=False)
    try:
        o.calc_proj_eq_constraint(); impl = "ok"
    except ValueError:
        impl = "ValueError"
    except Exception as e:
        impl = type(e).__name__
    st, val = model_eq_obj(ctx, "povm", d, m, x, herm=1 if c.is_basis_hermitian else 0)
    ctx.count("errors", key=(m, tuple(case["data"][:4])), nontrivial=True, label="povm-nonhermitian-basis:" + impl)
    if (impl == "ValueError") != (st == "err"):
        ctx.violation("errors", "Povm.calc_proj_eq_constraint", "error-kind", "non-Hermitian basis: implementation %s, model %s %s" % (impl, st, val if st == "err" else ""), case)
    var = np.array(o.to_var(), dtype=np.float64); v0 = var.copy()
    out = np.array(Povm.calc_proj_eq_constraint_with_var(c, var, on_para_eq_constraint=False), dtype=np.float64)
    st2, mv = model_eq_var(ctx, "povm", d, False, v0)
    if st2 != "ok" or maxabs(out, [float(v) for v in mv]) > TOL_EQ:
        ctx.violation("errors", "Povm.calc_proj_eq_constraint_with_var", "model-mismatch", "variable-level projection on a non-Hermitian basis differs from the model", case)


def sub_errors(ctx):
    cases = [{"m": m, "data": rnd_vec(ctx.rng, m * 4, 1.0)} for m in (2, 3, 4, 5)]
    ctx.sample("errors", cases[0])
    ctx.run_cases("errors", chk_errors, cases)


# ---------------------------------------------------------------------------------- default settings at scale 1e3
def chk_large(ctx, case):
    """raw Gaussian parameter vectors of scale 1e3, DEFAULT settings, object- and variable-level, flag False"""
    T = case["type"]; c = get_sys(case["sys"]); d = c.dim; m = case["m"]
    C = cls_of(T)
    x = np.array(case["data"], dtype=np.float64)
    ctx.count("large", key=(T, case["sys"], case["seed"]), nontrivial=True, label="%s/%s" % (T, case["sys"]))
    with quara_atol() as atol:
        obj = build(T, c, x, m, False)
        try:
            p = obj.calc_proj_ineq_constraint()
            v = x.copy()
            out = np.array(C.calc_proj_ineq_constraint_with_var(c, v, on_para_eq_constraint=False), dtype=np.float64)
        except ValueError as e:
            if not is_truncate_error(e):
                raise
            noise = True
            try:
                with quara_atol(1e-11):
                    build(T, c, x, m, False).calc_proj_ineq_constraint()
            except ValueError as e2:
                if not is_truncate_error(e2):
                    raise
                noise = False
            ctx.violation("large", SITE_TRUNC, "raises-at-large-scale" if noise else "raises:non-real-output",
                          "%s.calc_proj_ineq_constraint raises ValueError('%s...') on a generic input of scale 1e3 with default settings: %s" % (
                              C.__name__, str(e)[:60], "the absolute threshold atol=1e-13 rejects the rounding noise of the imaginary parts" if noise else
                              "the rebuilt operator has genuinely complex coefficients (still raises with the threshold relaxed to 1e-11)"), case)
            return
        bucket = "%s/%s/scale=1e3/default" % (T, case["sys"])
        if not np.array_equal(v, x):
            ctx.violation("large", C.__name__ + ".calc_proj_ineq_constraint_with_var", "mutates-argument", "var modified in place (%s)" % bucket, case)
        if maxabs(out, stacked(p)) > TOL_EQ * 1e3:
            ctx.violation("large", C.__name__ + ".calc_proj_ineq_constraint_with_var", "object-vs-variable",
                          "variable-level and object-level inequality projections differ by %.3e (%s)" % (maxabs(out, stacked(p)), bucket), case)
        check_projection_pair(ctx, case, C.__name__ + ".calc_proj_ineq_constraint", bucket,
                              operators(T, c, x, m), operators(T, c, stacked(p), m), atol, np.random.default_rng(case["seed"]), case, ncomp=8, sub="large")


def sub_large(ctx):
    rng = ctx.rng
    cases = []
    for T, sk in [("gate", "2q"), ("gate", "1t"), ("state", "2q"), ("povm", "1t"), ("mprocess", "1t"), ("povm", "2q"), ("state", "qt")] * ctx.n(1, 3):
        d = get_sys(sk).dim; m = 2 if T in ("povm", "mprocess") else 1
        cases.append({"type": T, "sys": sk, "m": m, "seed": rng.getrandbits(32),
                      "data": [rng.gauss(0, 1) * 1e3 for _ in range(m * blocklen(T, d))]})
    ctx.sample("large", dict(cases[0], data=cases[0]["data"][:8]))
    ctx.run_cases("large", chk_large, cases)


# ---------------------------------------------------------------------------------- closure factories x requested arguments
FLAG_NAME = {None: "None", True: "T", False: "F"}


def chk_closures(ctx, case):
    """every func_calc_proj_{eq,ineq}_constraint(_with_var) / func_calc_proj_physical(_with_var) factory, requested with
    on_para_eq_constraint in {None, True, False} from objects whose OWN flag is True and False (and with mode_proj_order /
    max_iteration / eps_truncate_imaginary_part different from the object's own): the closure must compute, in the REQUESTED
    parametrisation (None = the object's own), the same point as the static variable-level function at that flag, as
    to_var(object-level projection) at that flag and as the Coq model (equality) / a certified nearest point (inequality)."""
    T = case["type"]; c = get_sys(case["sys"]); d = c.dim; m = case["m"]; scale = case["scale"]
    C = cls_of(T); name = C.__name__
    x = np.array(case["data"], dtype=np.float64)
    nrng = np.random.default_rng(case["seed"])
    tol = TOL_EQ * max(1.0, scale)
    mode_other = case["mode"]; iters = case["iters"]
    with quara_atol() as atol:
        tolv = TOL_EQ * scale + 10 * atol
        # the variable vector of x in each parametrisation, the static results and the object-level results, per EFFECTIVE flag
        ref = {}
        for eff in (True, False):
            o_eff = build(T, c, x, m, eff)
            var = np.array(o_eff.to_var(), dtype=np.float64).copy()
            st_eq = np.array(C.calc_proj_eq_constraint_with_var(c, var.copy(), on_para_eq_constraint=eff), dtype=np.float64)
            ob = o_eff.generate_from_var(var.copy(), on_para_eq_constraint=eff)
            ob_eq = np.array(ob.calc_proj_eq_constraint().to_var(), dtype=np.float64)
            stm, mv = model_eq_var(ctx, T, d, eff, var)
            if stm != "ok" or maxabs(st_eq, [float(v) for v in mv]) > tol:
                ctx.violation("closures", name + ".calc_proj_eq_constraint_with_var", "model-mismatch",
                              "static variable-level equality projection (flag %s) differs from the model (%s/%s)" % (eff, T, case["sys"]), case)
                return
            st_in = np.array(C.calc_proj_ineq_constraint_with_var(c, var.copy(), on_para_eq_constraint=eff), dtype=np.float64)
            pob = ob.calc_proj_ineq_constraint()
            ob_in = np.array(pob.to_var(), dtype=np.float64)
            # nearest-point-ness at this flag: verified certificate on the object-level result (for flag True to_var drops the
            # coefficients the parametrisation fixes, so the variable-level result is judged through its equality with to_var(this))
            check_projection_pair(ctx, case, name + ".calc_proj_ineq_constraint", "%s/%s/closures/flag=%s" % (T, case["sys"], eff),
                                  operators(T, c, stacked(ob), m), operators(T, c, stacked(pob), m), atol, nrng, case, ncomp=4, sub="closures")
            # physical projection with NON-default arguments (a few Dykstra steps, the other projection order)
            o_ph = build(T, c, x, m, eff, mode_proj_order=mode_other)
            st_ph = np.array(o_ph.calc_proj_physical_with_var(var.copy(), on_para_eq_constraint=eff, max_iteration=iters), dtype=np.float64)
            ob_ph = np.array(o_ph.generate_from_var(var.copy(), on_para_eq_constraint=eff, mode_proj_order=mode_other)
                             .calc_proj_physical(max_iteration=iters).to_var(), dtype=np.float64)
            ref[eff] = dict(var=var, st_eq=st_eq, ob_eq=ob_eq, st_in=st_in, ob_in=ob_in, st_ph=st_ph, ob_ph=ob_ph)
            for a, b, what in ((st_eq, ob_eq, "eq"), (st_in, ob_in, "ineq"), (st_ph, ob_ph, "physical")):
                if maxabs(a, b) > (tol if what == "eq" else 10 * tolv):
                    ctx.violation("closures", name + ".calc_proj_%s%s_with_var" % (what, "" if what == "physical" else "_constraint"), "object-vs-variable",
                                  "static variable-level %s projection and to_var(object-level projection) differ by %.3e at flag %s (%s/%s/scale=%g)" % (what, maxabs(a, b), eff, T, case["sys"], scale), case)
        # non-default object configuration must not change the point: the projections read only the parameters and the flag
        for eff in (True, False):
            o_def = build(T, c, x, m, eff)
            o_cfg = build(T, c, x, m, eff, is_estimation_object=False, on_algo_eq_constraint=False, on_algo_ineq_constraint=False,
                          mode_proj_order="ineq_eq", eps_proj_physical=1e-3)
            for what in ("eq", "ineq"):
                a = stacked(getattr(o_def, "calc_proj_%s_constraint" % what)()); b = stacked(getattr(o_cfg, "calc_proj_%s_constraint" % what)())
                if a.shape != b.shape or not np.array_equal(a, b):
                    ctx.violation("closures", name + ".calc_proj_%s_constraint" % what, "depends-on-object-configuration",
                                  "the %s projection of an object with non-default is_estimation_object / on_algo_* / mode_proj_order / eps_proj_physical differs by %.3e from that of the default-configured object with the same parameters (flag %s, %s/%s)" % (what, maxabs(a, b), eff, T, case["sys"]), case)
            # an object obtained by another route (copy()) projects to the same point
            for what in ("eq", "ineq"):
                a = stacked(getattr(o_def, "calc_proj_%s_constraint" % what)()); b = stacked(getattr(o_def.copy(), "calc_proj_%s_constraint" % what)())
                if a.shape != b.shape or not np.array_equal(a, b):
                    ctx.violation("closures", name + ".calc_proj_%s_constraint" % what, "depends-on-construction-route",
                                  "the %s projection of obj.copy() differs by %.3e from that of obj (flag %s, %s/%s)" % (what, maxabs(a, b), eff, T, case["sys"]), case)
        # an EQUAL but not identical CompositeSystem instance handed to the static functions gives the same point
        c2 = get_sys(case["sys"] + "#2")
        for eff in (True, False):
            v = ref[eff]["var"]
            for what, fn, want in (("eq", C.calc_proj_eq_constraint_with_var, ref[eff]["st_eq"]), ("ineq", C.calc_proj_ineq_constraint_with_var, ref[eff]["st_in"])):
                got = np.array(fn(c2, v.copy(), on_para_eq_constraint=eff), dtype=np.float64)
                if got.shape != want.shape or not np.array_equal(got, want):
                    ctx.violation("closures", name + ".calc_proj_%s_constraint_with_var" % what, "depends-on-composite-system-identity",
                                  "with an equal but not identical CompositeSystem the result differs by %.3e (flag %s, %s/%s)" % (maxabs(got, want), eff, T, case["sys"]), case)
        # the static variable-level functions called WITHOUT the keyword use the documented default parametrisation (True)
        vT = ref[True]["var"]
        for what, fn, want in (("eq", C.calc_proj_eq_constraint_with_var, ref[True]["st_eq"]), ("ineq", C.calc_proj_ineq_constraint_with_var, ref[True]["st_in"])):
            got = np.array(fn(c, vT.copy()), dtype=np.float64)
            if got.shape != want.shape or maxabs(got, want) > 0:
                ctx.violation("closures", name + ".calc_proj_%s_constraint_with_var" % what, "default-flag",
                              "called without on_para_eq_constraint the function does not compute the projection in the documented default parametrisation (True): differs by %.3e (%s/%s)" % (maxabs(got, want), T, case["sys"]), case)
        for own in (True, False):
            # the object's own settings differ from everything that is requested below
            obj = build(T, c, x, m, own, mode_proj_order=("eq_ineq" if mode_other == "ineq_eq" else "ineq_eq"))
            for req in (None, True, False):
                eff = own if req is None else req
                R = ref[eff]; var0 = R["var"]
                combo = "%s/own=%s/req=%s" % (T, FLAG_NAME[own], FLAG_NAME[req])
                ctx.count("closures", key=(T, case["sys"], m, case["seed"], own, req), nontrivial=(req is not None and req != own), label=combo)
                kw = {} if req is None else {"on_para_eq_constraint": req}
                table = [
                    ("func_calc_proj_eq_constraint", lambda: obj.func_calc_proj_eq_constraint(**kw), R["ob_eq"], R["st_eq"], tol),
                    ("func_calc_proj_eq_constraint_with_var", lambda: obj.func_calc_proj_eq_constraint_with_var(**kw), R["st_eq"], R["ob_eq"], tol),
                    ("func_calc_proj_ineq_constraint", lambda: obj.func_calc_proj_ineq_constraint(**kw), R["ob_in"], R["st_in"], 10 * tolv),
                    ("func_calc_proj_ineq_constraint_with_var", lambda: obj.func_calc_proj_ineq_constraint_with_var(**kw), R["st_in"], R["ob_in"], 10 * tolv),
                    ("func_calc_proj_physical", lambda: obj.func_calc_proj_physical(mode_proj_order=mode_other, max_iteration=iters, **kw), R["ob_ph"], R["st_ph"], 10 * tolv),
                    ("func_calc_proj_physical_with_var", lambda: obj.func_calc_proj_physical_with_var(mode_proj_order=mode_other, max_iteration=iters, **kw), R["st_ph"], R["ob_ph"], 10 * tolv),
                ]
                for fname, mk, want, want2, tl in table:
                    v = var0.copy()
                    try:
                        clo = mk()
                        out = np.array(clo(v), dtype=np.float64)
                        # history: the SAME closure object is used again on another point and then on the first one: no hidden state
                        v1 = var0 + scale * nrng.normal(size=var0.size)
                        other = np.array(clo(v1.copy()), dtype=np.float64)
                        again = np.array(clo(var0.copy()), dtype=np.float64)
                        fresh = np.array(mk()(v1.copy()), dtype=np.float64)          # a NEW closure on the second point
                    except Exception as e:
                        if is_truncate_error(e):
                            raise
                        ctx.violation("closures", "QOperation." + fname, "raises:" + type(e).__name__,
                                      "closure requested with on_para_eq_constraint=%s from a %s whose own flag is %s raises %s: %s" % (FLAG_NAME[req], name, own, type(e).__name__, str(e)[:80]), dict(case, own=own, req=FLAG_NAME[req]))
                        continue
                    if not np.array_equal(v, var0):
                        ctx.violation("closures", "QOperation." + fname, "mutates-argument", "closure modified its var argument (%s)" % combo, dict(case, own=own, req=FLAG_NAME[req]))
                    if other.shape != fresh.shape or not np.array_equal(other, fresh):
                        ctx.violation("closures", "QOperation." + fname, "depends-on-call-history",
                                      "a closure that was already used on one var returns, for a second var, a different point than a fresh closure does (max change %.3e) (%s)" % (maxabs(other, fresh), combo), dict(case, own=own, req=FLAG_NAME[req]))
                    if not np.array_equal(again, out):
                        ctx.violation("closures", "QOperation." + fname, "depends-on-call-history",
                                      "the same closure returns a different point (max change %.3e) for the same var after having been called on another var (%s)" % (maxabs(again, out), combo), dict(case, own=own, req=FLAG_NAME[req]))
                    dev = max(maxabs(out, want), maxabs(out, want2))
                    if dev > tl:
                        ctx.violation("closures", "QOperation." + fname, "ignores-requested-argument" if (req is not None and req != own and maxabs(out, want) > tl) else "object-vs-variable",
                                      "closure(var) differs by %.3e from the static variable-level function / to_var(object-level projection) at the REQUESTED parametrisation (%s, effective flag %s, scale %g, %s): the two forms do not compute the same point" % (dev, combo, eff, scale, case["sys"]),
                                      dict(case, own=own, req=FLAG_NAME[req]))
        # the object's own eps_truncate_imaginary_part must reach the variable-level closure (it also zeroes small real coefficients)
        eps = 0.05 * scale
        o_eps = build(T, c, x, m, False, eps_truncate_imaginary_part=eps)
        v0 = ref[False]["var"]
        got = np.array(o_eps.func_calc_proj_ineq_constraint_with_var(False)(v0.copy()), dtype=np.float64)
        want = np.array(C.calc_proj_ineq_constraint_with_var(c, v0.copy(), on_para_eq_constraint=False, eps_truncate_imaginary_part=eps), dtype=np.float64)
        if maxabs(got, want) > 0:
            ctx.violation("closures", "QOperation.func_calc_proj_ineq_constraint_with_var", "ignores-eps_truncate_imaginary_part",
                          "closure of an object with eps_truncate_imaginary_part=%g differs from the static function called with that value by %.3e (%s/%s)" % (eps, maxabs(got, want), T, case["sys"]), case)


def sub_closures(ctx):
    rng = ctx.rng
    cases = []
    plan = [("state", "1q"), ("povm", "1q"), ("gate", "1q"), ("mprocess", "1q"), ("state", "1t"), ("povm", "1t"), ("gate", "1t"), ("state", "2q"),
            ("povm", "2q"), ("mprocess", "1q"), ("gate", "1q"), ("state", "qt")]
    for i in range(96 if getattr(ctx, "c04_tie_broken", False) else ctx.n(20, 160)):
        T, sk = plan[i % len(plan)]
        d = get_sys(sk).dim
        m = rng.randint(2, 4) if T in ("povm", "mprocess") else 1
        scale = rng.choice([1e-2, 1.0, 1.0, 10.0])
        cases.append({"type": T, "sys": sk, "m": m, "scale": scale, "seed": rng.getrandbits(32), "kinds": ["params"],
                      "mode": rng.choice(["eq_ineq", "ineq_eq"]), "iters": rng.choice([1, 2, 3, 5]),
                      "data": rnd_vec(rng, m * blocklen(T, d), scale)})
    ctx.sample("closures", dict(cases[0], data=cases[0]["data"][:8]))
    ctx.run_cases("closures", chk_closures, cases)


# ---------------------------------------------------------------------------------- eigh -> clip -> rebuild (algorithm model)
def model_eig_clip(ctx, w, U):
    """Model/C04_EigClip.v eig_clip, executed exactly on the float values of LAPACK's (w, U)"""
    from common.model import cflat
    k = len(w)
    v = ctx.get_model().call("c04.eig_clip", [k], [float(t) for t in w] + cflat(np.asarray(U, dtype=complex)))
    a = np.array([float(t) for t in v], dtype=float).reshape(k, k, 2)
    return a[..., 0] + 1j * a[..., 1]


def chk_eigclip(ctx, case):
    """the implementation's output operator against the Coq model of its own algorithm (theorem C04_eig_clip_nearest:
    given eigh's contract the model IS the nearest PSD point), fed with the (w, U) that np.linalg.eigh returns for the
    operator the code decomposes; eigh's contract is checked numerically."""
    T = case["type"]; c = get_sys(case["sys"]); m = case["m"]; scale = case["scale"]
    C = cls_of(T); name = C.__name__
    x = np.array(case["data"], dtype=np.float64)
    bucket = "%s/%s/m%d/%s/scale=%g" % (T, case["sys"], m, "+".join(sorted(set(case["kinds"]))), scale)
    with quara_atol() as atol:
        obj = build(T, c, x, m, False)
        try:
            p = obj.calc_proj_ineq_constraint()
        except ValueError as e:
            if not is_truncate_error(e):
                raise
            ctx.count("eigclip", key=None, nontrivial=False, label="skipped:truncate_hs-raises (reported by ineq/large)")
            return
        Ys = operators(T, c, x, m); Xs = operators(T, c, stacked(p), m)
        for idx, (Y, X) in enumerate(zip(Ys, Xs)):
            k = Y.shape[0]
            w, U = np.linalg.eigh(Y)                       # what the code calls on this operator
            s = max(float(np.linalg.norm(Y)), atol)
            nontriv = bool((w < -1e-9 * s).any() and (w > 1e-9 * s).any() and float(np.abs(Y.imag).max()) > 1e-9 * s)
            ctx.count("eigclip", key=(T, case["sys"], m, case["seed"], idx), nontrivial=nontriv, label="%s/k=%d" % (T, k))
            cu = float(np.abs(U.conj().T @ U - np.eye(k)).max())
            cy = float(np.linalg.norm((U * w) @ U.conj().T - Y))
            if cu > 1e-10 or cy > 1e-10 * s + 1e-9 * antiherm(Y):
                ctx.violation("eigclip", "np.linalg.eigh<-calc_proj_ineq_constraint", "eigh-contract",
                              "the hypothesis of C04_eig_clip_nearest fails for the operator the code decomposes: |U^dagger U - I| = %.3e, |U w U^dagger - Y| = %.3e (|Y| = %.3e, operator %d, %s)" % (cu, cy, s, idx, bucket), case)
                continue
            Xm = model_eig_clip(ctx, w, U)
            dev = float(np.linalg.norm(Xm - X))
            if dev > 1e-9 * s + 100 * atol * k:
                ctx.violation("eigclip", name + ".calc_proj_ineq_constraint", "differs-from-eig-clip-model",
                              "output operator %d differs from U diag(clip(w)) U^dagger (Coq model on LAPACK's w, U) by %.3e (|Y| = %.3e, %s)" % (idx, dev, s, bucket), case)


def sub_eigclip(ctx):
    plan = [("state", "1q", 3), ("state", "1t", 3), ("state", "2q", 3), ("state", "qt", 2), ("povm", "1q", 3), ("povm", "1t", 3), ("povm", "2q", 2),
            ("gate", "1q", 4), ("gate", "1t", 2), ("gate", "2q", 0.7), ("mprocess", "1q", 3), ("mprocess", "1t", 0.7)]
    cases = gen_ineq_cases(ctx, ctx.n(40, 400), plan)
    ctx.sample("eigclip", dict(cases[0], data=cases[0]["data"][:8]))
    ctx.run_cases("eigclip", chk_eigclip, cases)


# ---------------------------------------------------------------------------------- certificate self-test
def chk_certself(ctx, case):
    """the certificate must accept an exactly computed projection and reject characteristic wrong ones"""
    nrng = np.random.default_rng(case["seed"]); k = case["k"]
    # exact instance: Y = U diag(w) U^dagger with U a real-orthogonal-times-phase matrix built from rationals is awkward;
    # use a diagonal-plus-permutation construction whose projection is known exactly in floating point
    w = np.array(case["w"], dtype=float)
    perm = nrng.permutation(k)
    ph = np.array([1, 1j, -1, -1j])[nrng.integers(0, 4, size=k)]
    U = np.zeros((k, k), dtype=complex); U[np.arange(k), perm] = ph          # exactly unitary in floating point
    Y = (U * w) @ U.conj().T
    X = (U * np.clip(w, 0, None)) @ U.conj().T
    if k >= 2:                                                               # make it genuinely complex and non-diagonal
        G = np.eye(k, dtype=complex); G[0, 0] = 0.6; G[0, 1] = 0.8j; G[1, 0] = 0.8j; G[1, 1] = 0.6     # exact 3-4-5 unitary
        Y = G @ Y @ G.conj().T; X = G @ X @ G.conj().T
    s, eps, delta = cert_consts(X, Y, DEFAULT_ATOL)
    ok, det = run_cert(ctx, X, Y, eps, delta)
    ctx.count("certself", key=(k, tuple(case["w"]), case["seed"]), nontrivial=bool((w < 0).any() and (w > 0).any()), label="k=%d" % k)
    if not ok:
        ctx.violation("certself", "harness.certificate", "rejects-true-projection", "certificate rejects an exact projection: %s" % det, case)
    wrongs = {
        "transpose (missing conjugate)": X.T,
        "abs instead of clip": (G if k >= 2 else np.eye(k)) @ ((U * np.abs(w)) @ U.conj().T) @ (G.conj().T if k >= 2 else np.eye(k)),
        "input returned": Y,
        "shrunk": 0.99 * X,
        "shifted": X + 1e-6 * s * np.eye(k),
    }
    for nm, W in wrongs.items():
        if float(np.linalg.norm(W - X)) <= 1e-7 * max(s, 1e-300):
            continue      # this variant coincides with the projection for this spectrum
        okw, detw = run_cert(ctx, W, Y, eps, delta)
        ctx.count("certself", key=None, nontrivial=False, label="wrong:" + nm)
        if okw:
            ctx.violation("certself", "harness.certificate", "accepts-wrong-projection", "certificate accepts a wrong projection (%s): %s" % (nm, detw), dict(case, wrong=nm))


def sub_certself(ctx):
    rng = ctx.rng
    cases = []
    for _ in range(ctx.n(12, 60)):
        k = rng.choice([2, 3, 4, 6])
        w = [float(rng.choice([-2, -1, -0.5, 0, 0.5, 1, 3])) for _ in range(k)]
        if not any(v < 0 for v in w):
            w[0] = -1.0
        if not any(v > 0 for v in w):
            w[-1] = 2.0
        cases.append({"k": k, "w": w, "seed": rng.getrandbits(32)})
    ctx.sample("certself", cases[0])
    ctx.run_cases("certself", chk_certself, cases)


def sub_corpus(ctx):
    """minimised failing / regression cases kept in /verif/corpus/C04/*.json ({"sub": ..., "case": ...}); run first"""
    import glob, json, os
    V = os.path.dirname(os.path.dirname(os.path.dirname(os.path.abspath(__file__))))
    for p in sorted(glob.glob(os.path.join(V, "corpus", "C04", "*.json"))):
        doc = json.load(open(p))
        if doc.get("sub") in FNS:
            ctx.run_cases(doc["sub"], FNS[doc["sub"]], [doc["case"]])


SUBS = [("corpus", sub_corpus), ("eq", sub_eq), ("ineq", sub_ineq), ("closures", sub_closures), ("errors", sub_errors), ("large", sub_large), ("eigclip", sub_eigclip), ("certself", sub_certself)]
FNS = {"eq": chk_eq, "ineq": chk_ineq, "closures": chk_closures, "errors": chk_errors, "large": chk_large, "eigclip": chk_eigclip, "certself": chk_certself}


# ---------------------------------------------------------------------------------- translator tie (closure factories)
def regen_closures(ctx):
    """regenerate (gen/c04_py2coq.py) the Gallina text of the flag handling / argument forwarding / callees of the six
    QOperation.func_calc_proj_* factories and of the assembly rule of MProcess.calc_proj_ineq_constraint_with_var from the CURRENT
    source, compile it, and re-check coq/gen/C04_Equiv.v against it (protocol of flow.regen_check with this property's own
    translator).  returns (ok, info)"""
    import os, re, shutil, subprocess, sys
    import runner
    V = runner.V
    scratch = os.path.join(getattr(ctx, "scratch", os.path.join(V, "build", ctx.prop_id)), "gen")
    os.makedirs(scratch, exist_ok=True)
    gen_v = os.path.join(scratch, "Gen_c04_closures.v")
    for stem in (gen_v[:-2], os.path.join(scratch, "C04_Equiv")):
        for ext in (".vo", ".vos", ".vok", ".glob"):
            try:
                os.remove(stem + ext)
            except OSError:
                pass
    equiv = os.path.join(V, "coq", "gen", "C04_Equiv.v")
    src = open(equiv).read()
    src_nc = re.sub(r"\(\*.*?\*\)", " ", src, flags=re.S)
    thms = re.findall(r"^\s*Theorem\s+([\w']+)", src_nc, flags=re.M)
    ctx.theorems = list(ctx.theorems) + [t for t in thms if t not in ctx.theorems]
    ctx.obligations += len(thms)
    r = subprocess.run([sys.executable, os.path.join(V, "gen", "c04_py2coq.py"), os.environ.get("VERIF_REPO", "/repo"), gen_v],
                       capture_output=True, text=True, timeout=120)
    if r.returncode != 0:
        return False, {"theorem": thms[0], "error": "translator rejected the source (outside its subset): " + (r.stdout + r.stderr)[-600:]}
    q = ["-Q", os.path.join(V, "coq", "theories"), "QV", "-Q", scratch, "QVGen"]
    r = subprocess.run(["timeout", "300", "coqc"] + q + [gen_v], capture_output=True, text=True)
    if r.returncode != 0:
        return False, {"theorem": thms[0], "error": "regenerated definitions do not compile: " + (r.stdout + r.stderr)[-600:]}
    dst = os.path.join(scratch, "C04_Equiv.v")
    shutil.copy(equiv, dst)
    r = subprocess.run(["timeout", "600", "coqc"] + q + [dst], capture_output=True, text=True)
    out = r.stdout + r.stderr
    if r.returncode != 0:
        m_ = re.search(r"line (\d+), characters", out)
        thm = None
        if m_:
            upto = "\n".join(src.splitlines()[:int(m_.group(1))])
            names = re.findall(r"^\s*(?:Theorem|Lemma)\s+([\w']+)", upto, flags=re.M)
            thm = names[-1] if names else None
        return False, {"theorem": thm, "error": out[-800:]}
    blocks = runner.parse_assumptions(out)
    bad = [a for closed, axs in blocks for a in axs if a not in runner.ALLOWED_AXIOMS and a.split(".")[-1] not in runner.ALLOWED_AXIOMS]
    if len(blocks) != len(thms) or bad:
        return False, {"theorem": thms[0], "error": "assumption gate on regenerated proofs: %d blocks / %d theorems, disallowed %s" % (len(blocks), len(thms), bad)}
    for t, (closed, axs) in zip(thms, blocks):
        ctx.axioms[t] = "closed" if closed else sorted(set(axs))
    ctx.discharged += len(thms)
    return True, {}


def run(ctx):
    ctx.rule = ("seeded generators; eq: real parameter vectors (multiples of scale/16, scales 1e-3..1e3; generic / sparse / zero / "
                "already-feasible / physical), all four types, m=2..5, 1 qubit / qutrit / 2 qubits (qubit x qutrit thorough), both "
                "flags, object- and variable-level; ineq: inputs generated on the operator side (complex Hermitian: generic, degenerate "
                "spectra, PSD, rank-deficient boundary, negative definite, zero, barely infeasible) or as raw parameter vectors; "
                "closures: raw parameter vectors (scales 1e-2..10), 1 qubit / qutrit / 2 qubits / qubit x qutrit states, every (own flag, requested flag) pair, "
                "non-trivial = the requested flag differs from the object's own; "
                "eigclip: the ineq generators restricted to operators of size <= 16, flag False; "
                "non-trivial = eq: non-zero input; ineq / eigclip: complex (not real-symmetric) operators with eigenvalues of both signs; "
                "distinct = distinct (type, system, m, flag, seed)")
    ctx.assumptions = [
        "C04: inequality projections are judged by the verified certificate on the operators produced by the implementation's own "
        "vec->density / vecs->matrices / HS->Choi conversions (their correctness and isometry are C02's subject; the isometry is "
        "re-checked numerically per case)",
        "C04: certificate slack eps = 1e-10*s + 100*atol, delta = eps*s (s = Frobenius norm of the operator, atol = quara Settings atol)",
        "C04: all scales run under quara's default settings (atol 1e-13); only after a reported truncate_hs ValueError the case is re-run under Settings.set_atol(1e-14*scale)",
    ]
    # flow.standard_run with this property's own translator tie (flow.regen_check is bound to gen/py2coq.py)
    import runner
    ok, info = runner.check_props(ctx)
    ok2, info2 = regen_closures(ctx)
    if not ok2:
        ok, info = False, info2
        ctx.note("regenerated closure-factory obligations (coq/gen/C04_Equiv.v) not discharged: %s" % str(info2)[:400])
        # the tie is broken: widen the sweep of the sub-check that exercises the translated functions to find a concrete failing input
        ctx.c04_tie_broken = True
    if not ok:
        ctx.discharged = min(ctx.discharged, ctx.obligations - 1)
    for name, fn in SUBS:
        if ctx.only is None or name in ctx.only:
            fn(ctx)
    if not ok and not ctx.violations:
        ctx.violation("theorems", "Props/C04.v + coq/gen/C04_Equiv.v", "theorem-broken:%s" % info.get("theorem"),
                      "theorem %s no longer checks: %s" % (info.get("theorem"), info.get("error", "")[-400:]),
                      {"theorem": info.get("theorem"), "error": info.get("error")}, no_input=True)
    elif not ok:
        ctx.note("theorem obligations not discharged: %s" % info)


def replay(ctx, doc):
    flow.standard_replay(ctx, doc, FNS)
