"""C20 — experiments and tomographies accept exactly the well-formed schedules.

Model: coq/theories/Model/C20_Schedule.v (executed through Exec/C20_ops.v) — the code WITH the two repairs proposed by this
property (fixes/c20-noniterable-schedule.diff, fixes/c20-qmpt-schedule-length.diff).  The property theorems of Props/C20.v
are about this model: it accepts exactly the well-formed schedule lists and rejects everything else with the item / order
error (C20_accepted_or_item_or_order_error); every tomography class accepts exactly its documented shape
(C20_tomo_accepts_iff_shape).  A violation is reported when the IMPLEMENTATION differs from this model (Experiment: class of
the outcome; tomography classes: accepted or not).  When it differs, the model of the code as it was BEFORE the repairs
(Model/C20_PreFix.v, ops c20.validate0 / c20.tomo0) is consulted on that one input: if the implementation behaves exactly
like the old code, the violation gets the specific signature of the recorded defect (findings C20-2 / C20-1).
Translator tie (regen_validators): gen/c20_py2coq.py + coq/gen/C20_Equiv.v re-prove on every run that the anchored code,
regenerated from the current source, agrees with the model: _validate_schedule_item, _validate_schedule_order, _validate_schedules
(loop + try/except), Experiment.__init__, the five setters, _validate_schedule_index, calc_prob_dist (skeleton),
_validate_schedules_str, the four class guards and the schedule prologue ("all" expansion, Experiment(...), guard) of the four
tomography constructors.  When the tie is broken the sub-checks run with widened sweeps (ctx.boost) to find a failing input."""
import collections
import itertools
import json
import re

import numpy as np

from common import flow

LEVEL = "proof"
KINDS = ["state", "povm", "gate", "mprocess"]
SETTER = {"state": "states", "povm": "povms", "gate": "gates", "mprocess": "mprocesses"}

# ---------------------------------------------------------------------------------------------- quara objects (once)
_POOL = None


def pool():
    """small real 1-qubit objects, unequal outcome counts (POVM 2/3/2 outcomes, MProcess 2/3/2 outcomes)"""
    global _POOL
    if _POOL is not None:
        return _POOL
    from quara.objects.composite_system_typical import generate_composite_system
    from quara.objects.state_typical import generate_state_from_name
    from quara.objects.povm_typical import generate_povm_from_name
    from quara.objects.gate_typical import generate_gate_from_gate_name
    from quara.objects.mprocess_typical import generate_mprocess_from_name
    from quara.objects.povm import Povm
    from quara.objects.mprocess import MProcess
    c = generate_composite_system("qubit", 1)
    B = [(b.toarray() if hasattr(b, "toarray") else np.array(b)) for b in c.basis().basis]
    P0 = np.diag([1.0, 0.0]).astype(complex); P1 = np.diag([0.0, 1.0]).astype(complex); I2 = np.eye(2, dtype=complex)
    vecs = [np.array([np.trace(b.conj().T @ E).real for b in B]) for E in (0.5 * P0, 0.5 * P1, 0.5 * I2)]
    povm3 = Povm(c, vecs)
    hss = [np.array([[np.trace(a.conj().T @ K @ b @ K.conj().T).real for b in B] for a in B])
           for K in (P0 / np.sqrt(2), P1 / np.sqrt(2), I2 / np.sqrt(2))]
    mp3 = MProcess(c, hss)
    _POOL = {
        "c_sys": c,
        "state": [generate_state_from_name(c, n) for n in ("z0", "x0", "y0", "a")],
        "povm": [generate_povm_from_name("x", c), povm3, generate_povm_from_name("z", c), generate_povm_from_name("y", c)],
        "gate": [generate_gate_from_gate_name(n, c) for n in ("x", "hadamard", "phase", "x90")],
        "mprocess": [generate_mprocess_from_name(c, "x-type1"), mp3, generate_mprocess_from_name(c, "z-type1"),
                     generate_mprocess_from_name(c, "y-type1")],
        "outcomes": {"povm": [2, 3, 2, 2], "mprocess": [2, 3, 2, 2]},
    }
    return _POOL


def lists_of(masks):
    """masks: [states, povms, gates, mprocesses], entries 1 (object) / 0 (None placeholder) -> fresh python lists"""
    p = pool()
    return {k: [p[k][i] if bit else None for i, bit in enumerate(mask)] for k, mask in zip(KINDS, masks)}


def exp_kwargs(masks):
    ls = lists_of(masks)
    return dict(states=ls["state"], povms=ls["povm"], gates=ls["gate"], mprocesses=ls["mprocess"])


# ---------------------------------------------------------------------------------------------- value codec
class _StrSub(str):
    pass


class _IntSub(int):
    pass


_NT = collections.namedtuple("_NT", ["name", "index"])
OTHERS = {
    "float0": lambda: 0.0, "float1": lambda: 1.0, "list_state_0": lambda: ["state", 0], "npint0": lambda: np.int64(0),
    "strsub_state": lambda: _StrSub("state"), "intsub0": lambda: _IntSub(0), "namedtuple_state_0": lambda: _NT("state", 0),
    "dict": lambda: {}, "bytes_state": lambda: b"state", "list0": lambda: [0],
    "npbool1": lambda: np.bool_(True), "npstr_state": lambda: np.str_("state"), "npint1": lambda: np.int32(1),
}


def to_py(spec):
    """JSON spec -> python value: null, bool, int, str as themselves; JSON list = TUPLE; {"o": name} = one of OTHERS"""
    if spec is None or isinstance(spec, (bool, int, str)):
        return spec
    if isinstance(spec, list):
        return tuple(to_py(x) for x in spec)
    if isinstance(spec, dict) and "o" in spec:
        return OTHERS[spec["o"]]()
    raise AssertionError("bad value spec %r" % (spec,))


def enc(v):
    """the abstraction function: python value -> model value, by EXACT type (what  type(x) != T  observes)"""
    t = type(v)
    if v is None:
        return [0]
    if t is str:
        return [1, len(v)] + [ord(ch) for ch in v]
    if t is int:
        return [2, v]
    if t is bool:
        return [3, int(v)]
    if t is tuple:
        out = [5, len(v)]
        for x in v:
            out += enc(x)
        return out
    return [4]


NONITER = {"none": lambda: None, "int": lambda: 7, "float": lambda: 1.5, "object": lambda: object()}


def sched_items(spec):
    """schedule spec -> list of item specs, or None when the schedule is not iterable.
    spec: JSON list of item specs (a python list) | {"tuple": [...]} | {"str": "ab"} | {"noniter": name}"""
    if isinstance(spec, list):
        return spec
    if "tuple" in spec:
        return spec["tuple"]
    if "str" in spec:
        return list(spec["str"])
    if "noniter" in spec:
        return None
    raise AssertionError("bad schedule spec %r" % (spec,))


def sched_py(spec):
    if isinstance(spec, list):
        return [to_py(x) for x in spec]
    if "tuple" in spec:
        return tuple(to_py(x) for x in spec["tuple"])
    if "str" in spec:
        return spec["str"]
    return NONITER[spec["noniter"]]()


class Alpha:
    """item alphabet of one model request (distinct item specs)"""

    def __init__(self, specs=()):
        self.specs, self.index, self.py = [], {}, []
        for s in specs:
            self.add(s)

    def add(self, spec):
        k = json.dumps(spec, sort_keys=True)
        if k not in self.index:
            self.index[k] = len(self.specs)
            self.specs.append(spec)
            self.py.append(to_py(spec))
        return self.index[k]

    def encode(self):
        out = [len(self.specs)]
        for v in self.py:
            out += enc(v)
        return out

    def sched(self, spec):
        items = sched_items(spec)
        if items is None:
            return [-1]
        return [len(items)] + [self.add(x) for x in items]

    def slist(self, specs):
        out = [len(specs)]
        for s in specs:
            out += self.sched(s)
        return out


def enc_masks(masks):
    out = []
    for m in masks:
        out += [len(m)] + [int(b) for b in m]
    return out


def unpack(p):
    p = int(p)
    cls = p & 7; p >>= 3
    detail = p & 7; p >>= 3
    flag = p & 1; p >>= 1
    return cls, detail, flag, p % 4096, p // 4096


CLS = {0: "ok", 1: "item", 2: "order", 3: "unbound", 4: "guard-value", 5: "guard-index", 6: "str-value"}
EXC = {1: "TypeError", 2: "ValueError", 3: "IndexError", 4: "schedule-not-iterable"}
REASON = {1: "too-short", 2: "first-not-state", 3: "last-not-measurement", 4: "two-states", 5: "two-povms"}
RE_ITEM_I = re.compile(r"schedules\[(\d+)\]")
RE_ITEM_J = re.compile(r"\n(\d+): ")
RE_ORDER_I = re.compile(r"Invalid Schedule: \[(\d+)\]")


def classify_exc(ex):
    """exception -> (class, i, j); positions only when the message still has the upstream format (else None)"""
    from quara.qcircuit.experiment import QuaraScheduleItemError, QuaraScheduleOrderError
    msg = ex.args[0] if ex.args and isinstance(ex.args[0], str) else ""
    if isinstance(ex, QuaraScheduleItemError):
        mi, mj = RE_ITEM_I.search(msg), RE_ITEM_J.search(msg)
        return "item", (int(mi.group(1)) if mi else None), (int(mj.group(1)) if mj else None)
    if isinstance(ex, QuaraScheduleOrderError):
        mi = RE_ORDER_I.search(msg)
        return "order", (int(mi.group(1)) if mi else None), None
    if isinstance(ex, UnboundLocalError):
        return "unbound", None, None
    return "other:" + type(ex).__name__, None, None


def judge_experiment(ctx, sub, site, impl, mod, replay, prefix=None):
    """impl: (class, i, j); mod: unpacked result of the (repaired) model. Reports a violation iff the implementation's
    outcome class differs from the model's.  prefix: thunk -> unpacked verdict of the model of the code BEFORE the repair
    (only evaluated on a disagreement, to recognise the recorded defect C20-2)."""
    want = CLS[mod[0]]
    icls = impl[0]
    if icls == want:
        if icls in ("item", "order") and mod[1] != 4:
            if (impl[1] is not None and impl[1] != mod[3]) or (icls == "item" and impl[2] is not None and impl[2] != mod[4]):
                ctx.pos_mismatch += 1
                ctx.note_once("error position in the message differs from the model (not part of the property): impl %s model i=%d j=%d; %s"
                              % (impl, mod[3], mod[4], json.dumps(replay)[:200]))
        return True
    if icls == "unbound" and prefix is not None:
        old = prefix()
        if old is not None and CLS[old[0]] == "unbound":
            # exactly the inputs of theorem C20_before_fix_unbound_iff (finding C20-2)
            ctx.violation(sub, "Experiment._validate_schedules", "non-iterable-first-schedule:UnboundLocalError",
                          "a non-iterable value as FIRST schedule is rejected with UnboundLocalError (the except-handler formats "
                          "the unbound loop variables j, item) instead of QuaraScheduleItemError; the implementation behaves like "
                          "the code before fix c20-noniterable-schedule", replay)
            return False
    if icls == "ok":
        sig = "accepts-malformed"
        what = "implementation ACCEPTS a schedule list the property rejects (spec: %s, %s)" % (want, detail_text(mod))
    elif want == "ok":
        sig = "rejects-well-formed"
        what = "implementation rejects (%s) a schedule list in which every schedule is well formed" % icls
    else:
        sig = "error-kind"
        what = "rejected with %s, the property names %s (%s)" % (icls, want, detail_text(mod))
    ctx.violation(sub, site, sig, what + " :: " + json.dumps(replay)[:300], replay)
    return False


def prefix_verdict(ctx, masks, scheds):
    """verdict of the model of the code BEFORE fix c20-noniterable-schedule for one schedule list (JSON specs)"""
    alpha = Alpha()
    body = alpha.slist(scheds)
    vals = ctx.get_model().call("c20.validate0", enc_masks(masks) + alpha.encode() + [1] + body)
    return unpack(vals[0])


def detail_text(mod):
    c = CLS[mod[0]]
    if c == "item" and mod[1] == 4:
        return "schedules[%d] is not iterable" % mod[3]
    if c == "item":
        return "schedules[%d] item %d raises %s" % (mod[3], mod[4], EXC.get(mod[1]))
    if c == "order":
        return "schedules[%d] violates %s" % (mod[3], REASON.get(mod[1]))
    return c


def label_of(mod):
    c = CLS[mod[0]]
    if c == "item":
        return "item-" + EXC.get(mod[1], "?")
    if c == "order":
        return "order-" + REASON.get(mod[1], "?")
    return c


def _q(ctx):
    """quick-tier sizes — unless the translator tie is broken (ctx.boost): then every sub-check except the big `schedule`
    sweep runs with its thorough-tier sizes, to find a concrete failing input for the behaviour change"""
    return ctx.quick and not getattr(ctx, "boost", False)


def _n(ctx, quick, thorough):
    return quick if _q(ctx) else thorough


def prep(ctx):
    if not hasattr(ctx, "pos_mismatch"):
        ctx.pos_mismatch = 0
        ctx._once = set()

        def note_once(s, _ctx=ctx):
            k = s[:60]
            if k not in _ctx._once:
                _ctx._once.add(k)
                _ctx.note(s)
        ctx.note_once = note_once


# ---------------------------------------------------------------------------------------------- alphabets
def wt(idx):
    return [[k, i] for k in KINDS for i in idx]


MALFORMED = [
    None, "state", 0, {"o": "list_state_0"}, {"o": "namedtuple_state_0"}, {"o": "dict"},            # not a tuple -> TypeError
    [], ["state"], ["state", 0, 0], ["povm", 0, None],                                            # wrong arity -> ValueError
    [0, "state"], [None, 0], [["state"], 0], [True, 0], [{"o": "strsub_state"}, 0], [{"o": "bytes_state"}, 0],   # name not str
    ["state", "0"], ["state", {"o": "float0"}], ["state", True], ["povm", False], ["gate", None], ["mprocess", {"o": "npint0"}],
    ["state", {"o": "intsub0"}], ["povm", [0]], ["gate", {"o": "list0"}],                        # index not int
    ["povm", {"o": "npbool1"}], ["povm", {"o": "npint1"}], [{"o": "npstr_state"}, 0],           # numpy scalars: not the exact python types
    ["State", 0], ["", 0], ["states", 0], ["POVM", 0], ["measurement", 0], ["mprocess ", 0], ["gat", 0],    # unknown kind
    ["state", 10 ** 30], ["povm", -10 ** 30], ["gate", 4], ["mprocess", 4],                      # far out of range
]
ALPHABETS = {
    "full": wt([-1, 0, 1, 2, 3]) + MALFORMED,
    "medium": wt([0, 1, 2]) + [None, ["state"], ["povm", True], ["State", 0], ["gate", -1]],
    "compact": wt([0, 1]) + [["povm", True], ["state", 0, 0], ["Gate", 0]],
    "tiny": [["state", 0], ["state", 1], ["povm", 0], ["povm", 1], ["gate", 0], ["mprocess", 0], ["mprocess", 1], ["povm", True]],
    # only items that are in range under list sizes (>=1, >=2, >=2, >=2): every rejection is an ORDER error
    "inrange": [["state", 0], ["povm", 0], ["povm", 1], ["gate", 0], ["gate", 1], ["mprocess", 0], ["mprocess", 1]],
}


def all_size_masks(rng, sizes=(0, 1, 2), none_prob=0.3):
    """every size configuration; each entry independently a None placeholder with probability none_prob"""
    out = []
    for tup in itertools.product(sizes, repeat=4):
        out.append([[0 if rng.random() < none_prob else 1 for _ in range(n)] for n in tup])
    return out


# ---------------------------------------------------------------------------------------------- sub: items
def chk_items(ctx, case):
    """Experiment._validate_schedule_item(item[, objdict]) vs model validate_item: exception class per item"""
    prep(ctx)
    from quara.qcircuit.experiment import Experiment
    m = ctx.get_model()
    masks = case["masks"]
    omasks = case.get("objdict_masks")
    specs = [case["item"]] if "item" in case else ALPHABETS["full"]
    try:
        e = Experiment(schedules=[], **exp_kwargs(masks))
    except Exception as ex:
        ctx.count("items", key=("ctor", json.dumps(masks)), label="ctor-rejected", nontrivial=True)
        ctx.violation("items", "Experiment.__init__", "rejects-valid-object-lists",
                      "Experiment(schedules=[], <lists of objects / None placeholders of sizes %s>) raised %s: %s"
                      % ([len(x) for x in masks], classify_exc(ex)[0], str(ex)[:120]), {"masks": masks})
        return
    fn = getattr(e, "_validate_schedule_item", None)
    if fn is None:
        ctx.note_once("Experiment._validate_schedule_item no longer exists: item-level comparison skipped")
        return
    if omasks is not None:
        import inspect
        try:
            has_objdict = "objdict" in inspect.signature(fn).parameters
        except (TypeError, ValueError):
            has_objdict = False
        if not has_objdict:
            ctx.note_once("Experiment._validate_schedule_item has no objdict parameter any more: objdict comparison skipped")
            return
    eff = omasks if omasks is not None else masks
    a = Alpha(specs)
    vals = [int(v) for v in m.call("c20.items", enc_masks(eff) + a.encode())]
    objdict = None
    if omasks is not None:
        ls = lists_of(omasks)
        objdict = dict(state=ls["state"], povm=ls["povm"], gate=ls["gate"], mprocess=ls["mprocess"])
    for n, spec in enumerate(specs):
        code = vals[3 * n]
        want = "ok" if code == 0 else EXC[code]
        try:
            if objdict is None:
                fn(a.py[n])
            else:
                fn(a.py[n], objdict=objdict)
            got = "ok"
        except (TypeError, ValueError, IndexError) as ex:
            got = type(ex).__name__
        ctx.count("items", key=(json.dumps(masks), json.dumps(omasks), json.dumps(spec)), label=want,
                  nontrivial=True)
        if got != want:
            rep = {"masks": masks, "objdict_masks": omasks, "item": spec}
            if (got == "ok") != (want == "ok"):
                sig = "accepts-malformed-item" if got == "ok" else "rejects-well-formed-item"
            else:
                sig = "item-exception-class"
            ctx.violation("items", "Experiment._validate_schedule_item", sig,
                          "item %s under list sizes %s: implementation %s, model/spec %s" % (json.dumps(spec), [len(x) for x in eff], got, want), rep)


def sub_items(ctx):
    rng = ctx.rng
    cases = []
    for masks in all_size_masks(rng, sizes=(0, 1, 2, 3) if not _q(ctx) else (0, 1, 3)):
        cases.append({"masks": masks})
    # objdict path: the lists passed in objdict must be the ones consulted, not the experiment's own
    sizes = [(0, 0, 0, 0), (1, 1, 1, 1), (2, 0, 1, 3), (3, 2, 0, 0), (1, 3, 2, 1), (0, 1, 0, 2)]
    for sa in sizes:
        for sb in sizes:
            if sa != sb:
                cases.append({"masks": [[1] * n for n in sa], "objdict_masks": [[1] * n for n in sb]})
    ctx.sample("items", cases[5])
    ctx.run_cases("items", chk_items, cases)


# ---------------------------------------------------------------------------------------------- sub: schedule / lists
def run_validate_batch(ctx, sub, masks, alpha, lists_idx, lists_py_fn, replay_fn):
    """lists_idx: list of schedule lists, each schedule = [-1] or [n, a1..an] flattened per list (model side);
    lists_py_fn(n) -> python schedules argument; replay_fn(n) -> JSON replay case (must carry "lists": [schedule list])"""
    from quara.qcircuit.experiment import Experiment
    m = ctx.get_model()
    head = enc_masks(masks) + alpha.encode()
    kw = exp_kwargs(masks)
    CH = 4000
    mkey = json.dumps(masks)
    for off in range(0, len(lists_idx), CH):
        chunk = lists_idx[off:off + CH]
        zs = list(head) + [len(chunk)]
        for l in chunk:
            zs += l
        vals = m.call("c20.validate", zs)
        for n, v in enumerate(vals):
            mod = unpack(v)
            sched = lists_py_fn(off + n)
            try:
                Experiment(schedules=sched, **kw)
                impl = ("ok", None, None)
            except Exception as ex:
                impl = classify_exc(ex)
            ctx.count(sub, key=(mkey, tuple(chunk[n])), label=label_of(mod), nontrivial=len(chunk[n]) >= 4)
            if impl[0] != CLS[mod[0]] or impl[0] in ("item", "order"):
                rep = replay_fn(off + n)
                judge_experiment(ctx, sub, "Experiment._validate_schedules", impl, mod, rep,
                                 prefix=lambda rep=rep: prefix_verdict(ctx, masks, rep["lists"][0]))


def chk_schedule(ctx, case):
    """single schedules: every word of length case['len'] over the named alphabet (or the explicit case['lists'])"""
    prep(ctx)
    masks = case["masks"]
    if "lists" in case:
        alpha = Alpha()
        lists_idx = [alpha.slist(l) for l in case["lists"]]
        run_validate_batch(ctx, case.get("sub", "schedule"), masks, alpha, lists_idx,
                           lambda n: [sched_py(s) for s in case["lists"][n]],
                           lambda n: {"masks": masks, "lists": [case["lists"][n]], "sub": case.get("sub", "schedule")})
        return
    specs = ALPHABETS[case["alpha"]]
    alpha = Alpha(specs)
    L = case["len"]
    words = list(itertools.product(range(len(specs)), repeat=L))
    lists_idx = [[1, L] + list(w) for w in words]
    py = alpha.py
    run_validate_batch(ctx, "schedule", masks, alpha, lists_idx,
                       lambda n: [[py[a] for a in words[n]]],
                       lambda n: {"masks": masks, "lists": [[[specs[a] for a in words[n]]]]})


def sub_schedule(ctx):
    rng = ctx.rng
    cfgs = all_size_masks(rng)                                   # 81 size configurations, random None placeholders
    big = [[[1], [1, 1], [1, 1], [1, 1]], [[1], [1], [1], [1]], [[0], [1, 0], [1], []], [[1, 1], [1, 1], [], [1, 0]],
           [[1], [], [1, 1], [1, 1]], [[], [1], [1], [1]], [[1], [1, 1], [], []], [[0, 1], [0], [0, 0], [0]]]
    cases = []
    for masks in cfgs:
        for L in (0, 1, 2):
            cases.append({"masks": masks, "alpha": "full" if (sum(map(len, masks)) % 3 == 0 or not ctx.quick) else "medium", "len": L})
        cases.append({"masks": masks, "alpha": "compact", "len": 3})
        if not ctx.quick:
            cases.append({"masks": masks, "alpha": "medium", "len": 3})
            cases.append({"masks": masks, "alpha": "compact", "len": 4})
    for masks in big:
        if ctx.quick:
            cases.append({"masks": masks, "alpha": "compact", "len": 4})
        else:
            cases.append({"masks": masks, "alpha": "tiny", "len": 5})
            cases.append({"masks": masks, "alpha": "medium", "len": 4})
    for masks in big[:ctx.n(2, 4)]:
        cases.append({"masks": masks, "alpha": "tiny", "len": ctx.n(5, 6)})
    if not ctx.quick:
        for masks in big[:2]:
            cases.append({"masks": masks, "alpha": "compact", "len": 5})
    # order rules in isolation: in-range items only (accepted / order errors), longer words
    for masks in ([[1], [1, 1], [1, 1], [1, 1]], [[0], [1, 0, 1], [0, 0], [1, 1, 1]]):
        for L in range(2, _n(ctx, 5, 6) + 1):
            cases.append({"masks": masks, "alpha": "inrange", "len": L})
    if not ctx.quick:
        cases.append({"masks": [[1], [1, 1], [1, 1], [1, 1]], "alpha": "inrange", "len": 7})
    elif getattr(ctx, "boost", False):
        for masks in big:
            cases.append({"masks": masks, "alpha": "medium", "len": 3})
    # LONG schedules (lengths 6..12, beyond the exhaustive word lengths): random well-formed ones and single-item mutations
    masks = [[1], [1, 1], [1, 1], [1, 1]]
    mids = [["gate", 0], ["gate", 1], ["mprocess", 0], ["mprocess", 1]]
    junk = [["state", 0], ["povm", 0], ["povm", 1], ["gate", 2], ["mprocess", -1], None, ["gate", True], ["Gate", 0], ["state", 0, 0]]
    longs = []
    for _ in range(ctx.n(150, 1500)):
        L = rng.randint(6, 12)
        povm_at = rng.choice([None, L - 1]) if rng.random() < 0.8 else rng.randint(1, L - 1)
        sch = [["state", 0]] + [rng.choice(mids) for _ in range(L - 1)]
        if povm_at is not None:
            sch[povm_at] = ["povm", rng.randint(0, 1)]
        longs.append([sch])
        mut = [list(x) if isinstance(x, list) else x for x in sch]
        mut[rng.randint(0, L - 1)] = rng.choice(junk)
        longs.append([mut])
    for off in range(0, len(longs), 500):
        cases.append({"masks": masks, "lists": longs[off:off + 500]})
    ctx.sample("schedule", cases[3])
    ctx.run_cases("schedule", chk_schedule, cases)
    ctx.note("schedule: %d (configuration, alphabet, length) sweeps, every word enumerated" % len(cases))


# pools of whole schedules for list-level enumeration (evaluation order across schedules, i index, stale loop variables)
def sched_pool():
    return [
        [["state", 0], ["povm", 0]],                                   # well formed (when sizes allow)
        [["state", 0], ["gate", 0], ["mprocess", 0], ["povm", 1]],
        [["state", 0], ["mprocess", 0]],
        {"tuple": [["state", 0], ["povm", 0]]},                        # a tuple is a fine schedule container
        [["state", 0], ["povm", 2]],                                   # item error (index) at j=1
        [["state", 0], ["povm", True], ["povm", 0]],                   # item error (type) at j=1
        [None, ["povm", 0]],                                           # item error at j=0
        [["povm", 0], ["state", 0]],                                   # order error
        [["state", 0], ["povm", 0], ["povm", 0]],                      # order error (two povms)
        [["state", 0]],                                                # too short
        [],                                                            # empty schedule
        {"str": "ab"},                                                 # iterable of non-tuples
        {"noniter": "none"}, {"noniter": "int"},                       # not iterable
    ]


def chk_lists(ctx, case):
    prep(ctx)
    masks = case["masks"]
    if "lists" in case:
        return chk_schedule(ctx, dict(case, sub="lists"))
    pool_ = sched_pool()
    L = case["len"]
    combos = list(itertools.product(range(len(pool_)), repeat=L))
    alpha = Alpha()
    enc_s = [alpha.sched(s) for s in pool_]
    lists_idx = []
    for cb in combos:
        l = [L]
        for a in cb:
            l += enc_s[a]
        lists_idx.append(l)
    run_validate_batch(ctx, "lists", masks, alpha, lists_idx,
                       lambda n: [sched_py(pool_[a]) for a in combos[n]],
                       lambda n: {"masks": masks, "lists": [[pool_[a] for a in combos[n]]], "sub": "lists"})


def sub_lists(ctx):
    cfgs = [[[1], [1, 1], [1], [1]], [[1], [1, 1, 0], [1, 1], [0]], [[1], [1], [], []], [[1, 1], [], [1], [1, 1]], [[], [], [], []]]
    if not _q(ctx):
        cfgs += [[[0], [0, 0], [0], [0]], [[1], [1, 1], [], [1]], [[1], [1, 1, 1], [1], []]]
    cases = [{"masks": m_, "len": L} for m_ in cfgs for L in ((0, 1, 2, 3) if _q(ctx) else (0, 1, 2, 3, 4))]
    if ctx.quick and not _q(ctx):        # boosted quick tier: the length-4 lists only for the first two configurations
        cases = [c_ for c_ in cases if c_["len"] < 4 or c_["masks"] in cfgs[:2]]
    ctx.sample("lists", cases[2])
    ctx.run_cases("lists", chk_lists, cases)


# ---------------------------------------------------------------------------------------------- sub: setters
def chk_setters(ctx, case):
    """constructor, then a sequence of setter assignments; after each: exception class vs spec, and the attribute
    must have been replaced iff the assignment was accepted (identity of the list objects)"""
    prep(ctx)
    if "lists" in case:                      # replay of a constructor-level violation found from here
        return chk_schedule(ctx, dict(case, sub="setters"))
    from quara.qcircuit.experiment import Experiment
    m = ctx.get_model()
    masks, scheds, ops = case["masks"], case["schedules"], case["ops"]
    alpha = Alpha()
    body = alpha.slist(scheds)
    enc_ops = [len(ops)]
    for op in ops:
        if op["set"] == "schedules":
            enc_ops += [4] + alpha.slist(op["value"])
        else:
            enc_ops += [KINDS.index(op["set"])] + [len(op["mask"])] + [int(b) for b in op["mask"]]
    vals = [unpack(v) for v in m.call("c20.setters", enc_masks(masks) + alpha.encode() + body + enc_ops)]
    sched_obj = [sched_py(s) for s in scheds]
    try:
        e = Experiment(schedules=sched_obj, **exp_kwargs(masks))
        impl = ("ok", None, None)
    except Exception as ex:
        impl = classify_exc(ex)
    ctx.count("setters", key=("ctor", json.dumps(case)), label="ctor-" + label_of(vals[0]), nontrivial=False)
    if not judge_experiment(ctx, "setters", "Experiment._validate_schedules", impl, vals[0], {"masks": masks, "lists": [scheds]},
                            prefix=lambda: prefix_verdict(ctx, masks, scheds)):
        return
    if impl[0] != "ok":
        return
    cur_masks = [list(m_) for m_ in masks]
    for n, op in enumerate(ops):
        mod = vals[1 + n]
        name = SETTER.get(op["set"], "schedules")
        site = "Experiment.%s.setter" % name
        before = {a: getattr(e, a) for a in ("states", "povms", "gates", "mprocesses", "schedules")}
        if op["set"] == "schedules":
            newv = [sched_py(s) for s in op["value"]]
        else:
            p = pool()[op["set"]]
            newv = [p[i] if bit else None for i, bit in enumerate(op["mask"])]
        try:
            setattr(e, name, newv)
            impl = ("ok", None, None)
        except Exception as ex:
            impl = classify_exc(ex)
        ctx.count("setters", key=(json.dumps(case), n), label="%s-%s" % (name, label_of(mod)), nontrivial=True)
        rep = dict(case, ops=ops[:n + 1])
        pf = None
        if op["set"] == "schedules":
            pf = lambda cm=[list(m_) for m_ in cur_masks], v=op["value"]: prefix_verdict(ctx, cm, v)
        if not judge_experiment(ctx, "setters", site, impl, mod, rep, prefix=pf):
            return
        if impl[0] == "ok" and op["set"] != "schedules":
            cur_masks[KINDS.index(op["set"])] = list(op["mask"])
        after = {a: getattr(e, a) for a in before}
        for a in before:
            expect_new = (a == name and impl[0] == "ok")
            # compared by CONTENT (element identity): a getter that hands out a copy of the stored list is not a violation
            if expect_new and not same_list(after[a], newv):
                ctx.violation("setters", site, "accepted-but-not-assigned", "%s accepted the new value but the attribute was not replaced" % site, rep)
                return
            if not expect_new and not same_list(after[a], before[a]):
                ctx.violation("setters", site, "state-changed-on-%s" % ("reject" if impl[0] != "ok" else "other-attribute"),
                              "attribute %s changed although %s" % (a, "the assignment was rejected" if impl[0] != "ok" else "another attribute was assigned"), rep)
                return
        if n == len(ops) - 1 or impl[0] == "ok":
            if not check_copy(ctx, e, rep):
                return


def same_list(a, b):
    if a is b:
        return True
    try:
        return len(a) == len(b) and all((x is y) or (type(x) in (list, tuple, str) and x == y) for x, y in zip(a, b))
    except TypeError:
        return False


def check_copy(ctx, e, rep):
    """Experiment.copy() of a validated experiment: goes through the validating constructor, so it must be accepted, and must
    hold the same objects and schedules (in lists of its own — only noted)"""
    try:
        c = e.copy()
    except Exception as ex:
        ctx.violation("setters", "Experiment.copy", "copy-rejects-valid-experiment",
                      "copy() of an accepted experiment raised %s" % classify_exc(ex)[0], rep)
        return False
    ctx.count("setters", key=("copy", json.dumps(rep)), label="copy", nontrivial=True)
    for a in ("states", "povms", "gates", "mprocesses", "schedules"):
        if not same_list(getattr(c, a), getattr(e, a)):
            ctx.violation("setters", "Experiment.copy", "copy-differs", "copy().%s differs from the original's" % a, rep)
            return False
        if getattr(c, a) is getattr(e, a):
            ctx.note_once("Experiment.copy() shares the list object of .%s with the original (aliasing; outside the property)" % a)
    return True


def gen_setter_cases(ctx):
    rng = ctx.rng
    good = [[["state", 0], ["povm", 0]], [["state", 0], ["gate", 1], ["povm", 1]], [["state", 0], ["mprocess", 0]],
            [["state", 0], ["mprocess", 1], ["gate", 0], ["povm", 2]], [["state", 0], ["gate", 0], ["gate", 0], ["mprocess", 2]]]
    bad = [[["state", 1], ["povm", 0]], [["povm", 0], ["state", 0]], [["state", 0], ["povm", True]], [["state", 0]],
           [["state", 0], ["povm", 0], ["povm", 1]], {"noniter": "none"}, [["state", 0], ["gate", 0]], [["state", 0], ["povm", 3]]]
    cases = []

    def rmask(lo, hi):
        return [0 if rng.random() < 0.25 else 1 for _ in range(rng.randint(lo, hi))]

    def rop():
        r = rng.random()
        if r < 0.3:
            k = rng.randint(0, 3)
            v = [rng.choice(good) for _ in range(k)]
            if rng.random() < 0.4:
                v.insert(rng.randint(0, len(v)), rng.choice(bad))
            return {"set": "schedules", "value": v}
        kind = rng.choice(KINDS)
        return {"set": kind, "mask": rmask(0, 4) if kind != "state" else rmask(0, 2)}
    # exhaustive: every single setter with list lengths 0..3 from three accepted starting points
    starts = [([[1], [1, 1], [1, 1], [1]], [good[0], good[1]]), ([[1], [1, 1, 1], [1], [1, 1, 1]], [good[3], good[4]]),
              ([[0], [0], [], [0, 1]], [good[2]]), ([[1], [1], [1], [1]], [])]
    for masks, scheds in starts:
        for kind in KINDS:
            for n in range(0, 4):
                cases.append({"masks": masks, "schedules": scheds, "ops": [{"set": kind, "mask": [1] * n}]})
        for s in good + bad:
            cases.append({"masks": masks, "schedules": scheds, "ops": [{"set": "schedules", "value": [good[0], s]}]})
    # exhaustive PAIRS of list setters (size relations between different lists, state after an accepted / rejected first step)
    for masks, scheds in starts[:2]:
        for k1 in KINDS:
            for n1 in range(0, 4):
                for k2 in KINDS:
                    for n2 in range(0, 4):
                        cases.append({"masks": masks, "schedules": scheds,
                                      "ops": [{"set": k1, "mask": [1] * n1}, {"set": k2, "mask": [1] * n2}]})
    for _ in range(400 if _q(ctx) else (1500 if ctx.quick else 4000)):
        masks = [rmask(1, 1), rmask(1, 3), rmask(0, 3), rmask(0, 3)]
        # start from schedules that are (mostly) accepted under masks
        cand = [s for s in good if all(isinstance(it, list) and it[1] < len(masks[KINDS.index(it[0])]) for it in s)]
        scheds = [rng.choice(cand) for _ in range(rng.randint(0, 3))] if cand else []
        if rng.random() < 0.1:
            scheds = scheds + [rng.choice(bad)]
        cases.append({"masks": masks, "schedules": scheds, "ops": [rop() for _ in range(rng.randint(1, 6))]})
    return cases


def sub_setters(ctx):
    cases = gen_setter_cases(ctx)
    ctx.sample("setters", cases[-1])
    ctx.run_cases("setters", chk_setters, cases)


# ---------------------------------------------------------------------------------------------- sub: exec
def chk_exec(ctx, case):
    """calc_prob_dist on accepted experiments: index validation, None placeholders -> ValueError, and every accepted
    schedule that ends in its only POVM executes and yields a normalised distribution of the right size"""
    prep(ctx)
    if "lists" in case:                      # replay of a constructor-level violation found from here
        return chk_schedule(ctx, dict(case, sub="exec"))
    from quara.qcircuit.experiment import Experiment
    m = ctx.get_model()
    masks, scheds, queries = case["masks"], case["schedules"], case["queries"]
    alpha = Alpha()
    body = alpha.slist(scheds)
    q = [len(queries)]
    for s in queries:
        q += enc(to_py(s))
    vals = [int(v) for v in m.call("c20.calc", enc_masks(masks) + alpha.encode() + body + q)]
    ctor = unpack(vals[0])
    try:
        e = Experiment(schedules=[sched_py(s) for s in scheds], **exp_kwargs(masks))
        impl = ("ok", None, None)
    except Exception as ex:
        impl = classify_exc(ex)
    if not judge_experiment(ctx, "exec", "Experiment._validate_schedules", impl, ctor, {"masks": masks, "lists": [scheds]},
                            prefix=lambda: prefix_verdict(ctx, masks, scheds)):
        return
    if impl[0] != "ok" or ctor[0] != 0:
        ctx.count("exec", key=json.dumps(case), label="not-constructed", nontrivial=False)
        return
    outc = pool()["outcomes"]
    attrs0 = {a_: list(getattr(e, a_)) for a_ in ("states", "povms", "gates", "mprocesses", "schedules")}
    for n, qs in enumerate(queries):
        code, a, b = vals[1 + 3 * n: 4 + 3 * n]
        arg = to_py(qs)
        rep = dict(case, queries=[qs])
        try:
            ps = e.calc_prob_dist(arg)
            got = "ok"
        except Exception as ex:
            ps, got = None, type(ex).__name__
        want = {0: "ok", 1: "ValueError", 2: "IndexError", 3: "TypeError", 4: "unspecified"}[code]
        runnable = (code == 0 and a == 1)
        ctx.count("exec", key=(json.dumps(case), n), label=("run-povm-last" if runnable else "run-other" if code == 0 else want),
                  nontrivial=(code in (0, 1)))
        if code == 0 and not runnable:
            continue            # schedule not ending in a POVM: outside the property's execution claim
        if got != want:
            sig = {"ok": "does-not-execute", "ValueError": "none-placeholder-not-rejected"}.get(want, "schedule-index-check")
            ctx.violation("exec", "Experiment.calc_prob_dist", sig, "calc_prob_dist(%s): implementation %s, expected %s" % (json.dumps(qs), got, want), rep)
            continue
        if runnable:
            items = sched_items(scheds[arg])
            size = 1
            for it in items:
                if it[0] in outc:
                    size *= outc[it[0]][it[1]]
            ps = np.asarray(ps, dtype=float).ravel()
            if ps.size != size or abs(ps.sum() - 1.0) > 1e-9 or ps.min() < -1e-9:
                ctx.violation("exec", "Experiment.calc_prob_dist", "not-normalised",
                              "schedule %s: %d probabilities (expected %d), sum %.12g, min %.3g" % (json.dumps(scheds[arg]), ps.size, size, ps.sum(), ps.min()), rep)
                continue
            # history: the experiment is re-used — a second call must execute again and give the same distribution
            try:
                ps2 = np.asarray(e.calc_prob_dist(arg), dtype=float).ravel()
                again = "ok" if (ps2.shape == ps.shape and np.allclose(ps2, ps, rtol=0, atol=1e-12)) else "differs"
            except Exception as ex:
                again = type(ex).__name__
            if again != "ok":
                ctx.violation("exec", "Experiment.calc_prob_dist", "second-call-" + ("differs" if again == "differs" else "does-not-execute"),
                              "calc_prob_dist(%s) called twice on the same experiment: second call %s" % (json.dumps(qs), again), rep)
    # ... and no call (successful or rejected) may change the lists or schedules of the experiment
    for a_ in attrs0:
        if not same_list(getattr(e, a_), attrs0[a_]):
            ctx.violation("exec", "Experiment.calc_prob_dist", "changes-experiment", "attribute %s changed by calc_prob_dist calls" % a_, dict(case))
            break


def sub_exec(ctx):
    rng = ctx.rng
    queries = [0, 1, 2, -1, 5, True, None, "0", {"o": "float0"}, {"o": "npint0"}]
    cases = []
    cfgs = [[[1], [1, 1, 1], [1, 1], [1, 1, 1]], [[0], [1, 1], [1], [1]], [[1], [1, 0, 1], [0, 1], [1, 0]], [[1], [1, 1], [], []],
            [[1], [0], [1], [1]]]
    maxmid = _n(ctx, 2, 3)
    for masks in cfgs:
        mids = [[k, i] for k in ("gate", "mprocess") for i in range(len(masks[KINDS.index(k)]))]
        for L in range(0, maxmid + 1):
            for mid in itertools.product(mids, repeat=L):
                for pv in range(len(masks[1])):
                    s = [["state", 0]] + [list(x) for x in mid] + [["povm", pv]]
                    other = [["state", 0], ["mprocess", 0]] if masks[3] else [["state", 0], ["povm", 0]]
                    cases.append({"masks": masks, "schedules": [s, other], "queries": queries if (L == 1 and pv == 0) else [0, 1]})
    ctx.sample("exec", cases[len(cases) // 2])
    ctx.run_cases("exec", chk_exec, cases)


# ---------------------------------------------------------------------------------------------- sub: tomo
TCLS = ["qst", "povmt", "qpt", "qmpt"]


TOMO_OPTS = [{}, {"on_para_eq_constraint": True, "is_estimation_object": True, "seed_data": 3}]


def tomo_build(cls, ns, np_, schedules, opt=0):
    """opt: index into TOMO_OPTS (non-default constructor options; 3 outcomes instead of 2 for the estimated POVM / MProcess):
    which schedules are accepted must not depend on them"""
    from quara.protocol.qtomography.standard.standard_qst import StandardQst
    from quara.protocol.qtomography.standard.standard_povmt import StandardPovmt
    from quara.protocol.qtomography.standard.standard_qpt import StandardQpt
    from quara.protocol.qtomography.standard.standard_qmpt import StandardQmpt
    p = pool()
    st, pv = list(p["state"][:ns]), [p["povm"][i] for i in (0, 2, 3, 1)][:np_]     # 2-outcome testers first
    kw = dict(TOMO_OPTS[opt])
    nout = 2 if opt == 0 else 3
    if cls == "qst":
        return StandardQst(pv, schedules=schedules, **kw)
    if cls == "povmt":
        return StandardPovmt(st, nout, schedules=schedules, **kw)
    if cls == "qpt":
        return StandardQpt(st, pv, schedules=schedules, **kw)
    return StandardQmpt(st, pv, nout, schedules=schedules, **kw)


TSITE = {"qst": "StandardQst", "povmt": "StandardPovmt", "qpt": "StandardQpt", "qmpt": "StandardQmpt"}


def run_tomo_batch(ctx, cls, ns, np_, alpha, args_enc, arg_py_fn, replay_fn, opt=0):
    m = ctx.get_model()
    CH = 4000
    for off in range(0, len(args_enc), CH):
        chunk = args_enc[off:off + CH]
        head = [TCLS.index(cls), ns, np_] + alpha.encode()
        zs = head + [len(chunk)]
        for a in chunk:
            zs += a
        vals = m.call("c20.tomo", zs)
        for n, v in enumerate(vals):
            mod = unpack(v)
            shape_ok = bool(mod[2])
            mcls = CLS[mod[0]]
            try:
                tomo_build(cls, ns, np_, arg_py_fn(off + n), opt)
                got = "ok"
            except Exception as ex:
                got = classify_exc(ex)[0]
            ctx.count("tomo", key=(cls, ns, np_, opt, tuple(chunk[n])), label="%s-%s%s" % (cls, mcls, "-opts" if opt else ""), nontrivial=len(chunk[n]) >= 5)
            accepted = (got == "ok")
            if (mcls == "ok") != shape_ok:
                # impossible by theorems C20_tomo_accepts_iff_shape / C20_class_shapeb_iff / C20_tomo_all_accepted
                raise AssertionError("model verdict %s contradicts the shape predicate %s: %s" % (mcls, shape_ok, replay_fn(off + n)))
            if accepted == shape_ok:
                if not accepted:
                    exp_cls = {"item": "item", "order": "order", "guard-value": "other:ValueError",
                               "guard-index": "other:IndexError", "str-value": "other:ValueError"}[mcls]
                    if got != exp_cls:
                        ctx.tomo_cls_diff = getattr(ctx, "tomo_cls_diff", 0) + 1
                        ctx.note_once("tomography rejection class differs from the model (not part of the property): %s model %s impl %s %s"
                                      % (cls, mcls, got, json.dumps(replay_fn(off + n))[:160]))
                continue
            rep = replay_fn(off + n)
            if accepted:
                old = unpack(m.call("c20.tomo0", head + [1] + chunk[n])[0])
                if CLS[old[0]] == "ok":
                    # exactly the inputs of theorems C20_qmpt_before_fix_accepts_iff / ..._refuted (finding C20-1)
                    sig = "accepts-longer-schedule:trailing-mprocess-items"
                    what = ("%s constructed with a schedule that is its documented shape FOLLOWED BY further items (the guard only "
                            "looks at positions 0..2); the implementation behaves like the code before fix c20-qmpt-schedule-length" % TSITE[cls])
                else:
                    sig = "accepts-schedule-not-of-class-shape"
                    what = "%s constructed with a schedule list that is not of its documented shape (model: %s)" % (TSITE[cls], mcls)
            else:
                sig = "rejects-schedule-of-class-shape"
                what = "%s raised %s for schedules of its documented shape" % (TSITE[cls], got)
            ctx.violation("tomo", TSITE[cls] + "._validate_schedules", sig, what + " :: " + json.dumps(rep)[:300], rep)


def chk_tomo(ctx, case):
    prep(ctx)
    cls, ns, np_ = case["cls"], case["ns"], case["np"]
    if "args" in case:
        alpha = Alpha()
        args_enc, py = [], []
        for a in case["args"]:
            if "str" in a:
                args_enc.append([0, len(a["str"])] + [ord(ch) for ch in a["str"]]); py.append(a["str"])
            else:
                args_enc.append([1] + alpha.slist(a["lists"])); py.append([sched_py(s) for s in a["lists"]])
        opt = case.get("opt", 0)
        run_tomo_batch(ctx, cls, ns, np_, alpha, args_enc, lambda n: py[n],
                       lambda n: {"cls": cls, "ns": ns, "np": np_, "opt": opt, "args": [case["args"][n]]}, opt=opt)
        return
    specs = ALPHABETS[case["alpha"]]
    alpha = Alpha(specs)
    L = case["len"]
    words = list(itertools.product(range(len(specs)), repeat=L))
    args_enc = [[1, 1, L] + list(w) for w in words]
    run_tomo_batch(ctx, cls, ns, np_, alpha, args_enc, lambda n: [[alpha.py[a] for a in words[n]]],
                   lambda n: {"cls": cls, "ns": ns, "np": np_, "args": [{"lists": [[specs[a] for a in words[n]]]}]})


def sub_tomo(ctx):
    cases = []
    sizes = [(2, 2), (1, 3)] if _q(ctx) else [(2, 2), (1, 3), (3, 1), (1, 1), (3, 4)]
    for cls in TCLS:
        for ns, np_ in sizes:
            for L in (0, 1, 2, 3):
                cases.append({"cls": cls, "ns": ns, "np": np_, "alpha": "compact" if L == 3 else "medium", "len": L})
            boosted = ctx.quick and not _q(ctx)      # quick tier with a broken translator tie: more sizes, same word lengths
            big_words = (not ctx.quick) or (boosted and (ns, np_) == sizes[0])
            cases.append({"cls": cls, "ns": ns, "np": np_, "alpha": "compact" if big_words else "tiny", "len": 4})
            if not ctx.quick:
                cases.append({"cls": cls, "ns": ns, "np": np_, "alpha": "tiny", "len": 5})
            # str arguments and multi-schedule lists
            good = {"qst": [["state", 0], ["povm", 1]], "povmt": [["state", 0], ["povm", 0]],
                    "qpt": [["state", 0], ["gate", 0], ["povm", 1]], "qmpt": [["state", 0], ["mprocess", 0], ["povm", 1]]}[cls]
            pool_ = [good, [["state", 0], ["povm", 0]], [["state", 1], ["povm", 0]], [["state", 0], ["gate", 0], ["povm", 0]],
                     [["state", 0], ["mprocess", 0], ["povm", 0]], [["state", 0], ["mprocess", 0]], [["state", 0], ["mprocess", 0], ["povm", 0], ["mprocess", 0]],
                     [["state", 0], ["gate", 0], ["gate", 0], ["povm", 0]], [["povm", 0], ["state", 0]], [["state", 0], ["povm", 5]], {"noniter": "none"},
                     {"tuple": good}, []]
            args = [{"str": s} for s in ("all", "al", "", "ALL", "all ")]
            for k in (0, 1, 2):
                for cb in itertools.product(range(len(pool_)), repeat=k):
                    args.append({"lists": [pool_[a] for a in cb]})
            cases.append({"cls": cls, "ns": ns, "np": np_, "args": args})
            if (ns, np_) == sizes[0] or not _q(ctx):      # the same arguments with NON-DEFAULT constructor options
                cases.append({"cls": cls, "ns": ns, "np": np_, "args": args, "opt": 1})
    ctx.sample("tomo", cases[3])
    ctx.run_cases("tomo", chk_tomo, cases)


# ---------------------------------------------------------------------------------------------- sub: tomo_exec
def shape_schedules(cls, ns, np_):
    """every schedule of the class's documented shape (the set theorem C20_class_all_complete speaks about), in the order
    the constructors expand "all" """
    if cls == "qst":
        return [[["state", 0], ["povm", j]] for j in range(np_)]
    if cls == "povmt":
        return [[["state", i], ["povm", 0]] for i in range(ns)]
    mid = "gate" if cls == "qpt" else "mprocess"
    return [[["state", i], [mid, 0], ["povm", j]] for i in range(ns) for j in range(np_)]


def class_masks(cls, ns, np_):
    return {"qst": [[0], [1] * np_, [], []], "povmt": [[1] * ns, [0], [], []], "qpt": [[1] * ns, [1] * np_, [0], []],
            "qmpt": [[1] * ns, [1] * np_, [], [0]]}[cls]


def chk_tomo_exec(ctx, case):
    """the Experiment a tomography object holds: "all" expands to exactly the class's schedules; every schedule refers to the
    None placeholder of the estimated object (calc_prob_dist -> ValueError, as the model says); after the placeholder is
    replaced (in place, as generate_empi_dists does, and through the setter) every schedule executes and yields a normalised
    distribution of the right size"""
    prep(ctx)
    cls, ns, np_ = case["cls"], case["ns"], case["np"]
    arg = case["schedules"]
    expected = shape_schedules(cls, ns, np_) if arg == "all" else arg
    site = TSITE[cls] + ".__init__"
    try:
        tomo = tomo_build(cls, ns, np_, "all" if arg == "all" else [sched_py(s) for s in arg])
    except Exception as ex:
        ctx.count("tomo_exec", key=("ctor", json.dumps(case)), label="%s-rejected" % cls, nontrivial=True)
        ctx.violation("tomo_exec", TSITE[cls] + "._validate_schedules", "rejects-schedule-of-class-shape",
                      "%s raised %s for schedules of its documented shape (%s)" % (TSITE[cls], classify_exc(ex)[0], "'all'" if arg == "all" else json.dumps(arg)[:200]), case)
        return
    exp = getattr(tomo, "_experiment", None)
    if exp is None:
        ctx.note_once("tomography objects no longer expose _experiment: tomo_exec skipped")
        return
    got = [[list(it) for it in s] for s in exp.schedules]
    ctx.count("tomo_exec", key=("schedules", json.dumps(case)), label="%s-%s" % (cls, "all" if arg == "all" else "custom"), nontrivial=True)
    if got != expected:
        ctx.violation("tomo_exec", site, "all-expansion" if arg == "all" else "schedules-not-kept",
                      "%s(schedules=%s) holds the schedules %s, expected %s" % (TSITE[cls], "'all'" if arg == "all" else "custom", json.dumps(got)[:200], json.dumps(expected)[:200]), case)
        return
    masks = class_masks(cls, ns, np_)
    m = ctx.get_model()
    alpha = Alpha()
    body = alpha.slist(expected)
    queries = list(range(len(expected)))
    q = [len(queries)]
    for x in queries:
        q += enc(x)
    vals = [int(v) for v in m.call("c20.calc", enc_masks(masks) + alpha.encode() + body + q)]
    if unpack(vals[0])[0] != 0:
        raise AssertionError("model rejects schedules of the class shape: %s" % json.dumps(case))
    p = pool()
    target_kind = {"qst": "state", "povmt": "povm", "qpt": "gate", "qmpt": "mprocess"}[cls]
    true_obj = {"state": p["state"][3], "povm": p["povm"][0], "gate": p["gate"][1], "mprocess": p["mprocess"][0]}[target_kind]
    attr = SETTER[target_kind]
    outc = {"povm": [2, 2, 2, 3], "mprocess": [2]}
    for how in ("none", "inplace", "setter"):
        e = exp.copy()
        if how == "inplace":
            getattr(e, attr)[0] = true_obj
        elif how == "setter":
            setattr(e, attr, [true_obj])
        for n in queries:
            code, a, b = vals[1 + 3 * n: 4 + 3 * n]
            rep = dict(case, how=how, index=n)
            try:
                ps = e.calc_prob_dist(n)
                res = "ok"
            except Exception as ex:
                ps, res = None, type(ex).__name__
            ctx.count("tomo_exec", key=(json.dumps(case), how, n), label="%s-%s" % (cls, how), nontrivial=True)
            if how == "none":
                if code != 1:
                    raise AssertionError("model: a class schedule does not refer to the placeholder: %s" % json.dumps(rep))
                if res != "ValueError":
                    ctx.violation("tomo_exec", "Experiment.calc_prob_dist", "none-placeholder-not-rejected",
                                  "%s: schedule %d refers to the estimated object's None placeholder; calc_prob_dist gave %s, expected ValueError" % (TSITE[cls], n, res), rep)
                continue
            if res != "ok":
                ctx.violation("tomo_exec", "Experiment.calc_prob_dist", "does-not-execute",
                              "%s: accepted schedule %s does not execute after the placeholder was replaced (%s): %s" % (TSITE[cls], json.dumps(expected[n]), how, res), rep)
                continue
            size = 1
            for it in expected[n]:
                if it[0] in outc:
                    size *= (2 if (it[0] == target_kind) else outc[it[0]][it[1]])
            ps = np.asarray(ps, dtype=float).ravel()
            if ps.size != size or abs(ps.sum() - 1.0) > 1e-9 or ps.min() < -1e-9:
                ctx.violation("tomo_exec", "Experiment.calc_prob_dist", "not-normalised",
                              "%s schedule %s (%s): %d probabilities (expected %d), sum %.12g, min %.3g" % (TSITE[cls], json.dumps(expected[n]), how, ps.size, size, ps.sum(), ps.min()), rep)
    tomo_fresh_after_fill(ctx, case, cls, ns, np_, arg, exp, attr, true_obj)


def tomo_fresh_after_fill(ctx, case, cls, ns, np_, arg, exp, attr, true_obj):
    """history across INSTANCES: after the estimated object's placeholder of one tomography object's experiment was filled in
    place, a newly constructed tomography object must again hold a None placeholder (calc_prob_dist -> ValueError)"""
    try:
        getattr(exp, attr)[0] = true_obj
        t2 = tomo_build(cls, ns, np_, "all" if arg == "all" else [sched_py(s) for s in arg])
        e2 = getattr(t2, "_experiment", None)
        if e2 is None:
            return
        try:
            e2.calc_prob_dist(0)
            res = "ok"
        except Exception as ex:
            res = type(ex).__name__
    except Exception as ex:
        res = "construction:" + type(ex).__name__
    ctx.count("tomo_exec", key=("fresh", json.dumps(case)), label="%s-fresh-instance" % cls, nontrivial=True)
    if res != "ValueError":
        ctx.violation("tomo_exec", TSITE[cls] + ".__init__", "state-leaks-across-instances",
                      "a NEW %s still sees the object filled into the placeholder of an EARLIER instance's experiment (calc_prob_dist(0): %s, expected ValueError)"
                      % (TSITE[cls], res), dict(case, how="fresh-instance"))


def sub_tomo_exec(ctx):
    cases = []
    sizes = [(2, 2), (1, 3), (3, 4)] if _q(ctx) else [(1, 1), (2, 2), (1, 3), (3, 1), (3, 4), (4, 4)]
    for cls in TCLS:
        for ns, np_ in sizes:
            cases.append({"cls": cls, "ns": ns, "np": np_, "schedules": "all"})
            full = shape_schedules(cls, ns, np_)
            rng = ctx.rng
            for _ in range(_n(ctx, 2, 6)):
                k = rng.randint(1, min(4, len(full) + 1))
                cases.append({"cls": cls, "ns": ns, "np": np_, "schedules": [rng.choice(full) for _ in range(k)]})
    ctx.sample("tomo_exec", cases[1])
    ctx.run_cases("tomo_exec", chk_tomo_exec, cases)


# ---------------------------------------------------------------------------------------------- sub: history
HIST_SCHEDS = [[["state", 0], ["povm", 0]], [["state", 0], ["gate", 0], ["povm", 1]], [["state", 0], ["mprocess", 0]],
               [["state", 0], ["mprocess", 0], ["povm", 0]], [["state", 0], ["gate", 0], ["mprocess", 0], ["povm", 1]], [["povm", 0], ["state", 0]]]


def chk_history(ctx, case):
    """no state may leak from one Experiment into another: experiments constructed with some object lists OMITTED (or None)
    have empty lists there — also after an EARLIER experiment constructed the same way was extended in place through its
    getters (the idiom the tomography classes use on experiment lists).  Verdicts of newly constructed experiments are
    compared with the model before and after that history; likewise the tuple-vs-list container of the arguments."""
    prep(ctx)
    from quara.qcircuit.experiment import Experiment
    omit, how, cont = case["omit"], case["how"], case.get("container", "list")
    full = [[1], [1, 1], [1], [1]]
    masks = [[] if k in omit else m_ for k, m_ in zip(KINDS, full)]
    p = pool()

    def kwargs():
        kw = {}
        for k, m_ in zip(KINDS, full):
            if k in omit:
                if how == "none":
                    kw[SETTER[k]] = None
            else:
                lst = [p[k][i] for i in range(len(m_))]
                kw[SETTER[k]] = lst
        return kw

    alpha = Alpha()
    enc_l = [[1] + alpha.sched(s_) for s_ in HIST_SCHEDS]
    zs = enc_masks(masks) + alpha.encode() + [len(enc_l)]
    for l_ in enc_l:
        zs += l_
    mods = [unpack(v) for v in ctx.get_model().call("c20.validate", zs)]

    def verdicts():
        out = []
        for s_ in HIST_SCHEDS:
            arg = [sched_py(s_)]
            if cont == "tuple":
                arg = (tuple(arg[0]),)
            try:
                Experiment(schedules=arg, **kwargs())
                out.append("ok")
            except Exception as ex:
                out.append(classify_exc(ex)[0])
        return out

    want = [CLS[m_[0]] for m_ in mods]
    fresh = verdicts()
    first = Experiment(schedules=[], **kwargs())
    for k in omit:                                   # extend the EARLIER experiment in place, through its getters
        getattr(first, SETTER[k]).append(p[k][0])
    later = verdicts()
    for n, s_ in enumerate(HIST_SCHEDS):
        ctx.count("history", key=(json.dumps(case), n), label="%s-%s" % (how, want[n]), nontrivial=True)
        rep = dict(case, schedule=s_)
        if fresh[n] != want[n]:
            ctx.violation("history", "Experiment.__init__", "error-kind" if "ok" not in (fresh[n], want[n]) else
                          ("accepts-malformed" if fresh[n] == "ok" else "rejects-well-formed"),
                          "Experiment(schedules=[%s], lists %s %s): implementation %s, model %s" % (json.dumps(s_), omit, how, fresh[n], want[n]), rep)
        elif later[n] != want[n]:
            ctx.violation("history", "Experiment.__init__", "state-leaks-across-instances",
                          "a NEW Experiment(schedules=[%s]) constructed with %s %s gives %s (model: %s) after an earlier experiment constructed "
                          "the same way was extended in place through its getters; before that history the verdict was right"
                          % (json.dumps(s_), omit, "omitted" if how == "absent" else "= None", later[n], want[n]), rep)


def sub_history(ctx):
    cases = []
    for r in range(0, 4):
        for omit in itertools.combinations(["povm", "gate", "mprocess"], r):
            for how in ("absent", "none"):
                cases.append({"omit": list(omit), "how": how})
    cases.append({"omit": ["gate"], "how": "absent", "container": "tuple"})
    cases.append({"omit": [], "how": "absent", "container": "tuple"})
    ctx.sample("history", cases[3])
    ctx.run_cases("history", chk_history, cases)


# ---------------------------------------------------------------------------------------------- sub: witness
def chk_witness(ctx, case):
    """the witnesses of the ..._before_fix_refuted theorems in Props/C20.v, replayed on the implementation: on a tree with the
    repairs both are rejected as the repaired model says; on a tree without them the recorded defects are reported"""
    prep(ctx)
    if "lists" in case:
        return chk_schedule(ctx, dict(case, sub="witness"))
    if "cls" in case:
        return chk_tomo(ctx, case)
    if case["which"] == "qmpt":
        chk_tomo(ctx, {"cls": "qmpt", "ns": 1, "np": 1,
                       "args": [{"lists": [[["state", 0], ["mprocess", 0], ["povm", 0], ["mprocess", 0]]]},
                                {"lists": [[["state", 0], ["mprocess", 0]]]}]})
    else:
        chk_schedule(ctx, {"masks": [[1], [1], [], []], "lists": [[{"noniter": "none"}]], "sub": "witness"})


def sub_witness(ctx):
    ctx.run_cases("witness", chk_witness, [{"which": "qmpt"}, {"which": "noniter"}])


SUBS = [("witness", sub_witness), ("items", sub_items), ("schedule", sub_schedule), ("lists", sub_lists),
        ("setters", sub_setters), ("exec", sub_exec), ("tomo", sub_tomo), ("tomo_exec", sub_tomo_exec),
        ("history", sub_history)]      # history LAST: with a leaking implementation it pollutes the process for later constructions
FNS = {"witness": chk_witness, "items": chk_items, "schedule": chk_schedule, "lists": chk_lists, "setters": chk_setters,
       "exec": chk_exec, "tomo": chk_tomo, "tomo_exec": chk_tomo_exec, "history": chk_history}


def regen_validators(ctx):
    """translator tie (same protocol as flow.regen_check, with this property's own translator gen/c20_py2coq.py):
    regenerate Gallina definitions of the 20 translated pieces (see gen/c20_py2coq.py) from the CURRENT source, compile them,
    and re-check coq/gen/C20_Equiv.v (regenerated agrees with the hand-written model on all inputs; transported theorems).
    returns (ok, info)"""
    import os, shutil, subprocess, sys
    import runner
    V = runner.V
    scratch = os.path.join(getattr(ctx, "scratch", os.path.join(V, "build", ctx.prop_id)), "gen")
    os.makedirs(scratch, exist_ok=True)
    gen_v = os.path.join(scratch, "Gen_c20_validators.v")
    for stem in (gen_v[:-2], os.path.join(scratch, "C20_Equiv")):
        for ext in (".vo", ".vos", ".vok", ".glob"):
            try:
                os.remove(stem + ext)
            except OSError:
                pass
    equiv = os.path.join(V, "coq", "gen", "C20_Equiv.v")
    src = open(equiv).read()
    src_nc = re.sub(r"\(\*.*?\*\)", " ", src, flags=re.S)
    thms = re.findall(r"^\s*Theorem\s+([\w']+)", src_nc, flags=re.M)
    upd = {"thms": thms, "axioms": {}, "discharged": 0}
    ctx._regen_update = upd      # applied by run() after Props/C20.v has been checked (this function runs in a thread)
    r = subprocess.run([sys.executable, os.path.join(V, "gen", "c20_py2coq.py"), os.environ.get("VERIF_REPO", "/repo"), gen_v],
                       capture_output=True, text=True, timeout=120)
    if r.returncode != 0:
        return False, {"theorem": thms[0], "error": "translator rejected the source (outside its subset): " + (r.stdout + r.stderr)[-600:]}
    q = ["-Q", os.path.join(V, "coq", "theories"), "QV", "-Q", scratch, "QVGen"]
    r = subprocess.run(["timeout", "300", "coqc"] + q + [gen_v], capture_output=True, text=True)
    if r.returncode != 0:
        return False, {"theorem": thms[0], "error": "regenerated validators do not compile: " + (r.stdout + r.stderr)[-600:]}
    dst = os.path.join(scratch, "C20_Equiv.v")
    shutil.copy(equiv, dst)
    r = subprocess.run(["timeout", "600", "coqc"] + q + [dst], capture_output=True, text=True)
    out = r.stdout + r.stderr
    if r.returncode != 0:
        m_ = re.search(r"line (\d+), characters", out)
        thm = None
        if m_:
            upto = "\n".join(src.splitlines()[:int(m_.group(1))])
            names = re.findall(r"^\s*(?:Theorem|Lemma)\s+([\w']+)", upto, flags=re.M)
            thm = names[-1] if names else None
        return False, {"theorem": thm, "error": out[-800:]}
    blocks = runner.parse_assumptions(out)
    bad = [a for closed, axs in blocks for a in axs if a not in runner.ALLOWED_AXIOMS and a.split(".")[-1] not in runner.ALLOWED_AXIOMS]
    if len(blocks) != len(thms) or bad:
        return False, {"theorem": thms[0], "error": "assumption gate on regenerated proofs: %d blocks / %d theorems, disallowed %s" % (len(blocks), len(thms), bad)}
    for t, (closed, axs) in zip(thms, blocks):
        upd["axioms"][t] = "closed" if closed else sorted(set(axs))
    upd["discharged"] = len(thms)
    return True, {}


def run(ctx):
    import runner
    ctx.rule = ("exhaustive enumeration: every word over a finite item alphabet (4 kinds x in/out-of-range indices + malformed "
                "items: wrong arity, non-tuple, non-str kind, bool/float/None/numpy/subclass index, unknown kind) up to length 4 "
                "(5-6 on reduced alphabets), under all 81 list-size configurations {0,1,2}^4 with random None placeholders; lists "
                "of 0-3 (4) schedules from a pool incl. non-iterable schedules; seeded setter sequences; calc_prob_dist on every "
                "accepted schedule ending in its POVM; the four tomography constructors' schedules= argument. Implementation "
                "exception class vs the verdict of the extracted Coq model. non-trivial = schedule list with >= 2 items in total; "
                "distinct = distinct (configuration, schedule list / op sequence)")
    prep(ctx)
    # flow.standard_run with this property's own translator tie (flow.regen_check is bound to gen/py2coq.py)
    # Props/C20.v and the regenerated-model proofs are compiled concurrently (two coqc processes)
    import threading
    box = {}
    def _regen():
        try:
            box["r"] = regen_validators(ctx)
        except Exception as ex:      # a crash of the tie is a broken tie, never a silent pass
            box["r"] = (False, {"theorem": None, "error": "regen_validators crashed: %r" % (ex,)})
    th = threading.Thread(target=_regen)
    th.start()
    ok, info = runner.check_props(ctx)
    th.join()
    ok2, info2 = box["r"]
    upd = getattr(ctx, "_regen_update", {"thms": [], "axioms": {}, "discharged": 0})
    ctx.theorems = list(ctx.theorems) + [t for t in upd["thms"] if t not in ctx.theorems]
    ctx.obligations += len(upd["thms"])
    ctx.axioms.update(upd["axioms"])
    ctx.discharged += upd["discharged"]
    if not ok2:
        ok, info = False, info2
        ctx.boost = True          # widen the sweeps: look harder for a concrete failing input
        ctx.note("regenerated-validator obligations (coq/gen/C20_Equiv.v) not discharged: %s" % str(info2)[:400])
        ctx.note("translator tie broken: sub-checks other than `schedule` run with their thorough-tier sizes")
    if not ok:
        ctx.discharged = min(ctx.discharged, ctx.obligations - 1)
    for name, fn in SUBS:
        if ctx.only is None or name in ctx.only:
            fn(ctx)
    if not ok and not ctx.violations:
        ctx.violation("theorems", "Props/%s.v" % ctx.prop_id, "theorem-broken:%s" % info.get("theorem"),
                      "theorem %s no longer checks: %s" % (info.get("theorem"), info.get("error", "")[-400:]),
                      {"theorem": info.get("theorem"), "error": info.get("error")}, no_input=True)
    elif not ok:
        ctx.note("theorem obligations not discharged: %s" % info)
    if ctx.pos_mismatch:
        ctx.note("error-position mismatches (message text only): %d" % ctx.pos_mismatch)


def replay(ctx, doc):
    prep(ctx)
    flow.standard_replay(ctx, doc, FNS)
