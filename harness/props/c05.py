"""C05 — physical projection (Dykstra-type alternating projection with correction terms).

Tie between Model/C05_Dykstra.v and quara/objects/qoperation.py::calc_proj_physical / calc_proj_physical_with_var:
every run is made with is_iteration_history=True and
  * the recorded history is replayed through the extracted model (`c05.step`, `c05.run`, `c05.br`, `c05.cert`) with the
    implementation's own projection outputs as ORACLE values (by role: equality / inequality projection);
  * the arguments the MODEL says were handed to the two projections are re-submitted to the implementation's own
    projection routines and must reproduce the recorded outputs (a dropped / mis-ordered correction term shows here);
  * the hypotheses of Coq theorem C05_certificate_record (invariant + the two normal-cone inequalities, the PSD one
    decided exactly by qcheck.herm_psd) are evaluated on the FINAL record, which certifies, for every physical z,
        <x0 - x, z - x>  <=  gap + slack ,   gap = <p_K, y_K - x_K>  (exact rational arithmetic on the recorded floats);
  * consequences are evaluated: variational inequality against random physical competitors, gap / infeasibility bounds
    against the stopping threshold, agreement of both orders and both routines within the proved bound
    (C05_two_runs_agree), fixed points, returned point == last history x, argument / receiver left unchanged.
Sensitivity was established in round 2 by 41 seeded changes of the anchored loop (docs/reports/C05.md): 40 reported, the
remaining one (correction term dropped on the equality side only) is behaviour-preserving.
Round 3: the loop skeleton and the stopping-criterion arithmetic are additionally tied by TRANSLATION: gen/c05_py2coq.py regenerates them from the
source on every run and coq/gen/C05_Equiv*.v proves them equal to the model (regen_dykstra, run in a thread next to the sub-checks);
the normal-cone characterisation of both projections is checked at every record (all_records_normal_cone).
Convergence / termination within max_iteration is NOT claimed: an out-of-fuel run is a distinct, labelled outcome whose
bounds are evaluated with the error value actually reached."""
import io, contextlib, math, random
import numpy as np
from common import flow, qcheck

LEVEL = "proof"
KINDS = ("state", "povm", "gate", "mprocess")

# ---- constants (see manifest note).  The yardstick "accuracy implied by the stopping threshold" is
#   sqrt(eps_proj_physical) * (1 + |x0|^2); constants calibrated on the unchanged tree with the routine's default fuel
#   (1700 runs of all types / generators / thresholds, seeds 777 and 20260926, incl. the runs that go out of fuel):
#   max observed  gap           / yardstick = 0.21   -> C_GAP = 25   (>= 100x)
#   max observed  infeasibility / yardstick = 0.46   -> C_INF = 50   (>= 100x)   [stopped runs additionally have to meet
#                                                        the PROVED (2 sqrt(m d) + 2) sqrt(eps)]
#   max observed  |p_K| / (1 + |x0|) = 2.1  (informative only; reported in the evidence notes)
C_GAP = 25.0
C_INF = 50.0
TOL_STEP = 1e-12        # x (1 + scale): float rounding of one sweep (two additions per entry)
TOL_PROJ = 1e-9         # x (1 + scale): re-invoked projection vs recorded (1-Lipschitz map, argument differs by rounding; entries below 1e-13 are truncated by quara)
TOL_PSD = 1e-11         # x (1 + scale): PSD-ness of eigh-clip-rebuild outputs (rounding + 1e-13 truncation per coefficient)
BAND = 1e-4             # relative ambiguity band around eps_proj_physical for the exact-model decision
DEFAULT_EPS = 1e-14     # documented default of eps_proj_physical: Settings.get_atol() / 10 with atol = 1e-13
DEFAULT_FUEL = 1000     # documented default of max_iteration


# ------------------------------------------------------------------ composite systems, layouts
_CS = {}


def csys(mode, n):
    key = (mode, n)
    if key not in _CS:
        from quara.objects.composite_system_typical import generate_composite_system
        c = generate_composite_system(mode, n)
        B = np.array([np.asarray(b.toarray() if hasattr(b, "toarray") else b, dtype=complex) for b in c.basis()])
        _CS[key] = (c, B)
    return _CS[key]


def basis_ok(B):
    """orthonormal, Hermitian, B0 = I/sqrt(d): what the equality-constraint layout below assumes"""
    dd, d = B.shape[0], B.shape[1]
    G = np.einsum("aij,bij->ab", B.conj(), B)
    tr = np.einsum("aii->a", B)
    e0 = np.zeros(dd); e0[0] = math.sqrt(d)
    return (np.abs(G - np.eye(dd)).max() < 1e-12 and np.abs(B - B.conj().transpose(0, 2, 1)).max() < 1e-14
            and np.abs(tr - e0).max() < 1e-12)


def nvec(kind, d, m):
    return {"state": d * d, "povm": m * d * d, "gate": d ** 4, "mprocess": m * d ** 4}[kind]


OBJFORMS = ("plain", "fortran", "strided", "readonly", "fresh_csys", "copy", "from_var")


def lay(a, form):
    """the same numbers in another memory layout: what the constructor is handed (and the object then holds)"""
    a = np.asarray(a, dtype=np.float64)
    if form == "fortran" and a.ndim == 2:
        return np.asfortranarray(a.copy())                      # column-major (a transposed view of a C array)
    if form in ("strided", "fortran"):
        big = np.full(tuple(2 * k for k in a.shape), 1e300)     # non-contiguous view of a larger buffer
        sl = (slice(None, None, 2),) * a.ndim
        big[sl] = a
        return big[sl]
    b = a.copy()
    if form == "readonly":
        b.setflags(write=False)                                 # an object that writes into its own input data raises
    return b


def build(kind, c, sv, m, para, order, eps, strict=False, form="plain"):
    """form: memory layout of the arrays handed to the constructor / a fresh (equal, not identical) CompositeSystem /
    the route by which the object is obtained (constructor, .copy(), generate_from_var(to_var()))"""
    o = build0(kind, c, sv, m, para, order, eps, strict, form)
    if form == "copy":
        return o.copy()
    if form == "from_var" and not para:
        # (generate_from_var does NOT inherit mode_proj_order - its default is the literal "eq_ineq" - so it is passed on explicitly)
        return o.generate_from_var(o.to_var(), mode_proj_order=o.mode_proj_order)
    return o


def build0(kind, c, sv, m, para, order, eps, strict, form):
    from quara.objects.state import State
    from quara.objects.povm import Povm
    from quara.objects.gate import Gate
    from quara.objects.mprocess import MProcess
    if form == "fresh_csys":
        from quara.objects.composite_system_typical import generate_composite_system
        key = [k for k, v in _CS.items() if v[0] is c][0]
        c = generate_composite_system(*key)                    # equal to the cached one, but another instance
    d = c.dim; dd = d * d
    sv = np.array(sv, dtype=np.float64)
    kw = dict(is_physicality_required=bool(strict), on_para_eq_constraint=para, mode_proj_order=order,
              eps_proj_physical=None if eps == "default" else eps)
    if strict:      # non-default object configuration (only meaningful for inputs that pass quara's own validation)
        kw.update(is_estimation_object=False)
    if kind == "state":
        return State(c, lay(sv, form), **kw)
    if kind == "povm":
        return Povm(c, [lay(v, form) for v in sv.reshape(m, dd)], **kw)
    if kind == "gate":
        return Gate(c, lay(sv.reshape(dd, dd), form), **kw)
    return MProcess(c, [lay(h, form) for h in sv.reshape(m, dd, dd)], **kw)


def blocks(kind, B, m, sv):
    """the Hermitian operators whose positivity is the inequality constraint (density / POVM elements / Choi matrices);
    coefficient vector -> operator is an isometry for an orthonormal basis, so <u,v> = sum_blocks tr(U_j V_j)"""
    dd = B.shape[0]; d = B.shape[1]
    sv = np.asarray(sv, dtype=float)
    if kind == "state":
        return [np.tensordot(sv, B, axes=(0, 0))]
    if kind == "povm":
        return [np.tensordot(v, B, axes=(0, 0)) for v in sv.reshape(m, dd)]
    hss = sv.reshape(1, dd, dd) if kind == "gate" else sv.reshape(m, dd, dd)
    return [np.einsum("ab,aij,bkl->ikjl", h, B, B.conj()).reshape(dd, dd) for h in hss]


def eq_residual(kind, d, m, sv):
    """violation of the linear equality constraints (tr rho = 1 / sum = I / TP / sum TP) in coefficient form"""
    dd = d * d; sv = np.asarray(sv, dtype=float)
    if kind == "state":
        return np.array([sv[0] - 1 / math.sqrt(d)])
    if kind == "povm":
        r = sv.reshape(m, dd).sum(0); r[0] -= math.sqrt(d); return r
    if kind == "gate":
        r = sv.reshape(dd, dd)[0].copy(); r[0] -= 1; return r
    r = sv.reshape(m, dd, dd)[:, 0, :].sum(0); r[0] -= 1; return r


def eq_normal_defect(kind, d, m, v):
    """v minus its orthogonal projection onto the span of the constraint normals (0 iff v is a combination of them)"""
    dd = d * d; v = np.array(v, dtype=float)
    if kind == "state":
        v[0] = 0; return v
    if kind == "povm":
        V = v.reshape(m, dd); return (V - V.mean(0)).ravel()
    if kind == "gate":
        H = v.reshape(dd, dd); H[0] = 0; return H.ravel()
    H = v.reshape(m, dd, dd); H[:, 0, :] -= H[:, 0, :].mean(0); return H.ravel()


def eq_project(kind, d, m, sv):
    """the harness's own orthogonal projection onto the equality constraint set (used only to build feasible points)"""
    dd = d * d; x = np.array(sv, dtype=float); r = eq_residual(kind, d, m, x)
    if kind == "state":
        x[0] -= r[0]
    elif kind == "povm":
        X = x.reshape(m, dd); X -= r / m
    elif kind == "gate":
        x.reshape(dd, dd)[0] -= r
    else:
        x.reshape(m, dd, dd)[:, 0, :] -= r / m
    return x


def origin(kind, d, m):
    """a strictly feasible point and the smallest eigenvalue of its blocks"""
    dd = d * d; n = nvec(kind, d, m); o = np.zeros(n)
    if kind == "state":
        o[0] = 1 / math.sqrt(d); return o, 1.0 / d
    if kind == "povm":
        o.reshape(m, dd)[:, 0] = math.sqrt(d) / m; return o, 1.0 / m
    if kind == "gate":
        o[0] = 1.0; return o, 1.0 / d
    o.reshape(m, dd, dd)[:, 0, 0] = 1.0 / m; return o, 1.0 / (d * m)


def min_eig(kind, B, m, sv):
    return min(float(np.linalg.eigvalsh(qcheck.herm_part(M)).min()) for M in blocks(kind, B, m, sv))


def restore(kind, B, m, x):
    """a feasible point near x: equality-project, then mix with the strictly feasible origin until PSD"""
    d = B.shape[1]
    xe = eq_project(kind, d, m, x)
    o, lam0 = origin(kind, d, m)
    lam = min_eig(kind, B, m, xe)
    t = 0.0 if lam >= 0 else min(1.0, (-lam) / (lam0 - lam) * (1 + 1e-6) + 1e-15)
    return (1 - t) * xe + t * o, t


def inv_sqrt(S):
    w, V = np.linalg.eigh(S)
    return (V / np.sqrt(w)) @ V.conj().T


def rand_physical(kind, B, m, rs, rank=None):
    """random physical object as a stacked vector (float; physical up to rounding)"""
    dd = B.shape[0]; d = B.shape[1]

    def cg(r, c):
        return rs.normal(size=(r, c)) + 1j * rs.normal(size=(r, c))

    def coef(M):
        return np.einsum("aij,ij->a", B.conj(), M).real

    if kind == "state":
        r = rank or int(rs.integers(1, d + 1))
        L = cg(d, r); rho = L @ L.conj().T; rho /= np.trace(rho).real
        return coef(rho)
    if kind == "povm":
        Gs = []
        for j in range(m):
            r = d if j == 0 else (rank or int(rs.integers(1, d + 1)))
            L = cg(d, r); Gs.append(L @ L.conj().T)
        Si = inv_sqrt(sum(Gs))
        return np.concatenate([coef(Si @ G @ Si) for G in Gs])
    mm = 1 if kind == "gate" else m
    Ks = []
    for j in range(mm):
        r = rank or int(rs.integers(1, 3))
        Ks.append([cg(d, d) for _ in range(r)])
    Si = inv_sqrt(sum(K.conj().T @ K for grp in Ks for K in grp))
    out = []
    for grp in Ks:
        H = np.zeros((dd, dd))
        for b in range(dd):
            M = sum((K @ Si) @ B[b] @ (K @ Si).conj().T for K in grp)
            H[:, b] = coef(M)
        out.append(H.ravel())
    return np.concatenate(out)


# ------------------------------------------------------------------ running the implementation
class Run:
    pass


class ArgumentWritten(Exception):
    pass


def to_sv(kind, obj_or_vec, level):
    if level == "obj":
        return np.array(obj_or_vec.to_stacked_vector(), dtype=float).copy()
    return np.array(obj_or_vec, dtype=float).copy()


def config_of(o):
    """the receiver's public configuration (the routines under test are queries: they must leave it alone)"""
    return (o.is_physicality_required, o.is_estimation_object, o.on_para_eq_constraint, o.on_algo_eq_constraint,
            o.on_algo_ineq_constraint, o.mode_proj_order, o.eps_proj_physical)


def impl_run(case, c, hist=True, order=None, level=None, obj=None):
    """one call of the routine under test; returns a Run with the history as float arrays.
    obj: an object a previous call was made on (the routines keep no state: a second call must give the same answer)"""
    kind, m, para, eps, mi = case["kind"], case["m"], case["para"], case["eps"], case["max_iter"]
    order = order or case["order"]; level = level or case["level"]
    mism = bool(case.get("flagmismatch")) and level == "var"
    if obj is not None:
        o = obj
    elif case.get("strict"):
        try:
            o = build(kind, c, case["sv"], m, para, order, eps, strict=True)
        except Exception:           # quara's own validation rejects the (rounded) point: default configuration instead
            o = build(kind, c, case["sv"], m, para, order, eps)
    else:
        # flagmismatch: the object's own on_para_eq_constraint is the OPPOSITE of the explicit argument of the variable-level call
        o = build(kind, c, case["sv"], m, (not para) if mism else para, order, eps, form=case.get("objform", "plain"))
    c = o.composite_system                      # (a fresh instance for objform = fresh_csys)
    R = Run(); R.o = o; R.order = order; R.level = level
    R.cfg_before = config_of(o)
    buf = io.StringIO()
    var = None
    kwf = {} if mi == "default" else {"max_iteration": mi}
    try:
      with contextlib.redirect_stdout(buf):
          if level == "obj":
              res = o.calc_proj_physical(is_iteration_history=hist, **kwf)
          else:
              if mism:
                  var = np.array(type(o).convert_stacked_vector_to_var(c, np.array(case["sv"], dtype=np.float64), on_para_eq_constraint=para), dtype=np.float64)
              else:
                  # a PRIVATE copy: State.to_var() (on_para_eq_constraint=False) returns the object's internal array, and the routine
                  # records the array it is given as history x[0] - handing over the object's own storage would let the caller-overwrite
                  # step below corrupt the object through the harness's own aliasing
                  var = np.array(o.to_var(), dtype=np.float64)
              view = case.get("argview", "plain")
              if view == "strided":       # same numbers, non-contiguous memory
                  big = np.full(2 * len(var), 1e300); big[::2] = var; var = big[::2]
              elif view == "readonly":    # a routine that writes into its argument raises here
                  var = np.array(var); var.setflags(write=False)
              R.var_in = np.array(var, dtype=float).copy()
              res = o.calc_proj_physical_with_var(var, on_para_eq_constraint=para, is_iteration_history=hist, **kwf)
    except ValueError as ex:
        if "read-only" in str(ex):      # the routine wrote into the (read-only) array it was given
            raise ArgumentWritten(str(ex))
        raise
    R.warned = "exceeds the limit" in buf.getvalue()
    R.var_after = None if var is None else np.array(var, dtype=float)
    R.self_after = np.array(o.to_stacked_vector(), dtype=float)
    R.cfg_after = config_of(o)
    if hist:
        R.result, h = res
        R.X = [to_sv(kind, v, level) for v in h["x"]]
        R.P = [to_sv(kind, v, level) for v in h["p"]]
        R.Q = [to_sv(kind, v, level) for v in h["q"]]
        R.Y = [None if v is None else to_sv(kind, v, level) for v in h["y"]]
        R.errs = [None if e is None else float(e) for e in h["error_value"]]
        R.raw_h = h
        R.hist_lens = (len(h["x"]), len(h["y"]), len(h["p"]), len(h["q"]), len(h["error_value"]))
        R.K = len(R.X) - 1
    else:
        R.result = res
    if level == "obj":
        R.res_sv = np.array(R.result.to_stacked_vector(), dtype=float)
        R.res_obj = R.result
    else:
        R.res_var = np.array(R.result, dtype=float)
        R.res_obj = o.generate_from_var(R.res_var, is_physicality_required=False, on_para_eq_constraint=para)
        R.res_sv = np.array(R.res_obj.to_stacked_vector(), dtype=float)
    return R


def impl_proj(kind, c, R, case, role, arg):
    """the implementation's own projection routine (by role) on a given stacked vector"""
    arg = np.array(arg, dtype=np.float64)
    if R.level == "obj":
        a = build(kind, c, arg, case["m"], case["para"], R.order, case["eps"])
        r = a.calc_proj_eq_constraint() if role == "eq" else a.calc_proj_ineq_constraint()
        return np.array(r.to_stacked_vector(), dtype=float)
    cls = type(R.o)
    if role == "eq":
        return np.array(cls.calc_proj_eq_constraint_with_var(c, arg.copy(), on_para_eq_constraint=False), dtype=float)
    return np.array(cls.calc_proj_ineq_constraint_with_var(c, arg.copy(), on_para_eq_constraint=False,
                                                            eps_truncate_imaginary_part=R.o.eps_truncate_imaginary_part), dtype=float)


def fl(vals):
    return np.array([float(v) for v in vals])


def psd_exact_or_float(ctx, M, shift, limit):
    """(verdict, how): exact Coq decision when the block is small enough for the tier, LAPACK otherwise (labelled)"""
    if M.shape[0] <= limit:
        return qcheck.herm_psd(ctx, M, shift), "exact"
    return bool(np.linalg.eigvalsh(qcheck.herm_part(M)).min() >= -shift), "float"


# ------------------------------------------------------------------ every record: the two projections are projections
def blocks_batch(kind, B, m, V):
    """blocks() for a stack of K vectors: array (K, nblocks, D, D)"""
    dd = B.shape[0]; d = B.shape[1]; K = V.shape[0]
    if kind == "state":
        return np.tensordot(V, B, axes=(1, 0))[:, None, :, :]
    if kind == "povm":
        return np.tensordot(V.reshape(K, m, dd), B, axes=(2, 0))
    mm = 1 if kind == "gate" else m
    H = V.reshape(K, mm, dd, dd)
    return np.einsum("zmab,aij,bkl->zmikjl", H, B, B.conj()).reshape(K, mm, dd, dd)


def eq_residual_batch(kind, d, m, V):
    dd = d * d; K = V.shape[0]
    if kind == "state":
        return np.abs(V[:, 0] - 1 / math.sqrt(d))
    if kind == "povm":
        r = V.reshape(K, m, dd).sum(1); r[:, 0] -= math.sqrt(d); return np.linalg.norm(r, axis=1)
    if kind == "gate":
        r = V.reshape(K, dd, dd)[:, 0, :].copy(); r[:, 0] -= 1; return np.linalg.norm(r, axis=1)
    r = V.reshape(K, m, dd, dd)[:, :, 0, :].sum(1); r[:, 0] -= 1; return np.linalg.norm(r, axis=1)


def eq_normal_defect_batch(kind, d, m, V):
    dd = d * d; K = V.shape[0]; V = V.copy()
    if kind == "state":
        V[:, 0] = 0; return np.linalg.norm(V, axis=1)
    if kind == "povm":
        W = V.reshape(K, m, dd); return np.linalg.norm((W - W.mean(1, keepdims=True)).reshape(K, -1), axis=1)
    if kind == "gate":
        H = V.reshape(K, dd, dd); H[:, 0, :] = 0; return np.linalg.norm(H.reshape(K, -1), axis=1)
    H = V.reshape(K, m, dd, dd); H[:, :, 0, :] -= H[:, :, 0, :].mean(1, keepdims=True); return np.linalg.norm(H.reshape(K, -1), axis=1)


def all_records_normal_cone(ctx, sub, case, c, B, R, scale, site):
    """For EVERY sweep k >= 1 (vectorised, LAPACK): the recorded output of the equality projection lies in the equality set and
    its correction term is a combination of the constraint normals; the recorded output of the inequality projection is PSD,
    MINUS its correction term is PSD and the two are complementary.  For closed convex sets these conditions characterise
    the nearest-point projection, so together with the sweep equations (checked at every sweep) they say
    y_k = P_first(x_{k-1} + p_{k-1}) and x_k = P_second(y_k + q_{k-1}) for every k, not only for the re-invoked sweeps."""
    kind, m = case["kind"], case["m"]; d = c.dim; K = R.K
    if K < 1:
        return True
    X = np.array(R.X[1:]); Y = np.array(R.Y[1:]); P = np.array(R.P[1:]); Q = np.array(R.Q[1:]); n = X.shape[1]
    eq_first = R.order == "eq_ineq"
    EV, EC = (Y, P) if eq_first else (X, Q)
    IV, IC = (X, Q) if eq_first else (Y, P)
    r_eq = eq_residual_batch(kind, d, m, EV); n_eq = eq_normal_defect_batch(kind, d, m, EC)
    eps_psd = 10 * TOL_PSD * (1 + scale)
    lam_out = np.linalg.eigvalsh(blocks_batch(kind, B, m, IV)).min(axis=(1, 2))
    lam_cor = np.linalg.eigvalsh(-blocks_batch(kind, B, m, IC)).min(axis=(1, 2))
    compl = np.abs(np.einsum("ki,ki->k", IC, IV))
    delta = 10 * TOL_PSD * (1 + scale) ** 2 * math.sqrt(n)
    bad = [("eq-membership", r_eq > TOL_STEP * 100 * (1 + scale), r_eq), ("eq-normal", n_eq > TOL_PROJ * (1 + scale), n_eq),
           ("psd-membership", lam_out < -eps_psd, lam_out), ("psd-normal", lam_cor < -eps_psd, lam_cor), ("complementarity", compl > delta, compl)]
    ok = True
    for name, mask, val in bad:
        idx = np.where(mask)[0]
        if len(idx):
            k = int(idx[0]) + 1
            ctx.violation(sub, site, "sweep-normal-cone-" + name,
                          "record %d of %d (order %s): %s violated (value %.3e; %d records affected): the recorded projection output is not the projection of its argument"
                          % (k, K, R.order, name, float(val[k - 1]), len(idx)), dict(case, sweep=k))
            ok = False
    return ok


# ------------------------------------------------------------------ the main per-run check
def final_record(ctx, sub, case, c, B, R, x0, scale, site):
    """evaluates the hypotheses of C05_certificate_record on the final history record; returns (gap, slack, ok)"""
    kind, m = case["kind"], case["m"]; d = c.dim; n = len(x0); K = R.K
    x, y, p, q = R.X[K], R.Y[K], R.P[K], R.Q[K]
    mdl = ctx.get_model()
    vals = mdl.call("c05.cert", [n], list(x0) + list(x) + list(y) + list(p) + list(q))
    gap = vals[0]; inv2, d0x, pp, dxy, qq = [float(v) for v in vals[1:6]]
    ok = True
    if math.sqrt(inv2) > 1e-13 * (1 + scale) * (K + 1) * math.sqrt(n):
        ctx.violation(sub, site, "invariant", "final record: |x+p+q-x0| = %.3e (K=%d, scale %.1e)" % (math.sqrt(inv2), K, scale), case); ok = False
    eq_first = R.order == "eq_ineq"
    # roles: the vector lying in the equality set and its correction; the vector in the PSD cone and its correction
    ev, ec = (y, p) if eq_first else (x, q)
    iv, ic = (x, q) if eq_first else (y, p)
    r_eq = float(np.linalg.norm(eq_residual(kind, d, m, ev)))
    n_eq = float(np.linalg.norm(eq_normal_defect(kind, d, m, ec)))
    if r_eq > TOL_STEP * 10 * (1 + scale):
        ctx.violation(sub, site, "certificate-eq-membership", "output of the equality projection violates the equality constraint by %.3e" % r_eq, case); ok = False
    if n_eq > TOL_PROJ * (1 + scale):
        ctx.violation(sub, site, "certificate-eq-normal", "correction term of the equality projection has a component %.3e along the constraint set (not a normal vector: wrong/dropped correction)" % n_eq, case); ok = False
    eps_psd = TOL_PSD * (1 + scale)
    lim = ctx.n(9, 16)
    how = set()
    for j, (Xb, Cb) in enumerate(zip(blocks(kind, B, m, iv), blocks(kind, B, m, ic))):
        v1, h1 = psd_exact_or_float(ctx, Xb, eps_psd, lim)
        v2, h2 = psd_exact_or_float(ctx, -Cb, eps_psd, lim)
        how.add(h1); how.add(h2)
        if not v1:
            ctx.violation(sub, site, "certificate-psd-membership", "block %d of the inequality projection's output is not PSD within %.1e" % (j, eps_psd), case); ok = False
        if not v2:
            ctx.violation(sub, site, "certificate-psd-normal", "block %d: MINUS the correction term of the inequality projection is not PSD within %.1e (not in the normal cone: wrong/dropped correction)" % (j, eps_psd), case); ok = False
    compl = abs(float(np.dot(ic, iv)))
    delta = TOL_PSD * (1 + scale) ** 2 * math.sqrt(n)
    if compl > delta:
        ctx.violation(sub, site, "certificate-complementarity", "<correction, output> of the inequality projection = %.3e > %.1e" % (compl, delta), case); ok = False
    slack = compl + eps_psd * d + 1e-9 * (1 + scale) ** 2     # C05_psd_normal: eps * tr Z - <Q,X>, tr Z summed over blocks = d for physical Z
    R.cert = dict(gap=gap, d0x=d0x, pp=pp, dxy=dxy, qq=qq, how="+".join(sorted(how)))
    return gap, slack, ok


def chk_run(ctx, case):
    sub = "run"
    kind, m, para = case["kind"], case["m"], case["para"]
    # documented defaults: max_iteration=1000, eps_proj_physical = Settings.get_atol()/10 = 1e-14 (the model is run with these)
    eps = DEFAULT_EPS if case["eps"] == "default" else case["eps"]
    mi = DEFAULT_FUEL if case["max_iter"] == "default" else case["max_iter"]
    c, B = csys(*case["sys"]); d = c.dim
    site = "QOperation.calc_proj_physical" if case["level"] == "obj" else "QOperation.calc_proj_physical_with_var"
    key = (kind, tuple(case["sys"]), m, para, case["order"], case["eps"], case["max_iter"], case["level"], case["gen"], round(float(np.sum(case["sv"])), 12))
    if mi == 0:
        # error branch: the loop variable is never bound
        try:
            impl_run(case, c); raised = None
        except Exception as e:
            raised = type(e).__name__
        st, code = ctx.get_model().try_call("c05.run", [len(case["sv"]), 1, 0, 0], [eps] + list(case["sv"]))
        ctx.count(sub, key=key, nontrivial=False, label="max_iteration=0:" + str(raised))
        if (st, code) != ("err", 1) or raised not in ("UnboundLocalError", "NameError"):
            ctx.violation(sub, site, "zero-fuel-branch", "max_iteration=0: implementation %s, model %s %s" % (raised, st, code), case)
        return
    try:
        R = impl_run(case, c)
    except ArgumentWritten as ex:
        ctx.violation(sub, site, "mutates-argument", "the routine writes into the variable array it is given (read-only view: %s)" % ex, case)
        return
    K = R.K; n = len(R.X[0]); mdl = ctx.get_model()
    x0 = R.X[0]
    scale = max(float(np.linalg.norm(x0)), max(float(np.linalg.norm(v)) for v in R.P), max(float(np.linalg.norm(v)) for v in R.Q))
    tol = TOL_STEP * (1 + scale)
    n = len(R.X[0])
    stopped = K < mi or (R.errs[-1] is not None and R.errs[-1] < eps)
    outcome = "stopped" if stopped else "out-of-fuel"
    # exact model vs float implementation: the model's p, q drift from the recorded ones by accumulated rounding
    # (<= ~1e-15 scale per sweep and entry), which moves sum-of-squares error values by utol(e)
    U = 1e-15 * (1 + scale) * (K + 1) * math.sqrt(n)

    def utol(e):
        return 1e-6 * e + 4 * math.sqrt(max(e, 0.0)) * U + U * U
    in_band = any(e is not None and abs(e - eps) <= max(BAND * eps, 10 * utol(e)) for e in R.errs)

    # ---- history shape, initial record, returned point
    shapes_ok = all(v is not None and v.shape == (n,) for v in R.X + R.P + R.Q + R.Y[1:])
    if R.hist_lens != (K + 1, K + 1, K + 1, K + 1, K) or R.Y[0] is not None or (K >= 1 and R.errs[0] is not None) \
            or not shapes_ok or np.abs(R.P[0]).max() != 0 or np.abs(R.Q[0]).max() != 0 or any(e is None for e in R.errs[1:]):
        ctx.violation(sub, site, "history-shape", "history lengths %s, y[0] is None: %s, errs[0]=%s, every later entry a vector of length %d: %s, p[0]=q[0]=0: %s"
                      % (R.hist_lens, R.Y[0] is None, R.errs[:1], n, shapes_ok, shapes_ok and np.abs(R.P[0]).max() == 0 and np.abs(R.Q[0]).max() == 0), case)
        return
    neg = [k for k in range(1, K) if not (R.errs[k] >= 0)]
    if neg:
        ctx.violation(sub, site, "error-value", "sweep %d: recorded error_value %r is not a non-negative number (a sum of squares)" % (neg[0], R.errs[neg[0]]), dict(case, sweep=neg[0]))
        return
    if case["level"] == "obj" or not para:
        x0_expect = np.array(case["sv"], dtype=float)
    else:
        x0_expect = np.array(type(R.o).convert_var_to_stacked_vector(c, R.var_in, on_para_eq_constraint=True), dtype=float)
        if np.linalg.norm(eq_residual(kind, d, m, x0_expect)) > 1e-12 * (1 + scale):
            ctx.violation(sub, site, "x0-not-eq-feasible", "variables with on_para_eq_constraint=True expand to an infeasible start", case)
    if not np.array_equal(x0, x0_expect):
        ctx.violation(sub, site, "history-x0", "history x[0] is not the input (max diff %.3e)" % np.abs(x0 - x0_expect).max(), case)
    if case["level"] == "obj":
        same = np.array_equal(R.res_sv, R.X[K])
    else:
        same = np.array_equal(R.res_var, np.array(type(R.o).convert_stacked_vector_to_var(c, R.X[K], on_para_eq_constraint=para), dtype=float))
        if not np.array_equal(R.var_after, R.var_in):
            ctx.violation(sub, site, "mutates-argument", "the variable array passed in was modified", case)
    if not same:
        ctx.violation(sub, site, "returned-not-last-history-x", "returned point differs from the last history x", case)
    if case["level"] == "obj" and not np.array_equal(R.self_after, np.array(case["sv"], dtype=float)):
        ctx.violation(sub, site, "mutates-receiver", "the object the routine was called on changed (max diff %.3e)" % np.abs(R.self_after - np.array(case["sv"], dtype=float)).max(), case)
    if R.cfg_after != R.cfg_before:
        ctx.violation(sub, site, "mutates-receiver", "the configuration of the object the routine was called on changed: %s -> %s" % (R.cfg_before, R.cfg_after), case)

    # ---- every sweep, float level: sweep equations, invariant, recorded error values (vectorised; tolerance = rounding)
    X = np.array(R.X); P = np.array(R.P); Q = np.array(R.Q); Y = np.array(R.Y[1:])
    dp = np.abs(P[1:] - (X[:-1] + P[:-1] - Y)).max(axis=1)
    dq = np.abs(Q[1:] - (Y + Q[:-1] - X[1:])).max(axis=1)
    dinv = np.abs(X + P + Q - x0).max(axis=1)
    bad = np.where((dp > tol) | (dq > tol))[0]
    if len(bad):
        k = int(bad[0])
        ctx.violation(sub, site, "step-equation", "sweep %d: p_next-(x+p-y_next) = %.3e, q_next-(y_next+q-x_next) = %.3e (tol %.1e)" % (k, dp[k], dq[k], tol), dict(case, sweep=k))
    kk = np.arange(K + 1)
    badi = np.where(dinv > 1e-13 * (1 + scale) * (kk + 1))[0]
    if len(badi):
        k = int(badi[0])
        ctx.violation(sub, site, "invariant", "record %d: |x+p+q-x0| = %.3e" % (k, dinv[k]), dict(case, sweep=k))
    br = ((P[:-1] - P[1:]) ** 2 + (Q[:-1] - Q[1:]) ** 2).sum(axis=1)
    for k in range(1, K):
        if abs(R.errs[k] - br[k]) > 1e-9 * br[k] + 1e-28 * (1 + scale) ** 2:
            ctx.violation(sub, site, "error-value", "sweep %d: recorded error_value %.6e, sum of squared increments %.6e" % (k, R.errs[k], br[k]), dict(case, sweep=k))
            break

    # ---- every record: both recorded projection outputs satisfy the normal-cone characterisation of a projection
    all_records_normal_cone(ctx, sub, case, c, B, R, scale, site)

    # ---- stopping logic on the implementation's own numbers (predicates of C05_run_history)
    early = [k for k in range(1, K - 1) if R.errs[k] < eps]
    msg = None
    if not (1 <= K <= mi):
        msg = "number of sweeps %d outside 1..max_iteration=%d" % (K, mi)
    elif early:
        msg = "error_value %.3e < eps at sweep %d but the loop went on to %d" % (R.errs[early[0]], early[0], K)
    elif K < mi and not (K >= 2 and R.errs[K - 1] < eps):
        msg = "left the loop after %d < max_iteration sweeps with error_value %s >= eps %.1e" % (K, R.errs[K - 1], eps)
    elif R.warned != (K == mi):
        msg = "warning printed=%s but sweeps=%d, max_iteration=%d" % (R.warned, K, mi)
    if msg:
        ctx.violation(sub, site, "stopping-logic", msg, case)

    # ---- sampled sweeps through the extracted model, oracle = recorded projection outputs (by role)
    eq_first = case["order"] == "eq_ineq"
    rs = random.Random(case["sseed"])
    idx = list(range(K)) if K <= 24 else sorted(set(list(range(6)) + list(range(K - 6, K)) + [rs.randrange(K) for _ in range(8)]))
    tolp = TOL_PROJ * (1 + scale)
    for k in idx:
        eo, io_ = (R.Y[k + 1], R.X[k + 1]) if eq_first else (R.X[k + 1], R.Y[k + 1])
        out = fl(mdl.call("c05.step", [n, 1 if eq_first else 0], list(R.X[k]) + list(R.P[k]) + list(R.Q[k]) + list(eo) + list(io_)))
        ae, ai, y1, p1, x1, q1 = [out[i * n:(i + 1) * n] for i in range(6)]
        dm = max(np.abs(y1 - R.Y[k + 1]).max(), np.abs(x1 - R.X[k + 1]).max(), np.abs(p1 - R.P[k + 1]).max(), np.abs(q1 - R.Q[k + 1]).max())
        if dm > tol:
            ctx.violation(sub, site, "step-equation", "sweep %d differs from the model's step (order %s) by %.3e" % (k, case["order"], dm), dict(case, sweep=k))
            break
        pe = impl_proj(kind, c, R, case, "eq", ae); pi = impl_proj(kind, c, R, case, "ineq", ai)
        de = np.abs(pe - eo).max(); di = np.abs(pi - io_).max()
        if de > tolp or di > tolp:
            ctx.violation(sub, site, "projection-argument",
                          "sweep %d, order %s: recorded projection outputs are not the projections of the model's arguments "
                          "(eq: %.3e, ineq: %.3e; x+p / y+q with the right correction term and order)" % (k, case["order"], de, di), dict(case, sweep=k))
            break
        if k >= 1:
            bm = mdl.call("c05.br", [n], list(R.P[k]) + list(R.P[k + 1]) + list(R.Q[k]) + list(R.Q[k + 1]) + list(R.X[k]) + list(R.X[k + 1]) + list(R.Y[k]) + list(R.Y[k + 1]))
            if abs(float(bm[0]) - R.errs[k]) > 1e-9 * float(bm[0]) + 1e-28 * (1 + scale) ** 2:
                ctx.violation(sub, site, "error-value", "sweep %d: recorded error_value %.6e, model %.6e" % (k, R.errs[k], float(bm[0])), dict(case, sweep=k))
                break

    # ---- the whole loop through the model when the history is small enough to ship
    replayed = False
    if n * n * K <= 4_000_000 and 2 * K * n <= 60000:
        eo = R.Y[1:] if eq_first else R.X[1:]; io_ = R.X[1:] if eq_first else R.Y[1:]
        qs = [eps] + list(x0) + [v for a in eo for v in a] + [v for a in io_ for v in a]
        st, val = mdl.try_call("c05.run", [n, 1 if eq_first else 0, mi, K], qs)
        replayed = True
        if in_band:
            pass    # decision too close to the threshold for an exact-vs-float comparison: counted as trivial below
        elif st == "err":
            ctx.violation(sub, site, "loop-replay", "model loop with the recorded projections: error %s (2 = the model does not stop where the implementation stopped after %d sweeps)" % (val, K), case)
        else:
            m_stopped, m_steps, m_warned = bool(int(val[0])), int(val[1]), bool(int(val[2]))
            errs_m = [float(v) for v in val[3:3 + m_steps]]
            fin = fl(val[3 + m_steps:3 + m_steps + 4 * n])
            if m_steps != K or m_warned != R.warned or m_stopped != stopped:
                ctx.violation(sub, site, "loop-replay", "model: stopped=%s sweeps=%d warned=%s; implementation: stopped=%s sweeps=%d warned=%s" % (m_stopped, m_steps, m_warned, stopped, K, R.warned), case)
            else:
                rec = np.concatenate([R.X[K], R.Y[K], R.P[K], R.Q[K]])
                de = max([abs(a - b) / utol(b) for a, b in zip(errs_m[1:], R.errs[1:])] + [0.0])
                if np.abs(fin - rec).max() > tol * (K + 1) or de > 1 or (errs_m and errs_m[0] != -1):
                    ctx.violation(sub, site, "loop-replay", "model loop: final record differs by %.3e, error values by %.3g x the rounding allowance" % (np.abs(fin - rec).max(), de), case)

    # ---- a-posteriori certificate on the final record (hypotheses of C05_certificate_record, exact PSD decisions)
    gap, slack, cert_ok = final_record(ctx, sub, case, c, B, R, x0, scale, site)
    g = float(gap)
    xK = R.X[K]
    # variational inequality against physical competitors: <x0 - x, z - x> <= gap + slack  (consequence of the theorem)
    zs = np.random.default_rng(case["sseed"])
    worst = -1e300
    comps = [rand_physical(kind, B, m, zs) for _ in range(ctx.n(4, 8))] + [rand_physical(kind, B, m, zs, rank=1), origin(kind, d, m)[0]]
    for z in comps:
        worst = max(worst, float(np.dot(x0 - xK, z - xK)) - g)
    if worst > slack:
        ctx.violation(sub, site, "variational-inequality", "a physical z has <x0-x, z-x> - gap = %.3e > slack %.3e: the returned point is not the nearest physical point up to its own gap" % (worst, slack), case)

    # ---- gap and infeasibility
    err_last = R.errs[K - 1] if K >= 2 else None
    nx0 = float(np.linalg.norm(x0))
    kap = 2 * math.sqrt(m * d) + 2
    r_eq = float(np.linalg.norm(eq_residual(kind, d, m, R.res_sv)))
    lam = min_eig(kind, B, m, R.res_sv)
    ratio = None
    if err_last is not None:
        # proved for arbitrary projections: gap^2 <= |p|^2 * error_value, |x-y|^2 <= error_value (C05_gap_le_error,
        # C05_infeasibility_le_error); with y in the range of the first projection and x in the range of the second
        # this bounds the infeasibility of the returned point by kap * sqrt(error_value) (constants: see manifest)
        if g * g > R.cert["pp"] * err_last * (1 + 1e-6) + 1e-24 * (1 + scale) ** 4 or R.cert["dxy"] > err_last * (1 + 1e-6) + 1e-26 * (1 + scale) ** 2:
            ctx.violation(sub, site, "gap-vs-error-value", "gap^2=%.3e > |p|^2*err=%.3e or |x-y|^2=%.3e > err=%.3e" % (g * g, R.cert["pp"] * err_last, R.cert["dxy"], err_last), case)
        tolr = kap * math.sqrt(err_last) + 1e-9 * (1 + scale)
        if r_eq > tolr or -lam > tolr:
            ctx.violation(sub, site, "infeasibility-vs-error-value", "result: equality residual %.3e, min eigenvalue %.3e, but last error_value %.3e allows only %.3e" % (r_eq, lam, err_last, tolr), case)
    if mi >= 1000:
        # the routine's own fuel: "physical / nearest up to the accuracy implied by the stopping threshold", judged by the
        # REQUESTED threshold however the loop ended (an out-of-fuel result has to meet the same yardstick)
        yard = math.sqrt(eps) * (1 + nx0 ** 2)
        ratio = g / yard
        if g > C_GAP * yard:
            ctx.violation(sub, site, "gap-exceeds-threshold-bound", "gap %.3e > %.0f*sqrt(%.1e)*(1+|x0|^2) = %.3e (%s after %d sweeps)" % (g, C_GAP, eps, C_GAP * yard, outcome, K), case)
        tolf = C_INF * yard + 1e-9 * (1 + scale)
        if stopped:
            tolf = min(tolf, kap * math.sqrt(eps) + 1e-9 * (1 + scale))
        v_eq = bool(R.res_obj.is_eq_constraint_satisfied(atol=tolf)); v_in = bool(R.res_obj.is_ineq_constraint_satisfied(atol=tolf))
        if r_eq > tolf or not v_eq:
            ctx.violation(sub, site, "infeasible-eq", "result violates the equality constraint by %.3e (tolerance %.3e from eps %.1e, %s after %d sweeps; quara verdict %s)" % (r_eq, tolf, eps, outcome, K, v_eq), case)
        psd_ok = True; lim = ctx.n(9, 16)
        for Mb in blocks(kind, B, m, R.res_sv):
            psd_ok = psd_ok and psd_exact_or_float(ctx, Mb, tolf, lim)[0]
        if not psd_ok or not v_in:
            ctx.violation(sub, site, "infeasible-ineq", "result is not PSD within %.3e (min eigenvalue %.3e, eps %.1e, %s after %d sweeps; exact decision %s, quara verdict %s)" % (tolf, lam, eps, outcome, K, psd_ok, v_in), case)
        st = ctx.__dict__.setdefault("c05_stats", {"gap_ratio": 0.0, "p_ratio": 0.0, "inf_ratio": 0.0})
        st["gap_ratio"] = max(st["gap_ratio"], ratio)
        st["inf_ratio"] = max(st["inf_ratio"], max(r_eq, -lam, 0.0) / yard)
        st["p_ratio"] = max(st["p_ratio"], math.sqrt(R.cert["pp"]) / (1 + nx0))

    # ---- argument view / explicit flag different from the object's own flag: same answer as the plain call, bit for bit
    if case["level"] == "var" and (case.get("argview", "plain") != "plain" or case.get("flagmismatch")):
        Rp = impl_run(dict(case, argview="plain", flagmismatch=False), c, hist=False)
        if not np.array_equal(Rp.res_var, R.res_var):
            ctx.violation(sub, site, "argument-form-changes-result", "argument view %s / object flag %s the explicit on_para_eq_constraint: result differs from the plain call by %.3e"
                          % (case.get("argview"), "differs from" if case.get("flagmismatch") else "equals", float(np.abs(Rp.res_var - R.res_var).max())), case)

    # ---- object form (layout of the arrays held by the object / fresh CompositeSystem instance / construction route): bit-identical result
    if case.get("objform", "plain") != "plain":
        Rq = impl_run(dict(case, objform="plain"), c, hist=False)
        if not np.array_equal(Rq.res_sv, R.res_sv):
            ctx.violation(sub, site, "object-form-changes-result", "object form %s: result differs from the plainly constructed object's by %.3e"
                          % (case.get("objform"), float(np.abs(Rq.res_sv - R.res_sv).max())), case)

    # ---- the caller overwrites every array it got back (result, history entries); the next call on the same object must not notice
    if case.get("scribble"):
        got = [R.result] + [v for key in ("x", "y", "p", "q") for v in R.raw_h[key] if v is not None]
        for v in got:
            a = v if isinstance(v, np.ndarray) else v.to_stacked_vector()
            if isinstance(a, np.ndarray) and a.flags.writeable:
                a[...] = 12345.678

    # ---- is_iteration_history=False returns the same point
    R2 = impl_run(case, c, hist=False, obj=R.o)       # second call, on the SAME object, without history
    if not np.array_equal(R2.res_sv, R.res_sv) or R2.warned != R.warned:
        ctx.violation(sub, site, "history-flag-changes-result", "a second call on the same object with is_iteration_history=False%s gives a different result / warning"
                      % (" (after the caller overwrote the arrays returned by the first call)" if case.get("scribble") else ""), case)

    nontriv = K >= 2 and not in_band and cert_ok
    lab = "%s/%s/%s/%s/%s" % (kind, case["level"], case["order"], case["gen"], outcome if mi >= 1000 else "fuel-edge")
    if case["level"] == "var":
        av = "run:arg:%s%s" % (case.get("argview", "plain"), "+flagmismatch" if case.get("flagmismatch") else "")
        ctx.dist[av] = ctx.dist.get(av, 0) + 1
    of = "run:objform:%s" % case.get("objform", "plain")
    ctx.dist[of] = ctx.dist.get(of, 0) + 1
    ctx.count(sub, key=key, nontrivial=nontriv, label=lab)
    ctx.dist["run:psd-decisions:" + R.cert["how"]] = ctx.dist.get("run:psd-decisions:" + R.cert["how"], 0) + 1
    if in_band:
        ctx.dist["run:in-band(trivial)"] = ctx.dist.get("run:in-band(trivial)", 0) + 1
    if replayed:
        ctx.dist["run:full-loop-replayed"] = ctx.dist.get("run:full-loop-replayed", 0) + 1


# ------------------------------------------------------------------ generators
SYSTEMS_QUICK = [("qubit", 1), ("qutrit", 1)]
SYSTEMS_THOROUGH = [("qubit", 1), ("qutrit", 1), ("qubit", 2)]
EPS = [1e-14, 1e-12, 1e-10, 1e-8, 1e-6]


def gen_point(rs, kind, B, m, gen):
    d = B.shape[1]; n = nvec(kind, d, m)
    if gen.startswith("near"):
        sig = float(gen.split(":")[1])
        return rand_physical(kind, B, m, rs) + sig * rs.normal(size=n)
    if gen.startswith("allneg"):        # every operator negative semidefinite: the cone projection of the input itself is 0
        return -float(gen.split(":")[1]) * rs.uniform(0.3, 1.0) * rand_physical(kind, B, m, rs)
    if gen.startswith("fullrank"):      # full-rank operators plus noise
        return rand_physical(kind, B, m, rs, rank=d) + float(gen.split(":")[1]) * rs.normal(size=n)
    if gen.startswith("degen"):         # exactly degenerate spectra: a multiple of the maximally mixed point (0 = the zero vector)
        return float(gen.split(":")[1]) * origin(kind, d, m)[0]
    R = float(gen.split(":")[1])
    v = rs.normal(size=n)
    return v * (R * rs.uniform(0.3, 1.0) / np.linalg.norm(v))


def gen_case(ctx, systems, level=None, order=None, gen=None, mi=None, kind=None, heavy_ok=True, objform=None):
    rng = ctx.rng
    kind = kind or rng.choice(KINDS)
    sysm = rng.choice(systems)
    if sysm == ("qubit", 2) and kind in ("gate", "mprocess") and not heavy_ok:
        sysm = ("qubit", 1)
    c, B = csys(*sysm)
    m = rng.choice([2, 3, 4]) if kind in ("povm", "mprocess") else 1
    if kind == "mprocess" and sysm != ("qubit", 1):
        m = rng.choice([2, 3])
    gen = gen or rng.choice(["near:0.001", "near:0.01", "near:0.1", "near:0.1", "far:1", "far:10", "far:100"])
    eps = rng.choice(EPS)
    rs = np.random.default_rng(rng.getrandbits(63))
    sv = gen_point(rs, kind, B, m, gen)
    if eps == 1e-14 and rng.random() < 0.5:
        eps = "default"
    if mi is None:
        mi = "default" if rng.random() < 0.3 else 1000
    return {"kind": kind, "sys": list(sysm), "m": m, "para": rng.random() < 0.5, "order": order or rng.choice(["eq_ineq", "ineq_eq"]),
            "eps": eps, "max_iter": mi, "level": level or rng.choice(["obj", "var"]), "gen": gen,
            "sv": [float(v) for v in sv], "sseed": rng.getrandbits(31),
            "argview": rng.choice(["plain", "plain", "strided", "readonly"]), "flagmismatch": rng.random() < 0.3,
            "objform": objform or (rng.choice(OBJFORMS[1:]) if rng.random() < 0.3 else "plain"), "scribble": rng.random() < 0.5}


def sub_run(ctx):
    systems = SYSTEMS_QUICK if ctx.quick else SYSTEMS_THOROUGH
    for key in systems:
        c, B = csys(*key)
        if not basis_ok(B):
            ctx.violation("run", "CompositeSystem.basis", "basis-assumption", "basis of %s is not orthonormal Hermitian with B0=I/sqrt(d)" % (key,), {"sys": list(key)}, no_input=True)
    cases = []
    # one of every (kind, level, order) first, then random
    for kind in KINDS:
        for level in ("obj", "var"):
            for order in ("eq_ineq", "ineq_eq"):
                cases.append(gen_case(ctx, systems, level=level, order=order, kind=kind, heavy_ok=not ctx.quick))
    # every object form (memory layout of the arrays the object holds, fresh CompositeSystem instance, construction route) on both routines
    i = 0
    for form in OBJFORMS[1:]:
        for level in ("obj", "var"):
            cases.append(gen_case(ctx, SYSTEMS_QUICK, level=level, kind=KINDS[i % 4], gen="near:0.1", objform=form)); i += 1
    # spectra: all-negative, full-rank, exactly degenerate (positive / negative multiple of the maximally mixed point, the zero vector)
    # negative spectra with the CONE projected first (order ineq_eq: the first projection sees the input itself): every type x both routines
    for gen in ("allneg:3", "degen:-1.3"):
        for kind in KINDS:
            for level in ("obj", "var"):
                cases.append(gen_case(ctx, SYSTEMS_QUICK, level=level, order="ineq_eq", kind=kind, gen=gen))
    for gen in ("allneg:30", "fullrank:0.05", "degen:1.7", "degen:0"):
        for level, order in (("obj", "ineq_eq"), ("var", "eq_ineq")):
            cases.append(gen_case(ctx, SYSTEMS_QUICK, level=level, order=order, kind=KINDS[i % 4], gen=gen)); i += 1
    for _ in range(ctx.n(55, 500) if not getattr(ctx, "widen", False) else 250):
        cases.append(gen_case(ctx, systems, heavy_ok=not ctx.quick))
    # fuel edge cases: 0 (error branch), 1 (no test at all), 2, 3 and a fuel that is hit exactly
    for mi in (0, 1, 2, 3, 5):
        for level in ("obj", "var"):
            for order in (("eq_ineq",) if mi == 0 else ("eq_ineq", "ineq_eq")):
                for _ in range(ctx.n(1, 3)):
                    cases.append(gen_case(ctx, SYSTEMS_QUICK, mi=mi, gen="near:0.1", level=level, order=order))
    ctx.sample("run", dict(cases[0], sv=cases[0]["sv"][:4] + ["..."]))
    ctx.run_cases("run", chk_run, cases)
    st = ctx.__dict__.get("c05_stats")
    if st:
        ctx.note("run (default fuel): max gap/(sqrt(eps)(1+|x0|^2)) = %.3g (C_GAP = %g), max infeasibility/(sqrt(eps)(1+|x0|^2)) = %.3g (C_INF = %g), max |p_K|/(1+|x0|) = %.3g"
                 % (st["gap_ratio"], C_GAP, st["inf_ratio"], C_INF, st["p_ratio"]))


# ------------------------------------------------------------------ both orders x both routines agree
def chk_agree(ctx, case):
    sub = "agree"
    kind, m, para = case["kind"], case["m"], case["para"]
    eps = DEFAULT_EPS if case["eps"] == "default" else case["eps"]
    mi = DEFAULT_FUEL if case["max_iter"] == "default" else case["max_iter"]
    c, B = csys(*case["sys"]); d = c.dim
    o = build(kind, c, case["sv"], m, para, "eq_ineq", eps)
    var = np.array(o.to_var(), dtype=float)
    x0 = np.array(type(o).convert_var_to_stacked_vector(c, var.copy(), on_para_eq_constraint=para), dtype=float)
    base = dict(case, sv=[float(v) for v in x0], argview="plain", flagmismatch=False)
    runs = []
    for level in ("obj", "var"):
        for order in ("eq_ineq", "ineq_eq"):
            R = impl_run(base, c, order=order, level=level)
            if R.K < 1:
                return
            scale = max(float(np.linalg.norm(x0)), float(np.linalg.norm(R.P[R.K])), float(np.linalg.norm(R.Q[R.K])))
            site = "QOperation.calc_proj_physical" if level == "obj" else "QOperation.calc_proj_physical_with_var"
            gap, slack, ok = final_record(ctx, sub, dict(base, order=order, level=level), c, B, R, x0, scale, site)
            w, t = restore(kind, B, m, R.X[R.K])
            feas = np.linalg.norm(eq_residual(kind, d, m, w)) <= 1e-12 * (1 + scale) and min_eig(kind, B, m, w) >= -1e-12 * (1 + scale)
            runs.append((level, order, R, float(gap), slack, ok, w, t, feas, scale))
    # the func_ wrappers are the same routines (exactly) - the wrapper is taken from an object whose OWN mode_proj_order is the other
    # one: the explicit argument has to win (dispatch proved for the regenerated text: gen_func_*_dispatch), and the object is left alone
    for level, order, R, g, slack, ok, w, t, feas, scale in runs:
        other = "ineq_eq" if order == "eq_ineq" else "eq_ineq"
        host = build(kind, c, base["sv"], m, para, other, eps)
        with contextlib.redirect_stdout(io.StringIO()):
            if level == "obj":
                f = host.func_calc_proj_physical(on_para_eq_constraint=para, mode_proj_order=order, max_iteration=mi)
                fv = np.array(f(var.copy()), dtype=float); ref = np.array(R.result.to_var(), dtype=float)
            else:
                f = host.func_calc_proj_physical_with_var(on_para_eq_constraint=para, mode_proj_order=order, max_iteration=mi)
                fv = np.array(f(var.copy()), dtype=float); ref = R.res_var
        if host.mode_proj_order != other:
            ctx.violation(sub, "QOperation.func_calc_proj_physical" + ("" if level == "obj" else "_with_var"), "mutates-receiver",
                          "building / calling the wrapper changed the object's own mode_proj_order to %r" % host.mode_proj_order, dict(base, order=order, level=level))
        if fv.shape != ref.shape or np.abs(fv - ref).max() > 1e-12 * (1 + scale):
            ctx.violation(sub, "QOperation.func_calc_proj_physical" + ("" if level == "obj" else "_with_var"), "wrapper-differs",
                          "wrapper result differs from the direct call by %.3e" % (np.abs(fv - ref).max() if fv.shape == ref.shape else float("inf")), dict(base, order=order, level=level))
    worst = 0.0; wcase = ""
    allok = all(r[5] and r[8] for r in runs)
    for i in range(len(runs)):
        for j in range(i + 1, len(runs)):
            li, oi, Ri, gi, si, _, wi, ti, _, sci = runs[i]
            lj, oj, Rj, gj, sj, _, wj, tj, _, scj = runs[j]
            xi, xj = Ri.X[Ri.K], Rj.X[Rj.K]
            # C05_two_runs_agree with the certified gaps (+ their slacks) and the restored feasible points
            bound = (gi + si) + (gj + sj) + float(np.dot(x0 - xi, xj - wj)) + float(np.dot(x0 - xj, xi - wi))
            d2 = float(np.dot(xi - xj, xi - xj))
            allow = bound + 1e-9 * (1 + max(sci, scj)) ** 2
            if allok and d2 > allow:
                ctx.violation(sub, "QOperation.calc_proj_physical", "runs-disagree",
                              "%s/%s vs %s/%s: |x-x'|^2 = %.3e exceeds the proved bound %.3e (gaps %.2e %.2e)" % (li, oi, lj, oj, d2, bound, gi, gj),
                              dict(base, pair=[li, oi, lj, oj]))
            if allow > 0 and d2 / allow > worst:
                worst = d2 / allow
                wcase = "%s %s eps=%g %s/%s vs %s/%s |x-x'|^2=%.3e allowance=%.3e" % (kind, case["gen"], eps, li, oi, lj, oj, d2, allow)
    outcome = "all-stopped" if all(r[2].K < mi for r in runs) else "some-out-of-fuel"
    ctx.count(sub, key=(kind, tuple(case["sys"]), m, para, eps, case["gen"], round(float(np.sum(x0)), 12)), nontrivial=allok,
              label="%s/%s/%s" % (kind, case["gen"], outcome))
    st = ctx.__dict__.setdefault("c05_agree", {"ratio": 0.0, "case": ""})
    if worst > st["ratio"]:
        st["ratio"] = worst; st["case"] = wcase


def sub_agree(ctx):
    systems = SYSTEMS_QUICK if ctx.quick else SYSTEMS_THOROUGH
    cases = []
    for kind in KINDS:
        cases.append(gen_case(ctx, SYSTEMS_QUICK, kind=kind, gen="near:0.01"))
    for _ in range(ctx.n(14, 85)):
        cs = gen_case(ctx, systems, heavy_ok=not ctx.quick)
        cases.append(cs)
    ctx.sample("agree", dict(cases[0], sv=cases[0]["sv"][:4] + ["..."]))
    ctx.run_cases("agree", chk_agree, cases)
    st = ctx.__dict__.get("c05_agree")
    if st:
        ctx.note("agree: max |x-x'|^2 / (proved bound + rounding allowance) over all pairs = %.3g (%s)" % (st["ratio"], st["case"]))


# ------------------------------------------------------------------ physical inputs are fixed points
def chk_physical(ctx, case):
    sub = "physical"
    kind, m, para = case["kind"], case["m"], case["para"]
    c, B = csys(*case["sys"]); d = c.dim
    x0 = np.array(case["sv"], dtype=float)
    for level in ("obj", "var"):
        for order in ("eq_ineq", "ineq_eq"):
            site = "QOperation.calc_proj_physical" if level == "obj" else "QOperation.calc_proj_physical_with_var"
            R = impl_run(case, c, order=order, level=level)
            cs = dict(case, order=order, level=level)
            dres = float(np.abs(R.res_sv - x0).max())
            dmax = max(float(np.abs(v - x0).max()) for v in R.X)
            pq = max(max(float(np.abs(v).max()) for v in R.P), max(float(np.abs(v).max()) for v in R.Q))
            tol = 1e-11 * (1 + float(np.linalg.norm(x0)))
            # model (C05_run_fixed_point): stopped after exactly two sweeps, error values [None, 0], every iterate = input
            if dres > tol or dmax > tol or pq > tol:
                ctx.violation(sub, site, "physical-input-moved", "physical input: result differs by %.3e, iterates by %.3e, corrections up to %.3e" % (dres, dmax, pq), cs)
            elif R.K != 2 or R.warned or not (R.errs[1] <= tol * tol * len(x0)):
                ctx.violation(sub, site, "physical-input-not-stopped-at-2", "physical input: %d sweeps, error values %s" % (R.K, R.errs[:3]), cs)
            ctx.count(sub, key=(kind, tuple(case["sys"]), m, para, order, level, case["gen"], round(float(np.sum(x0)), 12)), label="%s/%s" % (kind, case["gen"]))


def exact_physical(kind, B, m, which):
    """textbook physical points with short mantissas"""
    dd = B.shape[0]; d = B.shape[1]

    def coef(M):
        return np.einsum("aij,ij->a", B.conj(), M).real
    E = [np.zeros((d, d), dtype=complex) for _ in range(d)]
    for i in range(d):
        E[i][i, i] = 1
    if kind == "state":
        return coef(E[0]) if which == 0 else origin(kind, d, m)[0]
    if kind == "povm":
        if which == 0:      # projective (coarse-grained to m outcomes), boundary of the cone
            els = [np.zeros((d, d), dtype=complex) for _ in range(m)]
            for i in range(d):
                els[min(i, m - 1)] = els[min(i, m - 1)] + E[i]
            return np.concatenate([coef(e) for e in els])
        return origin(kind, d, m)[0]
    if kind == "gate":
        return np.eye(dd).ravel() if which == 0 else origin(kind, d, m)[0]
    if which == 0:          # Lueders instrument of the coarse-grained projective measurement
        els = [np.zeros((d, d), dtype=complex) for _ in range(m)]
        for i in range(d):
            els[min(i, m - 1)] = els[min(i, m - 1)] + E[i]
        out = []
        for e in els:
            H = np.zeros((dd, dd))
            for b in range(dd):
                H[:, b] = coef(e @ B[b] @ e)
            out.append(H.ravel())
        return np.concatenate(out)
    return origin(kind, d, m)[0]


def sub_physical(ctx):
    systems = SYSTEMS_QUICK if ctx.quick else SYSTEMS_THOROUGH
    rng = ctx.rng
    cases = []
    for kind in KINDS:
        for sysm in systems:
            if sysm == ("qubit", 2) and kind in ("gate", "mprocess") and ctx.quick:
                continue
            c, B = csys(*sysm)
            for which in (0, 1):
                m = 1 if kind in ("state", "gate") else rng.choice([2, 3])
                cases.append({"kind": kind, "sys": list(sysm), "m": m, "para": rng.random() < 0.5, "order": "eq_ineq", "eps": rng.choice(EPS), "max_iter": 1000,
                              "level": "obj", "gen": "textbook-%d" % which, "sv": [float(v) for v in exact_physical(kind, B, m, which)], "sseed": 1, "strict": True})
            for _ in range(ctx.n(2, 12)):
                m = 1 if kind in ("state", "gate") else rng.choice([2, 3, 4] if sysm == ("qubit", 1) else [2, 3])
                rs = np.random.default_rng(rng.getrandbits(63))
                rank = rng.choice([1, None])
                cases.append({"kind": kind, "sys": list(sysm), "m": m, "para": rng.random() < 0.5, "order": "eq_ineq", "eps": rng.choice(EPS), "max_iter": 1000,
                              "level": "obj", "gen": "random-rank1" if rank else "random-mixed", "sv": [float(v) for v in rand_physical(kind, B, m, rs, rank=rank)], "sseed": 1})
    ctx.sample("physical", dict(cases[0], sv=cases[0]["sv"][:4] + ["..."]))
    ctx.run_cases("physical", chk_physical, cases)


# ------------------------------------------------------------------ the stopping-criterion helpers and configuration
def chk_criterion(ctx, case):
    sub = "criterion"
    c, B = csys("qubit", 1)
    n = case["n"]
    o = build("state", c, [0.5, 0.1, 0.2, 0.3], 1, True, "eq_ineq", case["eps"])
    vs = [np.array(v, dtype=float) for v in case["vecs"]]     # p, p', q, q', x, x', y, y'
    p, p1, q, q1, x, x1, y, y1 = vs
    mdl = ctx.get_model()
    bm = mdl.call("c05.br", [n], [float(t) for v in vs for t in v])
    b2 = float(o._calc_stopping_criterion_birgin_raydan2_vectors(p, p1, q, q1, x, x1, y, y1))
    b1 = float(o._calc_stopping_criterion_birgin_raydan_vectors(p, p1, q, q1, x, x1, y, y1))
    sc = 1 + sum(float(np.dot(v, v)) for v in vs)
    if abs(b2 - float(bm[0])) > 1e-12 * sc:
        ctx.violation(sub, "QOperation._calc_stopping_criterion_birgin_raydan2_vectors", "value", "impl %.15e model %.15e" % (b2, float(bm[0])), case)
    if abs(b1 - float(bm[1])) > 1e-12 * sc:
        ctx.violation(sub, "QOperation._calc_stopping_criterion_birgin_raydan_vectors", "value", "impl %.15e model %.15e" % (b1, float(bm[1])), case)
    verdict, val = o._is_satisfied_stopping_criterion_birgin_raydan_vectors(p, p1, q, q1, x, x1, y, y1, case["eps"])
    exact = bm[0]
    from fractions import Fraction
    e = Fraction(*float(case["eps"]).as_integer_ratio())
    margin = abs(float(exact - e))
    away = margin > 1e-9 * float(e) or case.get("exact_threshold", False)
    if away and bool(verdict) != (exact < e):
        ctx.violation(sub, "QOperation._is_satisfied_stopping_criterion_birgin_raydan_vectors", "decision", "error %.17e eps %.17e verdict %s (strict < expected)" % (float(exact), case["eps"], verdict), case)
    ctx.count(sub, key=(n, case["eps"], tuple(case["vecs"][0])), nontrivial=away, label="threshold-exact" if case.get("exact_threshold") else "random")


def chk_settings(ctx, case):
    """per-object threshold vs the global Settings: eps_proj_physical=None takes Settings.get_atol()/10 AT CONSTRUCTION, an explicit value
    wins over Settings, and a later change of Settings does not reach an existing object; the loop stops by the object's own threshold"""
    sub = "config"
    from quara.settings import Settings
    from quara.objects.state import State
    c, B = csys("qubit", 1)
    vec = np.array(case["sv"], dtype=float)
    old = Settings.get_atol()
    site = "QOperation.eps_proj_physical"
    try:
        Settings.set_atol(case["atol_build"])
        o = State(c, vec.copy(), is_physicality_required=False, eps_proj_physical=case["eps"], mode_proj_order=case["order"])
        want = case["atol_build"] / 10.0 if case["eps"] is None else case["eps"]
        e0 = o.eps_proj_physical
        Settings.set_atol(case["atol_later"])
        e1 = o.eps_proj_physical
        with contextlib.redirect_stdout(io.StringIO()):
            res, h = o.calc_proj_physical(is_iteration_history=True)
        errs = h["error_value"]
    finally:
        Settings.set_atol(old)
    if e0 != want or e1 != want:
        ctx.violation(sub, site, "settings-vs-object", "eps_proj_physical=%r under atol %g: object has %r, after Settings changed to %g: %r (expected %g both times)"
                      % (case["eps"], case["atol_build"], e0, case["atol_later"], e1, want), case)
    K = len(errs)
    if K < 1000 and not (K >= 2 and errs[-1] < want and all(e >= want for e in errs[1:-1])):
        ctx.violation(sub, "QOperation.calc_proj_physical", "settings-vs-object", "the loop did not stop by the object's own threshold %g: error values end %s" % (want, errs[-3:]), case)
    ctx.count(sub, key=("settings", case["eps"], case["atol_build"], case["atol_later"], case["order"]), nontrivial=K >= 3, label="settings")


def chk_config(ctx, case):
    sub = "config"
    if "atol_build" in case:
        return chk_settings(ctx, case)
    c, B = csys("qubit", 1)
    from quara.objects.state import State
    mode = case["mode"]
    try:
        State(c, np.array([0.5, 0.1, 0.2, 0.3]), is_physicality_required=False, mode_proj_order=mode); raised = None
    except Exception as e:
        raised = type(e).__name__
    valid = mode in ("eq_ineq", "ineq_eq")
    if valid != (raised is None) or (not valid and raised != "ValueError"):
        ctx.violation(sub, "QOperation._validate_mode_proj_order", "validation", "mode_proj_order=%r: raised %s" % (mode, raised), case)
    s = State(c, np.array([0.5, 0.1, 0.2, 0.3]), is_physicality_required=False)
    try:
        s.set_mode_proj_order(mode); raised2 = None
    except Exception as e:
        raised2 = type(e).__name__
    if valid != (raised2 is None) or (valid and s.mode_proj_order != mode):
        ctx.violation(sub, "QOperation.set_mode_proj_order", "validation", "mode_proj_order=%r: raised %s, now %r" % (mode, raised2, s.mode_proj_order), case)
    ctx.count(sub, key=mode, nontrivial=False, label="valid" if valid else "invalid")


def sub_criterion(ctx):
    rng = ctx.rng
    cases = []
    for _ in range(ctx.n(40, 300)):
        n = rng.choice([1, 2, 3, 5, 8])
        sc = rng.choice([1e-7, 1e-3, 1.0, 50.0])
        vecs = [[rng.randint(-40, 40) / 16.0 * sc for _ in range(n)] for _ in range(8)]
        cases.append({"n": n, "eps": rng.choice(EPS + [1.0, 1e3]), "vecs": vecs})
    # exactly at the threshold: error_value == eps must NOT stop; one ulp above eps must stop
    z = [0.0, 0.0]
    for eps, stop in ((2.0 ** -20, False), (2.0 ** -20 * (1 + 2.0 ** -52), True)):
        cases.append({"n": 2, "eps": eps, "vecs": [[2.0 ** -10, 0.0], z, z, z, z, z, z, z], "exact_threshold": True})
        cases.append({"n": 2, "eps": eps, "vecs": [z, z, [0.0, 2.0 ** -11], [0.0, -2.0 ** -11], z, z, z, z], "exact_threshold": True})
    ctx.sample("criterion", cases[0])
    ctx.run_cases("criterion", chk_criterion, cases)


def sub_config(ctx):
    cases = [{"mode": mo} for mo in ("eq_ineq", "ineq_eq", "ineq_eq ", "eq-ineq", "", "EQ_INEQ", "ineq")]
    sv = [0.5, 0.45, -0.3, 0.6]
    for eps, a0, a1 in ((None, 1e-9, 1e-5), (None, 1e-6, 1e-13), (1e-7, 1e-11, 1e-3), (1e-12, 1e-4, 1e-9)):
        for order in ("eq_ineq", "ineq_eq"):
            cases.append({"eps": eps, "atol_build": a0, "atol_later": a1, "order": order, "sv": sv})
    ctx.run_cases("config", chk_config, cases)


SUBS = [("criterion", sub_criterion), ("config", sub_config), ("physical", sub_physical), ("run", sub_run), ("agree", sub_agree)]
FNS = {"criterion": chk_criterion, "config": chk_config, "physical": chk_physical, "run": chk_run, "agree": chk_agree}


# ------------------------------------------------------------------ translator tie (regenerate + re-prove), run in the background
EQUIV_FILES = ["C05_EquivBase", "C05_EquivVar", "C05_EquivObj", "C05_EquivFunc", "C05_EquivThm"]      # Var / Obj / Func are compiled in parallel


def regen_dykstra(scratch, repo):
    """gen/c05_py2coq.py regenerates Gallina definitions of the two Dykstra routines and the four stopping-criterion
    helpers from the CURRENT quara/objects/qoperation.py; coq/gen/C05_Equiv*.v (copied next to them, compiled here)
    prove them equal to Model/C05_Dykstra.v on all inputs and transport the certificate theorems.
    Touches no ctx state (it runs in a thread next to the sub-checks).  returns dict(ok, theorem, error, thms, axioms)"""
    import os, re, shutil, subprocess, sys, threading
    import runner
    V = runner.V
    os.makedirs(scratch, exist_ok=True)
    thms = {}
    for f in EQUIV_FILES:
        src = open(os.path.join(V, "coq", "gen", f + ".v")).read()
        src_nc = re.sub(r"\(\*.*?\*\)", " ", src, flags=re.S)
        thms[f] = re.findall(r"^\s*Theorem\s+([\w']+)", src_nc, flags=re.M)
    all_thms = [t for f in EQUIV_FILES for t in thms[f]]
    out = {"ok": False, "theorem": all_thms[0], "error": "", "thms": all_thms, "axioms": {}}
    gen_v = os.path.join(scratch, "Gen_c05_dykstra.v")
    r = subprocess.run([sys.executable, os.path.join(V, "gen", "c05_py2coq.py"), repo, gen_v], capture_output=True, text=True, timeout=120)
    if r.returncode != 0:
        out["error"] = "translator rejected the source (outside its subset): " + (r.stdout + r.stderr)[-600:]
        return out
    q = ["-Q", os.path.join(V, "coq", "theories"), "QV", "-Q", scratch, "QVGen"]
    r = subprocess.run(["timeout", "300", "coqc"] + q + [gen_v], capture_output=True, text=True)
    if r.returncode != 0:
        out["error"] = "regenerated definitions do not compile: " + (r.stdout + r.stderr)[-600:]
        return out
    res = {}

    def compile_one(f):
        dst = os.path.join(scratch, f + ".v")
        shutil.copy(os.path.join(V, "coq", "gen", f + ".v"), dst)
        rr = subprocess.run(["timeout", "600", "coqc"] + q + [dst], capture_output=True, text=True)
        res[f] = (rr.returncode, rr.stdout + rr.stderr)

    compile_one("C05_EquivBase")
    if res["C05_EquivBase"][0] == 0:
        ths = [threading.Thread(target=compile_one, args=(f,)) for f in ("C05_EquivVar", "C05_EquivObj", "C05_EquivFunc")]
        for t in ths:
            t.start()
        for t in ths:
            t.join()
        if res["C05_EquivVar"][0] == 0 and res["C05_EquivObj"][0] == 0 and res["C05_EquivFunc"][0] == 0:
            compile_one("C05_EquivThm")
    for f in EQUIV_FILES:
        if f not in res:
            continue
        rc, o = res[f]
        if rc != 0:
            src = open(os.path.join(V, "coq", "gen", f + ".v")).read()
            m_ = re.search(r"line (\d+), characters", o)
            thm = None
            if m_:
                upto = "\n".join(src.splitlines()[:int(m_.group(1))])
                names = re.findall(r"^\s*(?:Theorem|Lemma)\s+([\w']+)", upto, flags=re.M)
                thm = names[-1] if names else None
            out["theorem"] = thm or thms[f][0]
            out["error"] = "%s.v: %s" % (f, o[-700:])
            return out
        blocks = runner.parse_assumptions(o)
        bad = [a for closed, axs in blocks for a in axs if a not in runner.ALLOWED_AXIOMS and a.split(".")[-1] not in runner.ALLOWED_AXIOMS]
        if len(blocks) != len(thms[f]) or bad:
            out["theorem"] = thms[f][0]
            out["error"] = "assumption gate on %s.v: %d blocks / %d theorems, disallowed %s" % (f, len(blocks), len(thms[f]), bad)
            return out
        for t, (closed, axs) in zip(thms[f], blocks):
            out["axioms"][t] = "closed" if closed else sorted(set(axs))
    out["ok"] = True
    return out


def run(ctx):
    import os, threading
    import runner
    ctx.rule = ("seeded inputs of all four types (State, Povm m=2..4, Gate, MProcess m=2..4) on 1 qubit and 1 qutrit (thorough: also 2 qubits): "
                "physical points + Gaussian noise 1e-3..1e-1 ('near') and random points of norm up to 1/10/100 ('far'), thresholds 1e-14..1e-6, both orders, "
                "both routines, both parametrisation flags, fuel edge cases 0/1/2/3/5; complex Hermitian operators throughout. "
                "non-trivial = at least two sweeps, every stopping decision outside the relative band 1e-4 around the threshold, final-record certificate accepted; "
                "distinct = distinct (type, system, m, flags, order, threshold, fuel, routine, input)")
    ctx.assumptions = [
        "C05: convergence/termination within max_iteration is not proved; out-of-fuel runs are a labelled outcome checked against the error value actually reached",
        "C05: the two projections are oracles (C04); their outputs are checked per run: re-invocation on the model's arguments, and normal-cone membership of EVERY record (equality side: float residual <= 1e-9 scale; PSD side of the final record: exact Coq psd_dec with shift 1e-11 scale for blocks up to 9x9 quick / 16x16 thorough, LAPACK above and for the intermediate records, labelled)",
        "C05: coefficient vector <-> operator is an isometry for the orthonormal Hermitian basis read from quara (Gram matrix checked numerically each run)",
        "C05: gap bound constant C_GAP=25 calibrated on the unchanged tree with >=100x margin (empirical link between threshold and gap); infeasibility tolerance (2 sqrt(m d)+2) sqrt(eps) follows from the proved |x-y|^2 <= error_value (Props: C05_eq_residual_le / C05_psd_shift)",
        "C05: translator tie (gen/c05_py2coq.py + coq/gen/C05_Equiv*.v): the loop skeleton and the stopping-criterion arithmetic are regenerated from the source and proved equal to the model on every run; logging statements are dropped by the translator; objects are represented by their stacked vectors; the projections / conversions / copy are oracles with exact argument shapes",
    ]
    # the translator tie runs next to the theorems and the sub-checks (own scratch, no shared state)
    box = {}
    th = threading.Thread(target=lambda: box.update(r=regen_dykstra(os.path.join(ctx.scratch, "gen"), os.environ.get("VERIF_REPO", "/repo"))))
    th.start()
    ok, info = runner.check_props(ctx)
    for name, fn in SUBS:
        if ctx.only is None or name in ctx.only:
            fn(ctx)
    th.join()
    rg = box.get("r") or {"ok": False, "theorem": None, "error": "regeneration thread died", "thms": [], "axioms": {}}
    ctx.theorems = list(ctx.theorems) + [t for t in rg["thms"] if t not in ctx.theorems]
    ctx.obligations += len(rg["thms"])
    ctx.axioms.update(rg["axioms"])
    if rg["ok"]:
        ctx.discharged += len(rg["thms"])
    else:
        ok, info = False, {"theorem": rg["theorem"], "error": rg["error"]}
        ctx.note("regenerated-code obligations (coq/gen/C05_Equiv*.v) not discharged: %s" % str(rg["error"])[:400])
        if not ctx.violations and (ctx.only is None or "run" in ctx.only):
            # the source no longer matches the model: widen the search for a concrete failing input before giving up
            ctx.widen = True
            sub_run(ctx)
    if not ok:
        ctx.discharged = min(ctx.discharged, ctx.obligations - 1)
    if not ok and not ctx.violations:
        ctx.violation("theorems", "Props/%s.v + coq/gen/C05_Equiv*.v" % ctx.prop_id, "theorem-broken:%s" % info.get("theorem"),
                      "theorem %s no longer checks: %s" % (info.get("theorem"), str(info.get("error", ""))[-400:]),
                      {"theorem": info.get("theorem"), "error": info.get("error")}, no_input=True)
    elif not ok:
        ctx.note("theorem obligations not discharged: %s" % info)


def replay(ctx, doc):
    flow.standard_replay(ctx, doc, FNS)
