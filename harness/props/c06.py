"""C06 — composition implements quantum mechanics and is associative.

Three-way comparison on every case:
  implementation (quara.objects.operators.compose_qoperations on the working tree)
  vs the extracted Coq model of the code (Model/C06_Compose.v, op c06.compose).  The faithful model is the code AFTER the
     three repairs of /verif/fixes (compose-mprocess-mprocess-order-layout, compose-mprocess-state-poststate-normalisation,
     povm-generate-mprocess-mode1-eigenvectors): fix_mm = fix_ps = 1, generate_mprocess op mode 1.  The variants "as coded
     before the fix" (flags 0, op mode 10) are evaluated only when the implementation disagrees with the faithful model, to
     name the regression (site + signature of the old defect) instead of a generic model-mismatch
  vs an independent DIRECT evaluation with Kraus operators in numpy (props/c06_gen.py) — the property predicate."""
import itertools, warnings, types
from fractions import Fraction as Fr
import numpy as np
from common import flow, qcheck
from common.model import cflat
from props import c06_gen as G

LEVEL = "proof"
ERRKIND = {1: "ValueError", 2: "ValueError", 3: "ValueError", 10: "TypeError", 20: "TypeError", 21: "ValueError",
           22: "AttributeError", 23: "ValueError", 25: "UnboundLocalError", 26: "ValueError", 27: "ValueError", 28: "ValueError"}
SITE_MM = "operators._compose_qoperations_MProcess_MProcess"
SITE_PS = "operators._compose_qoperations_MProcess_State_for_States"
SITE_GM1 = "Povm.generate_mprocess(mode_backaction=1)"
ATOL = 1e-13
EPS8 = 1e-8


# ------------------------------------------------------------------ systems
_SYS = {}


def get_sys(shape, which=0):
    """(c_sys, dense basis list, d). 'which' gives independent CompositeSystems of the same kind."""
    key = (shape, which)
    if key in _SYS:
        return _SYS[key]
    from quara.objects.composite_system import CompositeSystem
    from quara.objects.elemental_system import ElementalSystem
    from quara.objects import matrix_basis as mb
    base = 100 * which + {"1q": 0, "3": 10, "2q": 20, "1q-pauli": 30, "1q-herm": 40, "2q-exact": 50, "2x3": 60}[shape]
    if shape == "1q":
        c = CompositeSystem([ElementalSystem(base, mb.get_normalized_pauli_basis())])
    elif shape == "3":
        c = CompositeSystem([ElementalSystem(base, mb.get_normalized_gell_mann_basis())])
    elif shape == "2q":
        c = CompositeSystem([ElementalSystem(base, mb.get_normalized_pauli_basis()), ElementalSystem(base + 1, mb.get_normalized_pauli_basis())])
    elif shape == "2x3":           # UNEQUAL local dimensions: qubit (Pauli) (x) qutrit (Gell-Mann), d = 6
        c = CompositeSystem([ElementalSystem(base, mb.get_normalized_pauli_basis()), ElementalSystem(base + 1, mb.get_normalized_gell_mann_basis())])
    elif shape == "2q-exact":
        # ONE 4-level system whose basis is the 2-qubit normalised Pauli basis with EXACT entries +-1/2, +-i/2 (quara's own product basis
        # is (1/sqrt 2)^2 = 0.5000000000000001 in floats): with dyadic operands every float operation of the implementation is exact
        sig = [np.eye(2), np.array([[0, 1], [1, 0]]), np.array([[0, -1j], [1j, 0]]), np.diag([1, -1])]
        c = CompositeSystem([ElementalSystem(base, mb.MatrixBasis([np.kron(a, b).astype(np.complex128) / 2 for a in sig for b in sig]))])
    elif shape == "1q-pauli":      # Hermitian, NOT normalised: generic-basis branch
        c = CompositeSystem([ElementalSystem(base, mb.get_pauli_basis())])
    else:
        c = CompositeSystem([ElementalSystem(base, mb.get_normalized_hermitian_basis(2))])
    B = [np.array(b.toarray() if hasattr(b, "toarray") else b, dtype=complex) for b in c.basis()]
    _SYS[key] = (c, B, c.dim)
    return _SYS[key]


def sys_id(c_sys):
    for (shape, which), (c, _, _) in _SYS.items():
        if c == c_sys:               # CompositeSystem.__eq__: same ElementalSystem objects (an equal-but-not-identical instance is the same system)
            return 1000 * which + {"1q": 1, "3": 2, "2q": 3, "1q-pauli": 4, "1q-herm": 5, "2q-exact": 6, "2x3": 7}[shape]
    return -1


def umat(B):
    return np.array([b.conj().ravel() for b in B])          # U[a,(ij)] = conj(B_a[i,j])


def vec_of(B, X):
    return np.real(umat(B) @ np.asarray(X, dtype=complex).ravel()).astype(np.float64)


def op_of(B, v):
    return sum(float(x) * b for x, b in zip(v, B))


def hs_of_map(B, f):
    U = umat(B)
    cols = [U @ f(b).ravel() for b in B]
    return np.real(np.array(cols).T).astype(np.float64)


def choi_of_hs(B, hs):
    n = len(B)
    out = np.zeros((n, n), dtype=complex)                # (a zero effect gives the zero map)
    for a in range(n):
        for b in range(n):
            if hs[a, b] != 0.0:
                out = out + hs[a, b] * np.kron(B[a], B[b].conj())
    return out


# ------------------------------------------------------------------ quara objects from descriptions
def build(desc, shape, which=0, phys=True):
    from quara.objects.state import State
    from quara.objects.gate import Gate
    from quara.objects.povm import Povm
    from quara.objects.mprocess import MProcess
    c, B, d = get_sys(shape, which)
    t, sem = G.sem_of(desc)
    if t == "state":
        return State(c, vec_of(B, sem), is_physicality_required=phys)
    if t == "gate":
        return Gate(c, hs_of_map(B, lambda X: G.apply_elem(sem[0], X)), is_physicality_required=phys)
    if t == "povm":
        return Povm(c, [vec_of(B, E) for E in sem], is_physicality_required=phys)
    hss = [hs_of_map(B, (lambda X, el=el: G.apply_elem(el, X))) for el in sem]
    return MProcess(c, hss, shape=tuple(desc.get("shape") or [len(hss)]), eps_zero=desc.get("eps", 1e-8), is_physicality_required=phys)


# ------------------------------------------------------------------ model objects (dicts) <-> protocol <-> quara objects
def mobj_of_impl(o):
    from quara.objects.state import State
    from quara.objects.gate import Gate
    from quara.objects.povm import Povm
    from quara.objects.mprocess import MProcess
    from quara.objects.state_ensemble import StateEnsemble
    from quara.objects.multinomial_distribution import MultinomialDistribution
    if type(o) == State:
        return {"tag": 0, "sys": sys_id(o.composite_system), "v": [float(x) for x in o.vec]}
    if type(o) == Gate:
        return {"tag": 1, "sys": sys_id(o.composite_system), "G": [float(x) for x in np.asarray(o.hs).ravel()]}
    if type(o) == Povm:
        return {"tag": 2, "sys": sys_id(o.composite_system), "m": len(o.vecs), "P": [float(x) for v in o.vecs for x in v]}
    if type(o) == MProcess:
        return {"tag": 3, "sys": sys_id(o.composite_system), "m": len(o.hss), "shape": [int(s) for s in o.shape], "eps": float(o.eps_zero),
                "H": [float(x) for h in o.hss for x in np.asarray(h).ravel()]}
    if type(o) == StateEnsemble:
        D = o.prob_dist
        return {"tag": 4, "sys": sys_id(o.states[0].composite_system) if o.states else -1, "k": len(o.states), "zero": bool(D.is_zero_dist),
                "shape": [int(s) for s in D.shape], "eps": float(o.eps_zero), "ps": [float(x) for x in D.ps],
                "S": [float(x) for s in o.states for x in s.vec]}
    if type(o) == MultinomialDistribution:
        return {"tag": 5, "zero": bool(o.is_zero_dist), "k": len(o.ps), "shape": [int(s) for s in o.shape], "ps": [float(x) for x in o.ps]}
    raise TypeError("not a composable object: %r" % type(o))


def enc(mo):
    t = mo["tag"]
    if t == 0:
        return [0, mo["sys"]], list(mo["v"])
    if t == 1:
        return [1, mo["sys"]], list(mo["G"])
    if t == 2:
        return [2, mo["sys"], mo["m"]], list(mo["P"])
    if t == 3:
        return [3, mo["sys"], mo["m"], len(mo["shape"])] + list(mo["shape"]), [mo["eps"]] + list(mo["H"])
    if t == 4:
        return [4, mo["sys"], mo["k"], int(mo["zero"]), len(mo["shape"])] + list(mo["shape"]), [mo["eps"]] + list(mo["ps"]) + list(mo["S"])
    return [5, int(mo["zero"]), mo["k"], len(mo["shape"])] + list(mo["shape"]), list(mo["ps"])


def dec(vals, n):
    h = int(vals[0]); hdr = [int(x) for x in vals[1:1 + h]]; data = vals[1 + h:]
    t = hdr[0]
    if t == 0:
        return {"tag": 0, "sys": hdr[1], "v": data}
    if t == 1:
        return {"tag": 1, "sys": hdr[1], "G": data}
    if t == 2:
        return {"tag": 2, "sys": hdr[1], "m": hdr[2], "P": data}
    if t == 3:
        r = hdr[3]
        return {"tag": 3, "sys": hdr[1], "m": hdr[2], "shape": hdr[4:4 + r], "eps": data[0], "H": data[1:]}
    if t == 4:
        r = hdr[4]; k = hdr[2]
        return {"tag": 4, "sys": hdr[1], "k": k, "zero": bool(hdr[3]), "shape": hdr[5:5 + r], "eps": data[0], "ps": data[1:1 + k], "S": data[1 + k:]}
    r = hdr[3]
    return {"tag": 5, "zero": bool(hdr[1]), "k": hdr[2], "shape": hdr[4:4 + r], "ps": data}


def model_compose(ctx, n, sd, mobjs, fix_mm=1, fix_ps=1, ortho=1, ivec=None):
    zs = [n, ortho, fix_mm, fix_ps, len(mobjs)]; qs = [sd, ATOL, EPS8] + ([] if ortho else list(ivec))
    for mo in mobjs:
        z, q = enc(mo); zs += z; qs += q
    st, val = ctx.get_model().try_call("c06.compose", zs, qs)
    return (st, dec(val, n)) if st == "ok" else (st, val)


TAGNAME = {0: "State", 1: "Gate", 2: "Povm", 3: "MProcess", 4: "StateEnsemble", 5: "MultinomialDistribution"}
DATAKEYS = {0: ["v"], 1: ["G"], 2: ["P"], 3: ["H"], 4: ["ps", "S"], 5: ["ps"]}


def mobj_diff(a, b, tol=1e-9):
    """None when equal (structure exactly, numbers within tol), else a short description"""
    if a["tag"] != b["tag"]:
        return "type %s vs %s" % (TAGNAME[a["tag"]], TAGNAME[b["tag"]])
    for k in ("sys", "m", "k", "zero", "shape"):
        if k in a and a[k] != b.get(k):
            return "%s %s vs %s" % (k, a[k], b.get(k))
    if "eps" in a and float(a["eps"]) != float(b["eps"]):
        return "eps_zero %s vs %s" % (float(a["eps"]), float(b["eps"]))
    for k in DATAKEYS[a["tag"]]:
        x = [float(v) for v in a[k]]; y = [float(v) for v in b[k]]
        if len(x) != len(y):
            return "%s length %d vs %d" % (k, len(x), len(y))
        md = flow.maxdiff(x, y)
        if not (md <= tol * (1 + max([abs(v) for v in x] + [0.0]))):
            return "%s differs by %.3g" % (k, md)
    return None


# ------------------------------------------------------------------ bracketings
def trees(lo, hi):
    """all binary bracketings of operands lo..hi-1 (nested pairs of ints)"""
    if hi - lo == 1:
        return [lo]
    out = []
    for k in range(lo + 1, hi):
        for l in trees(lo, k):
            for r in trees(k, hi):
                out.append([l, r])
    return out


def right_nested(lo, hi):
    return lo if hi - lo == 1 else [lo, right_nested(lo + 1, hi)]


def left_nested(lo, hi):
    return lo if hi - lo == 1 else [left_nested(lo, hi - 1), hi - 1]


def rand_tree(rng, lo, hi):
    if hi - lo == 1:
        return lo
    k = rng.randrange(lo + 1, hi)
    return [rand_tree(rng, lo, k), rand_tree(rng, k, hi)]


def leaves(t):
    return [t] if isinstance(t, int) else leaves(t[0]) + leaves(t[1])


def has_mm_node(t, types):
    """does evaluating the tree compose an MProcess-valued operand with an MProcess-valued operand?"""
    def ty(t):
        if isinstance(t, int):
            return types[t], False
        (a, fa), (b, fb) = ty(t[0]), ty(t[1])
        hit = fa or fb or (a == "mproc" and b == "mproc")
        if a == "povm":
            r = "povm" if b in ("gate", "mproc") else "dist"
        elif b in ("state", "ens"):
            r = "ens" if (a == "mproc" or b == "ens") else "state"
        else:
            r = "mproc" if "mproc" in (a, b) else "gate"
        return r, hit
    return ty(t)[1]


def eval_impl(tree, objs, fold=False):
    from quara.objects.operators import compose_qoperations
    with warnings.catch_warnings():
        warnings.simplefilter("ignore")
        if fold:
            return compose_qoperations(*objs)

        def ev(t):
            return objs[t] if isinstance(t, int) else compose_qoperations(ev(t[0]), ev(t[1]))
        return ev(tree)


def eval_model(ctx, tree, mobjs, n, sd, fold=False, **kw):
    if fold:
        if len(mobjs) <= 3:
            return model_compose(ctx, n, sd, mobjs, **kw)      # the model's own n-ary fold (compose_qoperations)
        # longer chains: the fold IS the right-nested pairwise evaluation (Fixpoint compose_chain: x :: t |-> compose2 x (compose_chain t));
        # evaluated pairwise so that every intermediate result is materialised (nested function matrices recompute entries)
        tree = right_nested(0, len(mobjs))

    def ev(t):
        if isinstance(t, int):
            return ("ok", mobjs[t])
        a = ev(t[0])
        if a[0] != "ok":
            return a
        b = ev(t[1])
        if b[0] != "ok":
            return b
        return model_compose(ctx, n, sd, [a[1], b[1]], **kw)
    return ev(tree)


def call_impl(f):
    try:
        return ("ok", f())
    except Exception as e:          # noqa: the error kind is part of what is compared
        return ("err", type(e).__name__, str(e)[:200])


# ------------------------------------------------------------------ the property predicate: direct evaluation
def coarsens(shape, expected):
    """can 'shape' be obtained from 'expected' by merging ADJACENT axes (row-major flattening is then the same labelling)?"""
    i = 0
    for s in shape:
        p = 1
        if s == 1 and (i >= len(expected) or expected[i] != 1):
            continue
        while i < len(expected) and p < s:
            p *= expected[i]; i += 1
        if p != s:
            return False
    while i < len(expected) and expected[i] == 1:
        i += 1
    return i == len(expected)


def threshold_norm(ps, eps=EPS8):
    z = [0.0 if p < eps else p for p in ps]
    s = sum(z)
    return [p / s for p in z] if s > 0 else z


def inband(direct, lo=1e-11, hi=1e-5):
    return any(lo < abs(p) < hi for p in direct.get("joint", []))


def check_direct(shape, mo, direct, tol, eps_allow=EPS8):
    """compare a result (as a model-object dict, see mobj_of_impl) with the direct evaluation. returns None or (signature, text).
    Distributions: every outcome either carries the Kraus/Born probability, or was CUT to zero, which is allowed only when
    its exact probability is <= eps_allow (the documented resolution eps_zero); the comparison tolerance grows by the cut mass."""
    c, B, d = get_sys(shape)
    kind = direct["kind"]
    want_tag = {"dist": 5, "ens": 4, "state": 0, "povm": 2, "ops": 1 if direct["n_gate_only"] else 3}[kind]
    if mo["tag"] != want_tag:
        return ("result-type", "result is a %s, expected %s" % (TAGNAME[mo["tag"]], TAGNAME[want_tag]))
    sd = float(np.sqrt(d))
    if kind in ("dist", "ens"):
        joint = [max(0.0, p) if abs(p) > 1e-11 else 0.0 for p in direct["joint"]]
        ps = mo["ps"]
        if len(ps) != len(joint):
            return ("outcome-count", "distribution has %d entries, expected %d" % (len(ps), len(joint)))
        if not coarsens(mo["shape"], direct["outs"]):
            return ("layout", "shape %s is not a flattening of the time-ordered outcome counts %s" % (mo["shape"], direct["outs"]))
        cut = [x for x in range(len(ps)) if ps[x] == 0.0 and joint[x] > 0.0]
        for x in cut:
            if joint[x] > eps_allow * (1 + 1e-6):
                return ("distribution", "outcome %d has probability %.6g but was cut to 0 (eps_zero %g)" % (x, joint[x], eps_allow))
        cutmass = sum(joint[x] for x in cut)
        exp = [0.0 if x in cut else joint[x] for x in range(len(ps))]
        tot = sum(exp)
        exp = [p / tot for p in exp] if tot > 0 else exp
        tolv = tol + 4 * cutmass
        if flow.maxdiff(ps, exp) > tolv:
            return ("distribution", "distribution %s differs from Born/Kraus evaluation %s (max %.3g)" % (np.round(ps, 7).tolist(), np.round(exp, 7).tolist(), flow.maxdiff(ps, exp)))
        if abs(sum(ps) - 1) > 1e-7 or min(ps) < 0:
            return ("not-a-distribution", "ps=%s" % ps)
        if kind == "ens":
            n = d * d
            for x, (p, rho) in enumerate(zip(ps, direct["rhos"])):
                v = np.array(mo["S"][x * n:(x + 1) * n])
                if p == 0.0:
                    if np.abs(v).max() != 0.0 and joint[x] == 0.0:
                        return ("post-state", "outcome %d has probability 0 but a non-zero post state" % x)
                    continue
                tr = float(np.trace(rho).real)
                w = vec_of(B, rho / tr)
                if abs(sd * v[0] - 1) > tol:
                    return ("post-state-not-normalised", "post state of outcome %d has trace %.9g" % (x, sd * v[0]))
                if np.abs(v - w).max() > tol:
                    return ("post-state", "post state of outcome %d differs from M_x(rho)/p_x by %.3g" % (x, np.abs(v - w).max()))
        return None
    if kind == "state":
        w = vec_of(B, direct["rhos"][0])
        v = np.array(mo["v"])
        if np.abs(v - w).max() > tol:
            return ("state", "state differs from sum_K K rho K^dagger by %.3g" % np.abs(v - w).max())
        return None
    if kind == "povm":
        n = d * d
        if mo["m"] != len(direct["effects"]):
            return ("outcome-count", "povm has %d elements, expected %d" % (mo["m"], len(direct["effects"])))
        for x, E in enumerate(direct["effects"]):
            v = np.array(mo["P"][x * n:(x + 1) * n])
            if np.abs(v - vec_of(B, E)).max() > tol:
                return ("heisenberg", "element %d differs from the Heisenberg-picture effect by %.3g" % (x, np.abs(v - vec_of(B, E)).max()))
        return None
    # ops
    n = d * d
    hs_list = [np.array(mo["G"]).reshape(n, n)] if mo["tag"] == 1 else [np.array(mo["H"][x * n * n:(x + 1) * n * n]).reshape(n, n) for x in range(mo["m"])]
    if len(hs_list) != len(direct["maps"]):
        return ("outcome-count", "%d HS matrices, expected %d" % (len(hs_list), len(direct["maps"])))
    if mo["tag"] == 3 and not coarsens(mo["shape"], direct["outs"]):
        return ("layout", "shape %s is not a flattening of the time-ordered outcome counts %s" % (mo["shape"], direct["outs"]))
    for x, (hs, f) in enumerate(zip(hs_list, direct["maps"])):
        md = np.abs(hs - hs_of_map(B, f)).max()
        if md > tol:
            return ("hs", "HS matrix of outcome %d differs from the Kraus composition by %.3g" % (x, md))
    return None


def check_physical(ctx, shape, mo, exact=True):
    """composition of physical operands is physical: exact PSD decision (Coq psd_dec through qcheck) + trace conditions"""
    c, B, d = get_sys(shape)
    n = d * d; sd = float(np.sqrt(d)); t = mo["tag"]
    psd = (lambda H: qcheck.herm_psd(ctx, H, 1e-9)) if exact else (lambda H: np.linalg.eigvalsh(qcheck.herm_part(H)).min() > -1e-9)
    if t == 0:
        if abs(sd * mo["v"][0] - 1) > 1e-9 or not psd(op_of(B, mo["v"])):
            return "state not physical"
    elif t == 4:
        for x in range(mo["k"]):
            v = mo["S"][x * n:(x + 1) * n]
            if mo["ps"][x] > 0 and (abs(sd * v[0] - 1) > 1e-9 or not psd(op_of(B, v))):
                return "post state %d not physical" % x
    elif t in (1, 3):
        hs_list = [np.array(mo["G"]).reshape(n, n)] if t == 1 else [np.array(mo["H"][x * n * n:(x + 1) * n * n]).reshape(n, n) for x in range(mo["m"])]
        row = sum(hs_list)[0]
        e0 = np.zeros(n); e0[0] = 1
        if np.abs(row - e0).max() > 1e-9:
            return "not trace preserving"
        for hs in hs_list:
            if not psd(choi_of_hs(B, hs)):
                return "not completely positive"
    elif t == 2:
        tot = np.zeros(n)
        for x in range(mo["m"]):
            v = np.array(mo["P"][x * n:(x + 1) * n]); tot += v
            if not psd(op_of(B, v)):
                return "POVM element %d not PSD" % x
        e0 = np.zeros(n); e0[0] = sd
        if np.abs(tot - e0).max() > 1e-9:
            return "POVM does not sum to the identity"
    return None


# ------------------------------------------------------------------ chains
def gen_chain(rng, d, length, force=None):
    """type-valid chain in argument order: [povm]? (gate|mproc)* [state]?"""
    while True:
        head = rng.random() < 0.6
        tail = rng.random() < 0.7
        mid = length - int(head) - int(tail)
        if mid < 0 or (mid == 0 and not (head and tail)):
            continue
        break
    descs = []
    if head:
        descs.append(G.gen_povm(rng, d))
    counts = [2, 3, 4]; rng.shuffle(counts)
    for i in range(mid):
        if rng.random() < (0.65 if force != "gates" else 0.0):
            if rng.random() < 0.08:
                descs.append(G.gen_mproc(rng, d, m=1, kind="randu", eps=1e-8))        # single-outcome instrument (shape (1,)): a unitary channel as MProcess
            else:
                descs.append(G.gen_mproc(rng, d, m=counts[i % 3] if rng.random() < 0.8 else None, eps=1e-8))
        else:
            descs.append(G.gen_gate(rng, d))
    if tail:
        descs.append(G.gen_state(rng, d))
    return descs


def align_zero(rng, descs, d):
    """make some outcome have probability exactly zero: replace the state by an eigenprojector-supported state of the first
    measuring operand that acts on it (only when that operand directly follows the state)."""
    if len(descs) < 2 or descs[-1]["t"] != "state":
        return False
    nxt = descs[-2]
    if nxt["t"] == "povm" and nxt.get("kind") == "proj":
        E = G.gfromjson(nxt["effects"][0])
    elif nxt["t"] == "mproc" and nxt.get("kind") in ("luders", "coarse"):
        K = G.gfromjson(nxt["elems"][0]["k"][0][1])
        E = G.gmul(G.gadj(K), K)
    else:
        return False
    tr = G.gtrace(E)
    if tr == 0:
        return False
    descs[-1] = {"t": "state", "rho": G.gjson(G.gscale(1 / tr, E)), "kind": "aligned"}      # E is a projector: E/tr E is a state, other outcomes get probability 0
    return True


def chk_chain(ctx, case):
    shape = case["shape"]; descs = case["descs"]
    c, B, d = get_sys(shape); n = d * d; sd = float(np.sqrt(d))
    objs = [build(ds, shape) for ds in descs]
    mobjs = [mobj_of_impl(o) for o in objs]
    sems = [G.sem_of(ds) for ds in descs]
    direct = G.direct_chain(sems, d)
    types = [ds["t"] for ds in descs]
    band = inband(direct)
    tol = 1e-9
    for tr in case["trees"]:
        fold = tr == "fold"
        tree = None if fold else tr
        impl = call_impl(lambda: eval_impl(tree, objs, fold))
        mod = eval_model(ctx, tree, mobjs, n, sd, fold)
        mm = has_mm_node(right_nested(0, len(descs)) if fold else tree, types)
        zero = any(abs(p) < 1e-11 for p in direct.get("joint", []))
        ctx.count("chains", key=(shape, repr(descs), repr(tr)), nontrivial=not band,
                  label="%s len=%d %s%s%s" % (shape, len(descs), direct["kind"], " mm-node" if mm else "", " zero-outcome" if zero else ""))
        sub = dict(case, trees=[tr])
        # --- model <-> implementation
        variant = "code"
        if impl[0] == "ok":
            mi = mobj_of_impl(impl[1])
            if mod[0] != "ok" or mobj_diff(mod[1], mi, tol) is not None:
                # does one of the "as coded before fix" variants explain the implementation?  then the property predicate below
                # names the regression; otherwise the correspondence itself is broken
                variant = None
                for fm, fp in ((0, 1), (0, 0), (1, 0)):
                    alt = eval_model(ctx, tree, mobjs, n, sd, fold, fix_mm=fm, fix_ps=fp)
                    if alt[0] == "ok" and mobj_diff(alt[1], mi, tol) is None:
                        variant = "before-fix(mm=%d,ps=%d)" % (fm, fp)
                        break
                if variant is None:
                    variant = "unexplained"
                    why = mobj_diff(mod[1], mi, tol) if mod[0] == "ok" else "model error %s" % (mod[1],)
                    ctx.violation("chains", "operators.compose_qoperations", "model-mismatch",
                                  "correspondence: implementation differs from the model of the code (%s); bracketing %s of %s" % (why, tr, types), sub)
        else:
            if mod[0] == "ok":
                # the only modelled reason for a raise on physical operands is the physicality validation of a constructor
                pass
            elif ERRKIND.get(mod[1]) != impl[1]:
                ctx.violation("chains", "operators.compose_qoperations", "error-kind", "implementation raised %s, model error %s" % (impl[1], mod[1]), sub)
        ctx.dist["chains:model-variant-" + variant] = ctx.dist.get("chains:model-variant-" + variant, 0) + 1
        # --- property predicate
        if impl[0] != "ok":
            small = [p_ for p_ in direct.get("joint", []) if 1e-11 < abs(p_) < 1e-3]
            if "not physically correct" in impl[2] and small and mod[0] == "ok" and check_direct(shape, floatify(mod[1]), direct, tol) is None:
                # a DECISION AT ITS THRESHOLD (as the tiny-retained variant of the thresholds sub-check): a retained outcome of probability p < 1e-3 whose exact
                # post state lies on the boundary of the PSD cone; M_x(rho)/p amplifies the 1e-16 rounding of M_x(rho) beyond the constructor's absolute 1e-13.
                # The exact model composes these operands and satisfies the predicate.  Floating point, outside the technique: recorded, not an alarm.
                k_ = "chains:raise at the physicality threshold of a post state (p=%.0e..1e-3, rounding amplified by 1/p, informational)" % 1e-11
                ctx.dist[k_] = ctx.dist.get(k_, 0) + 1
                continue
            site, sig = "operators.compose_qoperations", "raises-on-physical-operands"
            if mm and mod[0] == "ok":
                # the faithful model composes these operands; does the MProcess o MProcess node as coded before the fix fail to?
                old = eval_model(ctx, tree, mobjs, n, sd, fold, fix_mm=0, fix_ps=1)
                if old[0] != "ok" or check_direct(shape, floatify(old[1]), direct, tol) is not None:
                    site = SITE_MM; sig = "order+layout"
            ctx.violation("chains", site, sig, "composition of physical operands raised %s: %s (bracketing %s of %s)" % (impl[1], impl[2], tr, types), sub)
            continue
        bad = check_direct(shape, mi, direct, tol)
        if bad is None:
            # physicality of the result: EXACT decision (verified psd_dec) on 1 qubit / qutrit always, on 2 qubits for states / POVM
            # elements (4x4) always and for Choi matrices (16x16, ~0.3-1 s each) on a sample of cases with few outcome maps;
            # otherwise the float eigvalsh decision with the same margin (LAPACK as oracle) - never skipped
            heavy = d >= 4 and mi["tag"] in (1, 3)
            exact = (not heavy) or (bool(case.get("exact_phys")) and mi.get("m", 1) <= ctx.n(3, 12))
            p = check_physical(ctx, shape, mi, exact=exact)
            ctx.dist["chains:physicality-" + ("exact" if exact else "float")] = ctx.dist.get("chains:physicality-" + ("exact" if exact else "float"), 0) + 1
            bad = ("not-physical", p) if p else None
        if bad is not None:
            site, sig = "operators.compose_qoperations", bad[0]
            # a regression to the code before one of the fixes?  the "before fix" variant must reproduce the implementation
            # (found above) and the faithful model must satisfy the predicate
            if variant.startswith("before-fix") and mod[0] == "ok" and check_direct(shape, floatify(mod[1]), direct, tol) is None:
                if "mm=0" in variant:
                    site, sig = SITE_MM, "order+layout"
                elif "ps=0" in variant:
                    site, sig = SITE_PS, "post-state-after-truncation"
            ctx.violation("chains", site, sig, "bracketing %s of %s (%s): %s" % (tr, types, shape, bad[1]), sub)


def floatify(mo):
    out = dict(mo)
    for k in ("v", "G", "P", "H", "ps", "S"):
        if k in out:
            out[k] = [float(x) for x in out[k]]
    if "eps" in out:
        out["eps"] = float(out["eps"])
    return out


def sub_chains(ctx):
    rng = ctx.rng
    cases = []
    plan = ctx.n([("1q", 22), ("3", 9), ("2q", 4), ("2x3", 2)], [("1q", 260), ("3", 110), ("2q", 40), ("2x3", 8)])
    for shape, cnt in plan:
        d = {"1q": 2, "3": 3, "2q": 4, "2x3": 6}[shape]
        for i in range(cnt):
            length = rng.choice([2, 3, 3, 4, 4, 5] if d < 4 else ([2, 3, 3, 4] if d == 4 else [2, 3]))
            descs = gen_chain(rng, d, length)
            if shape == "2x3":      # unequal local dimensions: a fixed rota of type patterns (independent of the seed), unequal outcome counts
                descs = [[G.gen_povm(rng, d, m=3), G.gen_mproc(rng, d, m=2), G.gen_state(rng, d)], [G.gen_mproc(rng, d, m=3), G.gen_mproc(rng, d, m=2)],
                         [G.gen_gate(rng, d), G.gen_mproc(rng, d, m=2), G.gen_state(rng, d)], [G.gen_povm(rng, d, m=2), G.gen_gate(rng, d)]][i % 4]
            if rng.random() < 0.3:
                align_zero(rng, descs, d)
            L = len(descs)
            if ctx.quick:
                ts = ["fold", left_nested(0, L)]
                if L >= 3:
                    ts.append(rand_tree(rng, 0, L))
                ts = [t for i, t in enumerate(ts) if t not in ts[:i]]
            else:
                ts = ["fold"] + trees(0, L)
            cases.append({"shape": shape, "descs": descs, "trees": ts, "exact_phys": rng.random() < 0.15})
    ctx.sample("chains", {"shape": cases[0]["shape"], "types": [x["t"] for x in cases[0]["descs"]], "trees": cases[0]["trees"]})
    ctx.run_cases("chains", chk_chain, cases)


# ------------------------------------------------------------------ thresholds: eps_zero cuts, renormalisation, post states, zero ensembles
def diag_state(U, q):
    d = len(q)
    D = G.gz(np.zeros((d, d), dtype=int))
    for i, x in enumerate(q):
        D[0][i, i] = Fr(x)
    return G.gmul(G.gmul(U, D), G.gadj(U))


def rank1_projs(d):
    Ps = []
    for l in range(d):
        P = G.gz(np.zeros((d, d), dtype=int)); P[0][l, l] = Fr(1); Ps.append(P)
    return Ps


def gen_threshold_case(rng, d, variant):
    """[P, M2, M1, rho] with P a random POVM, M1 a measure-and-prepare instrument with trivial POVM (weights (1-w, w)) preparing
    U diag(q_x) U^dag, and M2 the rank-1 Lueders measurement in the basis U: joint probabilities are EXACTLY w_x * q_x[y]."""
    U = G.rand_unitary(rng, d)
    eps2 = {"exact-zero": rng.choice([1e-8, 1e-3]), "below": rng.choice([1e-8, 1e-5, 1e-3]), "above": 1e-3,
            "small-weight": 1e-8, "none": rng.choice([1e-8, 1e-3]), "tiny-retained": 1e-8, "ens-band": 1e-8}[variant]
    # ens-band: the EARLIER process has the larger eps_zero (1e-3); the later one (1e-8) retains a joint weight w*t = 1e-4, which lies
    # below the eps_zero = max(...) of the resulting ensemble: Povm on that ensemble zeroes the block (threshold of _Povm_StateEnsemble)
    eps1 = 1e-3 if variant == "ens-band" else 1e-8
    t = {"exact-zero": Fr(0), "below": Fr(eps2).limit_denominator(10 ** 12) / 4, "above": Fr(1, 20),
         "small-weight": Fr(5, 100000), "none": Fr(1, 7), "tiny-retained": Fr(5, 10 ** 7), "ens-band": Fr(1, 100)}[variant]
    w = Fr(1, 10000) if variant == "small-weight" else (Fr(1, 100) if variant == "ens-band" else rng.choice([Fr(1, 3), Fr(1, 2), Fr(1, 100)]))
    qs = []
    for x in range(2):
        rest = [Fr(rng.randint(1, 5)) for _ in range(d - 1)]
        tot = sum(rest)
        q = [t] + [(1 - t) * r / tot for r in rest]
        if x == 0 and variant != "none":
            q = [Fr(1, d)] * d if variant == "small-weight" else q
        rng.shuffle(q) if variant == "none" else None
        qs.append(q)
    M1 = {"t": "mproc", "kind": "prep", "shape": [2], "eps": eps1,
          "elems": [{"prep": [G.gjson(G.gscale(wx, G.geye(d))), G.gjson(diag_state(U, q))]} for wx, q in zip([1 - w, w], qs)]}
    M2 = {"t": "mproc", "kind": "luders", "shape": [d], "eps": eps2,
          "elems": [{"k": [[G.fjson(1), G.gjson(G.gmul(G.gmul(U, P), G.gadj(U)))]]} for P in rank1_projs(d)]}
    return [G.gen_povm(rng, d, kind=rng.choice(["generic", "mixed", "proj"])), M2, M1, G.gen_state(rng, d)]


def chk_threshold(ctx, case):
    """MProcess on State / on StateEnsemble around the eps_zero cut; Povm on the resulting ensembles.
    Property: probabilities = Kraus evaluation up to the documented resolution eps_zero, every retained post state is
    the NORMALISED M_x(rho)/p_x, cut outcomes carry the zero vector; model <-> implementation exactly."""
    shape = case["shape"]; descs = case["descs"]
    c, B, d = get_sys(shape); n = d * d; sd = float(np.sqrt(d))
    objs = [build(ds, shape) for ds in descs]
    mobjs = [mobj_of_impl(o) for o in objs]
    sems = [G.sem_of(ds) for ds in descs]
    eps_eff = max(float(ds.get("eps", 1e-8)) for ds in descs if ds["t"] == "mproc")
    for lo in case["starts"]:                       # evaluate the sub-chain descs[lo:] right-to-left (fold)
        sub_objs, sub_m, sub_s = objs[lo:], mobjs[lo:], sems[lo:]
        direct = G.direct_chain(sub_s, d)
        impl = call_impl(lambda: eval_impl(None, sub_objs, True))
        mod = model_compose(ctx, n, sd, sub_m, fix_mm=1, fix_ps=0)      # as coded BEFORE fix compose-mprocess-state-poststate-normalisation
        ctx.count("thresholds", key=(shape, repr(descs), lo), nontrivial=case["variant"] != "tiny-retained", label="%s %s eps=%g len=%d" % (shape, case["variant"], eps_eff, len(sub_objs)))
        sub = dict(case, starts=[lo])
        fixed = model_compose(ctx, n, sd, sub_m, fix_mm=1, fix_ps=1)    # the code
        # property on the model variants (exact): which of them satisfies it?
        pred = lambda mo: check_direct(shape, mo, direct, 1e-9, eps_allow=eps_eff)      # noqa: E731
        ok_coded = mod[0] == "ok" and pred(floatify(mod[1])) is None
        ok_fixed = fixed[0] == "ok" and pred(floatify(fixed[1])) is None
        if not ok_fixed:
            raise AssertionError("harness expectation wrong: the model of the code does not satisfy the predicate: %s" % (pred(floatify(fixed[1])) if fixed[0] == "ok" else fixed,))
        if impl[0] == "ok":
            mi = mobj_of_impl(impl[1])
            dm = mobj_diff(fixed[1], mi, 1e-9)
            if dm is not None and (mod[0] != "ok" or mobj_diff(mod[1], mi, 1e-9) is not None):
                ctx.violation("thresholds", "operators.compose_qoperations", "model-mismatch", "correspondence: implementation differs from the model of the code (%s) and from the code as it was before fix compose-mprocess-state-poststate-normalisation; operands %s" % (dm, [x["t"] for x in descs[lo:]]), sub)
            bad = pred(mi)
            if bad is not None:
                ctx.violation("thresholds", SITE_PS if not ok_coded else "operators.compose_qoperations", "post-state-after-truncation" if not ok_coded else bad[0],
                              "%s, eps_zero=%g, operands %s: %s" % (case["variant"], eps_eff, [x["t"] for x in descs[lo:]], bad[1]), sub)
        elif case["variant"] == "tiny-retained" and "not physically correct" in impl[2]:
            # a DECISION AT ITS THRESHOLD (HOWTO: compared only away from thresholds; the variant is counted as trivial): the exact post
            # state is pure (eigenvalues 0,..,0,1 - on the boundary of the PSD cone) and M_x(rho)/p_x with p_x = 5e-7 amplifies the 1e-17
            # rounding of M_x(rho) to ~1e-11, beyond the absolute validation tolerance 1e-13 of the State constructor.  Floating point,
            # outside the technique (DESIGN 1).  Recorded in the distribution table, not an alarm.
            ctx.dist["thresholds:tiny-retained raise (rounding amplified by 1/p_x, informational)"] = ctx.dist.get("thresholds:tiny-retained raise (rounding amplified by 1/p_x, informational)", 0) + 1
        else:
            # a raise on physical operands: the model of the code BEFORE the fix must explain it (a post state that is not normalised, in the
            # result or in an intermediate ensemble of the fold), otherwise it is unexplained
            if ok_coded:
                for k in range(lo + 1, len(descs) - 1):
                    inter = model_compose(ctx, n, sd, mobjs[k:], fix_mm=1, fix_ps=0)
                    if inter[0] == "ok" and check_direct(shape, floatify(inter[1]), G.direct_chain(sems[k:], d), 1e-9, eps_allow=eps_eff) is not None:
                        ok_coded = False
                        break
            ctx.violation("thresholds", SITE_PS if not ok_coded else "operators.compose_qoperations",
                          "post-state-after-truncation" if not ok_coded else "raises-on-physical-operands",
                          "%s, eps_zero=%g, operands %s: composition of physical operands raised %s: %s%s" % (
                              case["variant"], eps_eff, [x["t"] for x in descs[lo:]], impl[1], impl[2],
                              " (the model of the code as it was before fix compose-mprocess-state-poststate-normalisation yields a post state that is not trace one)" if not ok_coded else ""), sub)


def sub_thresholds(ctx):
    rng = ctx.rng
    cases = []
    for shape, d in (("1q", 2), ("3", 3)):
        for variant in ("exact-zero", "below", "above", "small-weight", "none", "tiny-retained", "ens-band"):
            for _ in range(ctx.n(2, 25)):
                cases.append({"shape": shape, "variant": variant, "descs": gen_threshold_case(rng, d, variant), "starts": [0, 1, 2]})
    # decisions EXACTLY AT a threshold, with exactly representable numbers (shape 2q-exact: Pauli basis entries +-1/2, sd = 2, dyadic states - every
    # float operation of the implementation is exact, so the model's exact decision IS the implementation's): `weight*p <= eps_zero` of
    # MProcess on State(Ensemble) (equality cuts) and `weight < eps_zero` of Povm on StateEnsemble (equality does not cut)
    for tag, descs in gen_exact_threshold_cases(rng):
        cases.append({"shape": "2q-exact", "variant": tag, "descs": descs, "starts": [0, 1] if len(descs) == 3 else [0, 1, 2]})
    ctx.sample("thresholds", {"shape": cases[0]["shape"], "variant": cases[0]["variant"]})
    ctx.run_cases("thresholds", chk_threshold, cases)


def gen_exact_threshold_cases(rng):
    I2 = np.eye(2, dtype=int); P = [np.diag([1, 0]), np.diag([0, 1])]

    def lud(projs, eps):
        return {"t": "mproc", "kind": "luders", "shape": [len(projs)], "eps": eps, "elems": [{"k": [[G.fjson(1), G.gjson(G.gz(K))]]} for K in projs]}

    def diag_rho(entries):
        R = G.gz(np.zeros((4, 4), dtype=int))
        for i, x in enumerate(entries):
            R[0][i, i] = Fr(x)
        return {"t": "state", "rho": G.gjson(R), "kind": "dyadic"}
    z0 = [np.kron(P[0], I2), np.kron(P[1], I2)]          # z-measurement of qubit 0
    z1 = [np.kron(I2, P[0]), np.kron(I2, P[1])]          # z-measurement of qubit 1
    E = Fr(1, 2 ** 10)
    out = []
    for tag, eps in (("exact-at-eps mproc cut (p == eps_zero)", E), ("exact-at-eps mproc retained (p == eps_zero(1+2^-20))", E * (1 - Fr(1, 2 ** 20)))):
        out.append((tag, [G.gen_povm(rng, 4), lud(z0, float(eps)), diag_rho([1 - E, 0, E, 0])]))
    for tag, eps1 in (("exact-at-eps povm-on-ensemble not cut (weight == eps_zero)", E), ("exact-at-eps povm-on-ensemble cut (weight == eps_zero(1-2^-20))", E * (1 + Fr(1, 2 ** 20)))):
        h = Fr(1, 2 ** 9)
        rho = diag_rho([Fr(1, 2) * (1 - h), Fr(1, 2) * h, Fr(1, 2) * (1 - h), Fr(1, 2) * h])
        out.append((tag, [G.gen_povm(rng, 4), lud(z1, float(Fr(1, 2 ** 20))), lud(z0, float(eps1)), rho]))
    return out


# ------------------------------------------------------------------ error branches and argument handling (malformed stream)
def mk_operand(rng, kind, shape, which=0):
    """a quara object of the requested kind (physical), plus None for 'dist'/'ens' which are produced by composition"""
    from quara.objects.operators import compose_qoperations
    c, B, d = get_sys(shape, which)
    if kind == "state":
        return build(G.gen_state(rng, d), shape, which)
    if kind == "gate":
        return build(G.gen_gate(rng, d), shape, which)
    if kind == "povm":
        return build(G.gen_povm(rng, d), shape, which)
    if kind == "mproc":
        return build(G.gen_mproc(rng, d), shape, which)
    with warnings.catch_warnings():
        warnings.simplefilter("ignore")
        if kind == "ens":
            return compose_qoperations(build(G.gen_mproc(rng, d), shape, which), build(G.gen_state(rng, d), shape, which))
        return compose_qoperations(build(G.gen_povm(rng, d), shape, which), build(G.gen_state(rng, d), shape, which))


KINDS = ["state", "gate", "povm", "mproc", "ens", "dist"]


def chk_errors(ctx, case):
    import random
    from quara.objects.operators import compose_qoperations
    rng = random.Random(case["seed"])
    shape = case["shape"]
    c, B, d = get_sys(shape); n = d * d; sd = float(np.sqrt(d))
    mode = case["mode"]
    if mode == "pair":
        a = mk_operand(rng, case["a"], shape, case["wa"]); b = mk_operand(rng, case["b"], shape, case["wb"])
        ops = [a, b]
        call = lambda: compose_qoperations(a, b)          # noqa: E731
    elif mode == "short":
        a = mk_operand(rng, case["a"], shape)
        ops = [a] if case["n"] == 1 else []
        call = (lambda: compose_qoperations([a])) if case.get("aslist") else ((lambda: compose_qoperations(a)) if case["n"] == 1 else (lambda: compose_qoperations()))
    elif mode == "zero-state":
        from quara.objects.state import State
        a = mk_operand(rng, "povm", shape); b = State(c, np.zeros(n), is_physicality_required=False)
        ops = [a, b]
        call = lambda: compose_qoperations(a, b)          # noqa: E731
    else:   # list flattening: compose([a, b], c) must equal compose(a, b, c)
        descs = gen_chain(rng, d, 3)
        ops = [build(ds, shape) for ds in descs]
        call = lambda: compose_qoperations(ops[:2], ops[2])          # noqa: E731
    with warnings.catch_warnings():
        warnings.simplefilter("ignore")
        impl = call_impl(call)
    mod = model_compose(ctx, n, sd, [mobj_of_impl(o) for o in ops])
    ctx.count("errors", key=repr(case), nontrivial=True, label="%s %s -> model %s" % (mode, (case.get("a", ""), case.get("b", ""), case.get("wa", 0) != case.get("wb", 0)), mod[0] if mod[0] == "ok" else "err%s" % mod[1]))
    if mod[0] == "err":
        if impl[0] != "err" or impl[1] != ERRKIND.get(mod[1]):
            ctx.violation("errors", "operators._compose_qoperations", "error-kind", "case %s: model rejects with code %s (%s), implementation: %s" % (case, mod[1], ERRKIND.get(mod[1]), impl[:2] if impl[0] == "err" else "returned a %s" % type(impl[1]).__name__), case)
        return
    if impl[0] == "err":
        ctx.violation("errors", "operators._compose_qoperations", "unexpected-raise", "case %s: implementation raised %s: %s, model accepts" % (case, impl[1], impl[2]), case)
        return
    dm = mobj_diff(mod[1], mobj_of_impl(impl[1]), 1e-9)
    if dm is not None:
        # the regression to the behaviour before the fixes is named by the chains / thresholds sub-checks, not here
        alt = model_compose(ctx, n, sd, [mobj_of_impl(o) for o in ops], fix_mm=0, fix_ps=0)
        if alt[0] != "ok" or mobj_diff(alt[1], mobj_of_impl(impl[1]), 1e-9) is not None:
            ctx.violation("errors", "operators._compose_qoperations", "model-mismatch", "case %s: %s" % (case, dm), case)


def sub_errors(ctx):
    rng = ctx.rng
    cases = []
    for a in KINDS:
        for b in KINDS:
            cases.append({"mode": "pair", "shape": "1q", "a": a, "b": b, "wa": 0, "wb": 0, "seed": rng.randrange(10 ** 9)})       # all 36 type pairs, same system
            cases.append({"mode": "pair", "shape": "1q", "a": a, "b": b, "wa": 0, "wb": 1, "seed": rng.randrange(10 ** 9)})       # different CompositeSystem
    for a in KINDS[:4]:
        cases.append({"mode": "short", "shape": "1q", "a": a, "n": 1, "seed": rng.randrange(10 ** 9)})
        cases.append({"mode": "short", "shape": "1q", "a": a, "n": 1, "aslist": True, "seed": rng.randrange(10 ** 9)})
    cases.append({"mode": "short", "shape": "1q", "a": "state", "n": 0, "seed": 1})
    for shape in ("1q", "3"):
        cases.append({"mode": "zero-state", "shape": shape, "seed": rng.randrange(10 ** 9)})
        for _ in range(ctx.n(3, 20)):
            cases.append({"mode": "list", "shape": shape, "seed": rng.randrange(10 ** 9)})
    ctx.sample("errors", cases[1])
    ctx.run_cases("errors", chk_errors, cases)


# ------------------------------------------------------------------ generic-basis branch of _compose_qoperations_MProcess_State_for_States
def chk_generic_basis(ctx, case):
    """MProcess.__init__ insists on an orthonormal basis, so the else-branch (p_x = <I_vec_gb, M_x rho>) is only reachable with a
    duck-typed first operand; exercised here on the un-normalised Pauli basis (Hermitian, orthogonal, norm^2 = 2).
    AS CODED the branch raises for every retained outcome (complex128 post state) - model error 28 - and returns zero
    states / zero probabilities when every outcome is cut; both behaviours are compared with the model."""
    import random
    from quara.objects.operators import _compose_qoperations_MProcess_State_for_States as f
    from quara.objects.state import State
    from quara.objects.matrix_basis import convert_vec
    rng = random.Random(case["seed"])
    c, B, d = get_sys("1q-pauli"); n = d * d
    desc_m = G.gen_mproc(rng, d, eps=case["eps"]); desc_s = G.gen_state(rng, d)
    _, els = G.sem_of(desc_m); _, rho = G.sem_of(desc_s)
    coeff = lambda X: np.real(np.array([np.trace(b.conj().T @ X) for b in B]) / 2.0).astype(np.float64)      # noqa: E731  dual basis = B/2
    hss = [np.array([coeff(G.apply_elem(el, b)) for b in B]).T.copy() for el in els]
    st = State(c, coeff(rho), is_physicality_required=False)
    elem1 = types.SimpleNamespace(is_physicality_required=False, composite_system=c, hss=hss, eps_zero=case["eps"])
    w = case["weight"]
    with warnings.catch_warnings():
        warnings.simplefilter("ignore")
        impl = call_impl(lambda: f(elem1, st, w))
    ivec = convert_vec(np.eye(d, dtype=np.float64).flatten(), c.comp_basis(), c.basis())
    if np.abs(np.imag(ivec)).max() != 0.0:
        raise AssertionError("I_vec_gb not real on a Hermitian basis")
    ivec = [float(x) for x in np.real(ivec)]
    mo_m = {"tag": 3, "sys": 7, "m": len(hss), "shape": [len(hss)], "eps": case["eps"], "H": [float(x) for h in hss for x in h.ravel()]}
    mo_e = {"tag": 4, "sys": 7, "k": 1, "zero": False, "shape": [1], "eps": 1e-8, "ps": [w], "S": [float(x) for x in st.vec]}
    mod = model_compose(ctx, n, 0.0, [mo_m, mo_e], ortho=0, ivec=ivec)
    direct = [float(np.trace(G.apply_elem(el, rho)).real) for el in els]
    if any(abs(w * p - case["eps"]) < 1e-3 * case["eps"] for p in direct):
        ctx.count("generic_basis", key=repr(case), nontrivial=False, label="in-band")
        return
    ctx.count("generic_basis", key=repr(case), nontrivial=True, label="weight=%g eps=%g model=%s" % (w, case["eps"], mod[0] if mod[0] == "ok" else "err%s" % mod[1]))
    if mod[0] == "err":
        if impl[0] != "err" or impl[1] != ERRKIND.get(mod[1], "ValueError"):
            ctx.violation("generic_basis", SITE_PS, "generic-basis-branch", "model of the code: error %s; implementation: %s" % (mod[1], impl[:2] if impl[0] == "err" else "returned"), case)
        return
    if impl[0] == "err":
        ctx.violation("generic_basis", SITE_PS, "generic-basis-branch", "implementation raised %s: %s; model of the code returns a value" % (impl[1], impl[2]), case)
        return
    states, ps = impl[1]
    mo = floatify(mod[1])
    if flow.maxdiff([w_ for w_ in mo["ps"]], [float(p) for p in ps]) > 1e-12 or flow.maxdiff(mo["S"], [float(x) for s_ in states for x in s_.vec]) > 1e-12:
        ctx.violation("generic_basis", SITE_PS, "model-mismatch", "generic-basis branch: implementation %s vs model %s" % ([float(p) for p in ps], mo["ps"]), case)


def sub_generic_basis(ctx):
    rng = ctx.rng
    cases = [{"seed": rng.randrange(10 ** 9), "weight": rng.choice([1.0, 0.25, 1e-3, 1e-12]), "eps": rng.choice([1e-8, 1e-2, 10.0])} for _ in range(ctx.n(12, 120))]
    ctx.sample("generic_basis", cases[0])
    ctx.run_cases("generic_basis", chk_generic_basis, cases)


# ------------------------------------------------------------------ Povm.generate_mprocess (modes 0, 1, 2) and MProcess.to_povm
def instrument_predicate(ctx, shape, povm_vecs, hss, tol, want_post=None):
    """what the property asks of an instrument generated from a POVM: it induces that POVM, is CP (exact decision on the Choi
    matrix, shifted by tol) and sum-TP; optionally the post state of outcome x on a test state is want_post[x]"""
    c, B, d = get_sys(shape); n = d * d; sd = float(np.sqrt(d))
    for x, (v, hs) in enumerate(zip(povm_vecs, hss)):
        if np.abs(sd * np.asarray(hs)[0] - np.asarray(v)).max() > tol:
            return "the instrument does not induce the POVM it was generated from (element %d differs by %.3g)" % (x, np.abs(sd * np.asarray(hs)[0] - np.asarray(v)).max())
    e0 = np.zeros(n); e0[0] = 1
    if np.abs(sum(np.asarray(h) for h in hss)[0] - e0).max() > tol:
        return "the sum of the outcome maps is not trace preserving"
    for x, hs in enumerate(hss):
        if not qcheck.herm_psd(ctx, choi_of_hs(B, np.asarray(hs)), tol):
            return "outcome map %d is not completely positive" % x
    return None


def chk_gen_mprocess(ctx, case):
    import random, scipy.linalg
    from quara.objects.povm import Povm
    rng = random.Random(case["seed"])
    shape = case["shape"]; mode = case["mode"]
    c, B, d = get_sys(shape); n = d * d; sd = float(np.sqrt(d))
    desc = case["povm"]
    _, effects = G.sem_of(desc)
    vecs = [vec_of(B, E) for E in effects]
    m = ctx.get_model()
    basis_q = [x for b in B for x in cflat(b)]
    label = "%s mode=%d %s m=%d" % (shape, mode, desc.get("kind"), len(vecs))
    if mode == 2:
        single = case["single"]
        sts = [build(G.gen_state(rng, d), shape) for _ in range(1 if single else len(vecs))]
        povm = Povm(c, vecs)
        with warnings.catch_warnings():
            warnings.simplefilter("ignore")
            impl = call_impl(lambda: povm.generate_mprocess(2, sts[0] if single else sts))
        ctx.count("gen_mprocess", key=repr(case), label=label)
        if impl[0] != "ok":
            ctx.violation("gen_mprocess", "Povm.generate_mprocess(mode_backaction=2)", "raises", "raised %s: %s" % impl[1:], case); return
        mod = m.call("c06.gm_mode2", [n, len(vecs), 0 if single else len(sts)], [float(x) for v in vecs for x in v] + [float(x) for s_ in sts for x in s_.vec])
        got = [float(x) for h in impl[1].hss for x in np.asarray(h).ravel()]
        if flow.maxdiff(got, [float(x) for x in mod]) > 1e-12:
            ctx.violation("gen_mprocess", "Povm.generate_mprocess(mode_backaction=2)", "model-mismatch", "HS matrices differ from the model by %.3g" % flow.maxdiff(got, [float(x) for x in mod]), case); return
        bad = instrument_predicate(ctx, shape, vecs, impl[1].hss, 1e-9)
        if bad is None:      # post state of every outcome is the selected state
            test = build(G.gen_state(rng, d, "full"), shape)
            for x, hs in enumerate(impl[1].hss):
                out = np.asarray(hs) @ test.vec
                if abs(sd * out[0]) > 1e-6 and np.abs(out / (sd * out[0]) - sts[0 if single else x].vec).max() > 1e-9:
                    bad = "post state of outcome %d is not the selected state" % x
        if bad:
            ctx.violation("gen_mprocess", "Povm.generate_mprocess(mode_backaction=2)", "instrument", bad, case)
        # to_povm: implementation vs model
        tp = m.call("c06.to_povm", [n, len(vecs)], [sd] + got)
        with warnings.catch_warnings():
            warnings.simplefilter("ignore")
            ind = impl[1].to_povm()
        if flow.maxdiff([float(x) for v in ind.vecs for x in v], [float(x) for x in tp]) > 1e-12:
            ctx.violation("gen_mprocess", "MProcess.to_povm", "model-mismatch", "to_povm differs from the model", case)
        return
    # modes 0 / 1: the kernel (sqrtm / eigh) is run here on the SAME matrices; its output is certificate-checked and fed to the model
    povm_np = Povm(c, vecs, is_physicality_required=False)
    mats = [np.array(M_.toarray() if hasattr(M_, "toarray") else M_) for M_ in povm_np.matrices_with_sparsity()]
    with warnings.catch_warnings():
        warnings.simplefilter("ignore")
        impl_np = call_impl(lambda: povm_np.generate_mprocess(mode))
        impl_ph = call_impl(lambda: Povm(c, vecs).generate_mprocess(mode))
    kernel = []; cert_ok = True
    for M_ in mats:
        if mode == 0:
            with warnings.catch_warnings():
                warnings.simplefilter("ignore")
                S = scipy.linalg.sqrtm(M_)
            kernel.append(cflat(S))
            # certificate (DESIGN 2.6): S S = Pi and S >= 0  =>  S (x) conj S is the Lueders instrument of Pi
            if np.abs(S @ S - M_).max() > 1e-9 or qcheck.antiherm_norm(S) > 1e-7 or not qcheck.herm_psd(ctx, S, 1e-7):
                cert_ok = False
        else:
            w, V = np.linalg.eigh(M_)
            kernel.append([float(x) for x in w] + cflat(V))
            if np.abs(V @ np.diag(w) @ V.conj().T - M_).max() > 1e-10 or np.abs(V.conj().T @ V - np.eye(d)).max() > 1e-10:
                cert_ok = False
    ctx.count("gen_mprocess", key=repr(case), nontrivial=cert_ok, label=label + ("" if cert_ok else " kernel-certificate-failed"))
    if not cert_ok:
        ctx.note("gen_mprocess: the %s output failed its certificate on a %s POVM (oracle inaccuracy, case skipped)" % ("sqrtm" if mode == 0 else "eigh", desc.get("kind")))
        return
    mod = [m.try_call("c06.gm_gb", [d, mode], [ATOL] + basis_q + k) for k in kernel]      # op mode 1 = the code (after the fixes)
    site = "Povm.generate_mprocess(mode_backaction=%d)" % mode
    # the labelled variants of mode 1 that are NOT the code: evaluated only when the implementation disagrees with the model, to name the regression
    VARIANTS = [(12, "eigenspace-grouping-bitwise"),       # before fix povm-generate-mprocess-mode1-eigenspace-tolerance (grouping of bitwise equal eigenvalues only)
                (10, "eigenvector-rows-no-conjugate"),     # before fix povm-generate-mprocess-mode1-eigenvectors
                (11, "no-eigenspace-grouping")]            # docstring formula with one rank-one projector per eigenVECTOR (no grouping at all)
    regression = None

    def variant_hss(code):
        rs = [m.try_call("c06.gm_gb", [d, code], [ATOL] + basis_q + k) for k in kernel]
        return rs, ([np.array([float(x) for x in r[1]]).reshape(n, n) for r in rs] if all(r[0] == "ok" for r in rs) else None)
    # --- correspondence (physicality not required, so that the HS matrices are observable)
    if any(r[0] == "err" for r in mod):
        code = [r[1] for r in mod if r[0] == "err"][0]
        if impl_np[0] != "err" or impl_np[1] != ERRKIND.get(code):
            ctx.violation("gen_mprocess", site, "model-mismatch", "model of the code: error %s, implementation %s" % (code, impl_np[:2] if impl_np[0] == "err" else "returned"), case)
        model_hss = None
    elif impl_np[0] == "err":
        model_hss = [np.array([float(x) for x in r[1]]).reshape(n, n) for r in mod]
        for vcode, vsig in (VARIANTS if mode == 1 else []):
            rs, _ = variant_hss(vcode)
            oc = [r[1] for r in rs if r[0] == "err"]
            if oc and ERRKIND.get(oc[0]) == impl_np[1]:
                regression = vsig
                break
        if regression is None:
            ctx.violation("gen_mprocess", site, "model-mismatch", "implementation raised %s: %s, the model of the code returns HS matrices" % impl_np[1:], case)
    else:
        model_hss = [np.array([float(x) for x in r[1]]).reshape(n, n) for r in mod]
        md = max(np.abs(a - np.asarray(b)).max() for a, b in zip(model_hss, impl_np[1].hss))
        if md > 1e-9 and mode == 1:
            for vcode, vsig in VARIANTS:
                _, vh = variant_hss(vcode)
                if vh is not None and max(np.abs(a - np.asarray(b)).max() for a, b in zip(vh, impl_np[1].hss)) <= 1e-9:
                    regression = vsig
                    break
        if md > 1e-9 and regression is None:
            ctx.violation("gen_mprocess", site, "model-mismatch", "HS matrices differ from the model of the code by %.3g" % md, case)
    # --- property predicate on the implementation's instrument
    tol = 1e-7
    bad = None
    if impl_ph[0] == "err":
        bad = "generate_mprocess raised %s on a physical POVM: %s" % impl_ph[1:]
    elif impl_np[0] == "ok":
        bad = instrument_predicate(ctx, shape, vecs, impl_np[1].hss, tol)
    rule = (lambda M_: luders_map(M_)) if mode == 0 else (lambda M_: eigenprojector_map(M_))
    if bad is None and impl_np[0] == "ok":
        # the quantum-mechanical rule of the mode, evaluated independently (numpy eigh, eigenvalues clustered at 1e-9):
        # mode 0  rho -> sqrt(Pi) rho sqrt(Pi)  (Lueders);  mode 1  rho -> sum_i p_i P_i rho P_i  with P_i the EIGENSPACE projectors of Pi
        for x, (M_, hs) in enumerate(zip(mats, impl_np[1].hss)):
            dev = np.abs(np.asarray(hs) - hs_of_map(B, rule(M_))).max()
            if dev > 1e-6:
                bad = ("mode 0: outcome %d is not the Lueders map sqrt(Pi) . sqrt(Pi) (HS differs by %.3g)" if mode == 0 else
                       "mode 1: outcome %d is not the eigenprojector instrument sum_i p_i P_i . P_i of its effect (HS differs by %.3g): coherence inside a degenerate eigenspace is not preserved") % (x, dev)
                break
    if bad is None and impl_ph[0] == "ok":
        # ... and as seen through composition: post-measurement states of a full-rank state with coherences
        test = build(G.gen_state(rng, d, "full"), shape)
        rho = op_of(B, test.vec)
        with warnings.catch_warnings():
            warnings.simplefilter("ignore")
            ens = call_impl(lambda: eval_impl(None, [impl_ph[1], test], True))
        if ens[0] != "ok":
            bad = "compose(generated MProcess, State) raised %s: %s" % ens[1:]
        else:
            for x, M_ in enumerate(mats):
                out = rule(M_)(rho); px = float(np.trace(out).real)
                if px > 1e-6:
                    got = op_of(B, ens[1].states[x].vec)
                    if abs(float(ens[1].prob_dist.ps[x]) - px) > 1e-7 or np.abs(got - out / px).max() > 1e-6:
                        bad = "post-measurement state / probability of outcome %d differs from the mode-%d rule (state by %.3g, probability %.6g vs %.6g)" % (
                            x, mode, np.abs(got - out / px).max(), float(ens[1].prob_dist.ps[x]), px)
                        break
    if bad is not None:
        sig = "instrument"
        if mode == 1 and regression is not None and model_hss is not None:
            # attribute: the implementation is (or raises like) a labelled non-code variant, and the model of the code satisfies the predicate
            ok_model = instrument_predicate(ctx, shape, vecs, model_hss, tol) is None and all(
                np.abs(h - hs_of_map(B, eigenprojector_map(M_))).max() <= 1e-6 for M_, h in zip(mats, model_hss))
            if ok_model:
                sig = regression
        ctx.violation("gen_mprocess", site, sig, "%s POVM with %d outcomes on %s: %s" % (desc.get("kind"), len(vecs), shape, bad), case)


def spectral_clusters(M_, gap=1e-9):
    """eigen-decomposition of a Hermitian matrix with eigenvalues closer than gap merged: list of (mean eigenvalue, eigenspace projector)"""
    w, V = np.linalg.eigh(np.asarray(M_))
    out = []; start = 0
    for k in range(1, len(w) + 1):
        if k == len(w) or w[k] - w[k - 1] > gap:
            Vc = V[:, start:k]
            out.append((float(np.mean(w[start:k])), Vc @ Vc.conj().T))
            start = k
    return out


def eigenprojector_map(M_):
    cl = spectral_clusters(M_)
    return lambda X: sum(p * (P @ X @ P) for p, P in cl)


def luders_map(M_):
    cl = spectral_clusters(M_)
    S = sum(np.sqrt(max(p, 0.0)) * P for p, P in cl)
    return lambda X: S @ X @ S.conj().T


def chk_gm_errors(ctx, case):
    from quara.objects.povm import Povm
    import random
    rng = random.Random(case["seed"])
    c, B, d = get_sys("1q")
    povm = build(G.gen_povm(rng, d, kind="trivial"), "1q"); st = build(G.gen_state(rng, d), "1q")      # q_x * I: every mode works on it
    mode, post = case["mode"], (st if case["post"] else None)
    impl = call_impl(lambda: povm.generate_mprocess(mode, post))
    expect_err = (mode in (0, 1) and post is not None) or (mode == 2 and post is None) or mode not in (0, 1, 2)
    ctx.count("gen_mprocess", key=repr(case), nontrivial=False, label="argument validation")
    if expect_err != (impl[0] == "err" and impl[1] == "ValueError"):
        ctx.violation("gen_mprocess", "Povm.generate_mprocess", "error-kind", "mode=%s post_selected_states=%s: expected %s, got %s" % (mode, "given" if post else None, "ValueError" if expect_err else "a value", impl[:2] if impl[0] == "err" else "a value"), case)


def sub_gen_mprocess(ctx):
    rng = ctx.rng
    cases = []
    for shape, d, cnt in (("1q", 2, ctx.n(6, 80)), ("3", 3, ctx.n(4, 50)), ("2q", 4, ctx.n(2, 14))):
        for i in range(cnt):
            for mode in (0, 1, 2):
                kind = rng.choice(["generic", "generic", "mixed", "proj"])
                if mode == 1 and i % 2 == 1:
                    # degenerate spectra (the eigenspace grouping of mode 1): multiples of I on a qubit, coarse-grained / unsharp effects with
                    # a repeated eigenvalue in aligned and rotated eigenbases on the qutrit and on 2 qubits, effects acting on one qubit of two
                    kind = rng.choice(["trivial"] if d == 2 else (["deg-aligned", "deg-rotated"] if d == 3 else ["deg-aligned", "deg-rotated", "product"]))
                mcount = rng.choice([2, 3, 4])
                desc = G.gen_povm(rng, d, m=mcount, kind=kind)
                cases.append({"shape": shape, "mode": mode, "povm": desc, "single": rng.random() < 0.3, "seed": rng.randrange(10 ** 9)})
    ctx.sample("gen_mprocess", {"shape": cases[0]["shape"], "mode": cases[0]["mode"], "kind": cases[0]["povm"]["kind"]})
    ctx.run_cases("gen_mprocess", chk_gen_mprocess, cases)
    errs = [{"mode": mo, "post": po, "seed": rng.randrange(10 ** 9)} for mo in (0, 1, 2, 3, -1) for po in (False, True)]
    ctx.run_cases("gen_mprocess", chk_gm_errors, errs)


# ------------------------------------------------------------------ mode_sampling=True (the random draw itself is an oracle; support and statistics are checked)
SITE_SAMP_S = "operators._compose_qoperations_MProcess_State(mode_sampling=True)"
SITE_SAMP_E = "operators._compose_qoperations_MProcess_StateEnsemble(mode_sampling=True)"


def chk_sampling(ctx, case):
    """MProcess(mode_sampling=True) on a State returns ONE post state, on a StateEnsemble one post state per branch with the incoming
    distribution.  Reference: the model's non-sampling result (all post states with their probabilities).  Checked: every draw lies in the
    support (a post state of non-zero probability of that branch, the zero state for a zero-weight branch), the outgoing ensemble keeps the
    incoming distribution and shape, and over N draws the outcome frequencies agree with the conditional probabilities within
    5 standard deviations (the global numpy RNG / the MProcess's stream is seeded from the case, so the check is deterministic)."""
    from quara.objects.mprocess import MProcess
    from quara.objects.state import State
    shape = case["shape"]; descs = case["descs"]; N = case["n"]
    c, B, d = get_sys(shape); n = d * d; sd = float(np.sqrt(d))
    objs = [build(ds, shape) for ds in descs]
    ms = objs[0]
    sampler = MProcess(c, [np.array(h) for h in ms.hss], shape=ms.shape, eps_zero=ms.eps_zero, mode_sampling=True, random_seed_or_generator=case["seed"])
    with warnings.catch_warnings():
        warnings.simplefilter("ignore")
        inner = objs[1] if len(objs) == 2 else eval_impl(None, objs[1:], True)
    ref = model_compose(ctx, n, sd, [mobj_of_impl(ms), mobj_of_impl(inner)])
    on_state = isinstance(inner, State)
    site = SITE_SAMP_S if on_state else SITE_SAMP_E
    ctx.count("sampling", key=repr(case), label="%s %s on %s" % (shape, descs[0].get("kind"), "state" if on_state else "ensemble of %d" % len(inner.states)))
    if ref[0] != "ok":
        raise AssertionError("sampling: the model rejects physical operands: %s" % (ref,))
    ref = floatify(ref[1]); m = len(ms.hss)
    S = np.array(ref["S"]).reshape(-1, n); ps = np.array(ref["ps"])
    nb = len(ps) // m                                  # branches
    cond = []
    for b in range(nb):
        blk = ps[b * m:(b + 1) * m]
        cond.append(blk / blk.sum() if blk.sum() > 0 else None)
    counts = np.zeros((nb, m)); np.random.seed(case["seed"] % (2 ** 32))
    for it in range(N):
        with warnings.catch_warnings():
            warnings.simplefilter("ignore")
            r = call_impl(lambda: eval_impl(None, [sampler, inner], True))
        if r[0] != "ok":
            sig = "sampling-branch-probabilities-unnormalised" if "multinomial.rvs" in r[2] else "raises-on-physical-operands"
            ctx.violation("sampling", site, sig, "mode_sampling=True on %s raised %s: %s" % ("a State" if on_state else "an ensemble with branch weights %s" % np.round(inner.prob_dist.ps, 6).tolist(), r[1], r[2]), case)
            return
        got = [r[1]] if on_state else list(r[1].states)
        if not on_state:
            if len(got) != nb or [int(x) for x in r[1].prob_dist.shape] != [int(x) for x in inner.prob_dist.shape] or flow.maxdiff(list(r[1].prob_dist.ps), list(inner.prob_dist.ps)) > 1e-12:
                ctx.violation("sampling", site, "sampling-ensemble-distribution", "the sampled ensemble does not keep the incoming distribution / shape", case)
                return
        for b, st in enumerate(got):
            if cond[b] is None:
                if np.abs(st.vec).max() != 0.0:
                    ctx.violation("sampling", site, "sampling-support", "branch %d has weight 0 but a non-zero sampled state" % b, case)
                    return
                continue
            hit = [y for y in range(m) if cond[b][y] > 0 and np.abs(S[b * m + y] - st.vec).max() <= 1e-9]
            if not hit:
                ctx.violation("sampling", site, "sampling-support", "draw %d: the sampled state of branch %d is not a post state of non-zero probability of that branch" % (it, b), case)
                return
            counts[b, hit[0]] += 1          # (identical post states of different outcomes are counted on the first; their probabilities are merged below)
    for b in range(nb):
        if cond[b] is None:
            continue
        q = np.zeros(m)
        for y in range(m):
            if cond[b][y] > 0:
                first = [z for z in range(m) if cond[b][z] > 0 and np.abs(S[b * m + z] - S[b * m + y]).max() <= 1e-9][0]
                q[first] += cond[b][y]
        dev = np.abs(counts[b] / N - q); lim = 5 * np.sqrt(q * (1 - q) / N) + 1.0 / N
        if (dev > lim).any():
            y = int(np.argmax(dev - lim))
            ctx.violation("sampling", site, "sampling-distribution", "branch %d: outcome %d was drawn with frequency %.3f over %d draws, its conditional probability is %.3f" % (b, y, counts[b, y] / N, N, q[y]), case)
            return


def sub_sampling(ctx):
    rng = ctx.rng
    cases = []
    for shape, d, cnt in (("1q", 2, ctx.n(4, 30)), ("3", 3, ctx.n(2, 15))):
        for i in range(cnt):
            sampler = G.gen_mproc(rng, d, kind=rng.choice(["luders", "prep", "randu", "damp"]))
            tail = [G.gen_state(rng, d)] if i % 2 == 0 else [G.gen_mproc(rng, d, m=rng.choice([2, 3])), G.gen_state(rng, d)]
            if i % 4 == 3:
                align_zero(rng, tail, d)          # a branch of weight zero
            cases.append({"shape": shape, "descs": [sampler] + tail, "seed": rng.randrange(10 ** 9), "n": ctx.n(120, 400)})
    ctx.sample("sampling", {"shape": cases[0]["shape"], "types": [x["t"] for x in cases[0]["descs"]], "n": cases[0]["n"]})
    ctx.run_cases("sampling", chk_sampling, cases)


# ------------------------------------------------------------------ robustness of composition against HOW the operands were made
LAYOUTS = ["fortran", "transposed-view", "strided", "readonly", "strided-readonly"]


def relayout(a, how):
    """the same numbers in a different memory layout"""
    a = np.asarray(a, dtype=np.float64)
    if how == "fortran":
        out = np.asfortranarray(a.copy())
    elif how == "transposed-view":
        out = a.T.copy().T if a.ndim == 2 else a.copy()[::1]
    elif how in ("strided", "strided-readonly"):
        big = np.full(tuple(2 * k for k in a.shape), 7.25)
        big[tuple(slice(None, None, 2) for _ in a.shape)] = a
        out = big[tuple(slice(None, None, 2) for _ in a.shape)]
    else:
        out = a.copy()
    if how in ("readonly", "strided-readonly"):
        out.setflags(write=False)
    return out


def rebuild(o, c_sys, how):
    """a fresh quara object with the same content as o, on c_sys, its arrays laid out as `how`"""
    from quara.objects.state import State
    from quara.objects.gate import Gate
    from quara.objects.povm import Povm
    from quara.objects.mprocess import MProcess
    if type(o) == State:
        return State(c_sys, relayout(o.vec, how))
    if type(o) == Gate:
        return Gate(c_sys, relayout(o.hs, how))
    if type(o) == Povm:
        if how == "strided":        # all elements are row views into ONE 2-d buffer
            buf = np.array([np.asarray(v, dtype=np.float64) for v in o.vecs])
            return Povm(c_sys, [buf[i] for i in range(len(o.vecs))])
        return Povm(c_sys, [relayout(v, how) for v in o.vecs])
    return MProcess(c_sys, [relayout(h, how) for h in o.hss], shape=o.shape, eps_zero=o.eps_zero)


def arrays_of(o):
    from quara.objects.state_ensemble import StateEnsemble
    from quara.objects.multinomial_distribution import MultinomialDistribution
    if type(o) == StateEnsemble:
        return [s_.vec for s_ in o.states] + [o.prob_dist.ps]
    if type(o) == MultinomialDistribution:
        return [o.ps]
    mo = {"State": lambda: [o.vec], "Gate": lambda: [o.hs], "Povm": lambda: list(o.vecs), "MProcess": lambda: list(o.hss)}
    return mo[type(o).__name__]()


def snapshot(o):
    return [np.array(a, dtype=np.float64, copy=True) for a in arrays_of(o)]


def same_snapshot(a, b, tol=0.0):
    return len(a) == len(b) and all(x.shape == y.shape and (np.abs(x - y).max() <= tol if x.size else True) for x, y in zip(a, b))


def chk_robust(ctx, case):
    """composition must not depend on HOW its operands were made: memory layout of the arrays handed to the constructors (Fortran order, transposed
    view, strided view, read-only), an equal-but-not-identical CompositeSystem instance (same ElementalSystem objects), the route by which an
    instrument / POVM / ensemble was built (Kraus data vs Povm.generate_mprocess(2, states) vs MProcess.to_povm vs a previous composition), and it
    must be repeatable after the caller has written into the arrays of an earlier result; the operands' own arrays are never changed."""
    from quara.objects.composite_system import CompositeSystem
    from quara.objects.state_ensemble import StateEnsemble
    from quara.objects.povm import Povm
    shape = case["shape"]; descs = case["descs"]; mode = case["mode"]
    c, B, d = get_sys(shape); n = d * d; sd = float(np.sqrt(d))
    ref_objs = [build(ds, shape) for ds in descs]
    ref = call_impl(lambda: eval_impl(None, ref_objs, True))
    ctx.count("robust", key=repr(case), label="%s %s" % (shape, mode if mode in ("instance", "history", "route") else "layout:" + mode))
    if ref[0] != "ok":
        return            # the reference itself is the business of the chains sub-check
    ref_m = mobj_of_impl(ref[1])
    site = "operators.compose_qoperations"
    if mode in LAYOUTS:
        objs = [rebuild(o, c, mode) for o in ref_objs]
        before = [snapshot(o) for o in objs]
        got = call_impl(lambda: eval_impl(None, objs, True))
        if got[0] != "ok":
            ctx.violation("robust", site, "array-layout:raises", "operands with %s arrays: composition raised %s: %s (types %s)" % (mode, got[1], got[2], [x["t"] for x in descs]), case); return
        dm = mobj_diff(ref_m, mobj_of_impl(got[1]), 1e-12)
        if dm is not None:
            ctx.violation("robust", site, "array-layout:value", "operands with %s arrays give a different result than C-contiguous copies: %s (types %s)" % (mode, dm, [x["t"] for x in descs]), case); return
        if not all(same_snapshot(b_, snapshot(o)) for b_, o in zip(before, objs)):
            ctx.violation("robust", site, "mutates-operand", "composition changed an array of one of its operands (%s layout)" % mode, case)
        return
    if mode == "instance":
        c2 = CompositeSystem(list(c.elemental_systems))
        if c2 is c or not (c2 == c):
            raise AssertionError("harness: second CompositeSystem instance is not equal-but-not-identical")
        objs = [rebuild(o, c2 if i % 2 == 0 else c, "copy") for i, o in enumerate(ref_objs)]
        got = call_impl(lambda: eval_impl(None, objs, True))
        if got[0] != "ok":
            ctx.violation("robust", "operators._compose_qoperations", "equal-composite-system-instance", "operands on two EQUAL CompositeSystem instances (same ElementalSystem objects): raised %s: %s" % got[1:], case); return
        dm = mobj_diff(ref_m, mobj_of_impl(got[1]), 1e-12)
        if dm is not None:
            ctx.violation("robust", "operators._compose_qoperations", "equal-composite-system-instance", "result differs on two equal CompositeSystem instances: %s" % dm, case)
        return
    if mode == "history":
        before = [snapshot(o) for o in ref_objs]
        snap = snapshot(ref[1])
        touched = 0
        for a in arrays_of(ref[1]):
            a = np.asarray(a)
            if a.flags.writeable and a.size:
                a += 0.125; touched += 1               # the caller scribbles over the returned arrays
        again = call_impl(lambda: eval_impl(None, ref_objs, True))
        if again[0] != "ok":
            ctx.violation("robust", site, "history:raises", "second composition of the same operands raised %s: %s after the caller wrote into the first result" % again[1:], case); return
        if not same_snapshot(snap, snapshot(again[1]), 1e-12):
            ctx.violation("robust", site, "history:value", "composing the same operands again gives a different result after the caller wrote into the arrays of the first result (%d arrays written; types %s)" % (touched, [x["t"] for x in descs]), case); return
        if not all(same_snapshot(b_, snapshot(o)) for b_, o in zip(before, ref_objs)):
            ctx.violation("robust", site, "history:operand-aliased", "writing into the arrays of a composition result changed an operand (types %s)" % [x["t"] for x in descs], case)
        return
    # mode == "route": the same operands reached another way
    objs = list(ref_objs)
    for i, (ds, o) in enumerate(zip(descs, ref_objs)):
        if ds["t"] == "mproc" and ds.get("kind") == "prep":
            effects = [vec_of(B, G.gfloat(G.gfromjson(e["prep"][0]))) for e in ds["elems"]]
            posts = [build({"t": "state", "rho": e["prep"][1]}, shape) for e in ds["elems"]]
            objs[i] = Povm(c, effects).generate_mprocess(2, posts)                         # measure-and-prepare through the POVM API
        elif ds["t"] == "povm" and i == 0 and len(descs) >= 2 and descs[1]["t"] == "mproc":
            pass
    got = call_impl(lambda: eval_impl(None, objs, True))
    if got[0] != "ok" or mobj_diff(ref_m, mobj_of_impl(got[1]), 1e-9) is not None:
        ctx.violation("robust", site, "route:generate_mprocess", "an instrument built with Povm.generate_mprocess(2, states) composes differently from the same instrument built from its HS matrices: %s" % (
            got[1:] if got[0] != "ok" else mobj_diff(ref_m, mobj_of_impl(got[1]), 1e-9),), case); return
    # an ensemble / POVM obtained by an earlier composition vs the same object handed over directly (StateEnsemble constructor, Povm constructor)
    if len(ref_objs) >= 3:
        inner = eval_impl(None, ref_objs[1:], True)
        if type(inner) == StateEnsemble:
            direct = StateEnsemble([rebuild(s_, c, "copy") if np.abs(s_.vec).max() > 0 else s_ for s_ in inner.states], inner.prob_dist, eps_zero=inner.eps_zero)
            got2 = call_impl(lambda: eval_impl(None, [ref_objs[0], direct], True))
            if got2[0] != "ok" or mobj_diff(ref_m, mobj_of_impl(got2[1]), 1e-9) is not None:
                ctx.violation("robust", site, "route:ensemble", "composition with a StateEnsemble built by its constructor differs from the one obtained by composition", case)
        head = eval_impl(None, ref_objs[:-1], True)
        if type(head) == Povm:
            direct = Povm(c, [np.array(v, copy=True) for v in head.vecs], is_physicality_required=False)
            a_ = call_impl(lambda: eval_impl(None, [direct, ref_objs[-1]], True)); b_ = call_impl(lambda: eval_impl(None, [head, ref_objs[-1]], True))
            if a_[0] != b_[0] or (a_[0] == "ok" and mobj_diff(mobj_of_impl(a_[1]), mobj_of_impl(b_[1]), 1e-12) is not None):
                ctx.violation("robust", site, "route:povm", "a Povm rebuilt from the vectors of a composed Povm composes differently", case)


def sub_robust(ctx):
    rng = ctx.rng
    cases = []
    plan = [("1q", 2, ctx.n(2, 10)), ("3", 3, ctx.n(1, 6))]
    for shape, d, reps in plan:
        for mode in LAYOUTS + ["instance", "history", "route"]:
            for r in range(reps):
                L = rng.choice([2, 3, 3, 4])
                descs = gen_chain(rng, d, L)
                if mode == "route":          # make sure a measure-and-prepare instrument and a state are in the chain
                    descs = [G.gen_povm(rng, d), G.gen_mproc(rng, d, kind="prep"), G.gen_mproc(rng, d, m=2), G.gen_state(rng, d)][rng.choice([0, 1]):]
                if mode == "history" and r % 2 == 0:
                    descs = [G.gen_gate(rng, d), G.gen_mproc(rng, d, m=2), G.gen_state(rng, d)]      # Gate on a StateEnsemble: the result re-uses the incoming distribution object
                cases.append({"shape": shape, "mode": mode, "descs": descs})
    ctx.sample("robust", {"shape": cases[0]["shape"], "mode": cases[0]["mode"], "types": [x["t"] for x in cases[0]["descs"]]})
    ctx.run_cases("robust", chk_robust, cases)


SUBS = [("chains", sub_chains), ("thresholds", sub_thresholds), ("errors", sub_errors), ("generic_basis", sub_generic_basis),
        ("gen_mprocess", sub_gen_mprocess), ("sampling", sub_sampling), ("robust", sub_robust)]
FNS = {"chains": chk_chain, "thresholds": chk_threshold, "errors": chk_errors, "generic_basis": chk_generic_basis, "sampling": chk_sampling, "robust": chk_robust,
       "gen_mprocess": lambda ctx, case: (chk_gm_errors if "post" in case else chk_gen_mprocess)(ctx, case)}


def regen_own(ctx):
    """translator tie (same protocol as flow.regen_check): gen/c06_py2coq.py regenerates Gallina definitions of compose_qoperations / _to_list,
    _compose_qoperations (guard + 36-entry dispatch + inline bodies) and the loop / shape / threshold logic of the six _compose_qoperations_* helpers
    from the CURRENT source of quara/objects/operators.py; coq/gen/C06_Equiv.v is re-checked against them.  returns (ok, info)"""
    import os, re, shutil, subprocess, sys
    import runner
    V = runner.V
    scratch = os.path.join(getattr(ctx, "scratch", os.path.join(V, "build", ctx.prop_id)), "gen")
    os.makedirs(scratch, exist_ok=True)
    gen_v = os.path.join(scratch, "Gen_c06.v")
    for ext in (".vo", ".vos", ".vok", ".glob"):
        try:
            os.remove(gen_v[:-2] + ext)
        except OSError:
            pass
    equiv = os.path.join(V, "coq", "gen", "C06_Equiv.v")
    src = open(equiv).read()
    src_nc = re.sub(r"\(\*.*?\*\)", " ", src, flags=re.S)
    thms = re.findall(r"^\s*Theorem\s+([\w']+)", src_nc, flags=re.M)
    ctx.theorems = list(ctx.theorems) + [t for t in thms if t not in ctx.theorems]
    ctx.obligations += len(thms)
    q = ["-Q", os.path.join(V, "coq", "theories"), "QV", "-Q", scratch, "QVGen"]
    r = subprocess.run([sys.executable, os.path.join(V, "gen", "c06_py2coq.py"), os.environ.get("VERIF_REPO", "/repo"), gen_v], capture_output=True, text=True, timeout=120)
    if r.returncode != 0:
        return False, {"theorem": thms[0], "error": "translator rejected the source (outside its subset): " + (r.stdout + r.stderr)[-600:]}
    r = subprocess.run(["timeout", "300", "coqc"] + q + [gen_v], capture_output=True, text=True)
    if r.returncode != 0:
        return False, {"theorem": thms[0], "error": "regenerated functions do not compile: " + (r.stdout + r.stderr)[-600:]}
    dst = os.path.join(scratch, "C06_Equiv.v")
    shutil.copy(equiv, dst)
    r = subprocess.run(["timeout", "600", "coqc"] + q + [dst], capture_output=True, text=True)
    out = r.stdout + r.stderr
    if r.returncode != 0:
        m_ = re.search(r"line (\d+), characters", out)
        thm = None
        if m_:
            upto = "\n".join(src.splitlines()[:int(m_.group(1))])
            names = re.findall(r"^\s*(?:Theorem|Lemma)\s+([\w']+)", upto, flags=re.M)
            thm = names[-1] if names else None
        return False, {"theorem": thm, "error": out[-800:]}
    blocks = runner.parse_assumptions(out)
    bad = [a for closed, axs in blocks for a in axs if a not in runner.ALLOWED_AXIOMS and a.split(".")[-1] not in runner.ALLOWED_AXIOMS]
    if len(blocks) != len(thms) or bad:
        return False, {"theorem": thms[0], "error": "assumption gate on regenerated proofs: %d blocks / %d theorems, disallowed %s" % (len(blocks), len(thms), bad)}
    for t, (closed, axs) in zip(thms, blocks):
        ctx.axioms[t] = "closed" if closed else sorted(set(axs))
    ctx.discharged += len(thms)
    return True, {}


def run(ctx):
    import runner
    ctx.rule = ("operands are exactly-rational physical objects (states LL^dag/tr, Cayley unitaries and their rational mixtures, Pythagorean "
                "amplitude damping, POVMs t*A_x + PSD remainder / rotated projectors, instruments from Kraus sets and measure-and-prepare maps) "
                "with different outcome counts per factor and non-commuting elements, on 1 qubit / qutrit / 2 qubits; chains of length 2..5, "
                "bracketings: fold + left-nested + a random tree (quick) / all Catalan bracketings (thorough); non-trivial = no exact joint "
                "probability inside (1e-11, 1e-5) (threshold band), distinct = distinct (operands, bracketing)")
    # flow.standard_run extended by this property's translator tie: (1) Props/C06.v; (2) gen/c06_py2coq.py + coq/gen/C06_Equiv.v
    ok, info = runner.check_props(ctx)
    ok2, info2 = regen_own(ctx)
    if not ok2:
        ok, info = False, info2
        ctx.note("regenerated-model obligations (gen/c06_py2coq.py / C06_Equiv) not discharged: %s" % str(info2)[:400])
    if not ok:
        ctx.discharged = min(ctx.discharged, ctx.obligations - 1)
        # the tie is broken: widen the search for a concrete failing input - twice the case counts of the requested tier, capped by the
        # thorough counts (the full thorough sweep would take the quick tier beyond its time limit)
        def widened(q, t):
            if isinstance(q, list):
                tc = dict(t)
                return [(name, min(tc.get(name, 2 * cnt), 2 * cnt)) for name, cnt in q]
            return min(t, 2 * q) if ctx.tier == "quick" else t
        ctx.n = widened
        ctx.note("tie broken: sub-checks run with widened case counts (2 x tier counts)")
    for name, fn in SUBS:
        if ctx.only is None or name in ctx.only:
            fn(ctx)
    if not ok and not ctx.violations:
        ctx.violation("theorems", "Props/%s.v" % ctx.prop_id, "theorem-broken:%s" % info.get("theorem"),
                      "theorem %s no longer checks: %s" % (info.get("theorem"), info.get("error", "")[-400:]),
                      {"theorem": info.get("theorem"), "error": info.get("error")}, no_input=True)
    elif not ok:
        ctx.note("theorem obligations not discharged: %s" % info)


def replay(ctx, doc):
    flow.standard_replay(ctx, doc, FNS)
