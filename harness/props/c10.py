"""C10 — constrained estimators return physical, consistent estimates.

Sub-checks (see harness/manifest/C10.json for what each one ties):
  select    decision table of ProjectedGradientDescent.set_constraint_from_standard_qt_and_option vs the Coq model (the physical
            projection runs in the OPTION's mode_proj_order: repaired code, fixes/qoperation-func-proj-physical-with-var-order.diff)
  reuse     histories: one LossMinimizationEstimator + loss + loss option + algorithm object (or subsets) used for several jobs that differ in
            options AND in the experiment (tester lists rotated: same matrix shapes, other matrices): every estimate == all-fresh objects' estimate,
            and feasible
  reuse_linear  one LinearEstimator / ProjectedLinearEstimator instance over several experiments (same shape / other shape, single / sequence calls):
            == a fresh instance, exact data -> the object
  projref   calc_proj_physical (object level) and calc_proj_physical_with_var (variable level), both orders, vs an INDEPENDENT reference
            projection (ref_proj_physical: numpy Dykstra on operators rebuilt from the basis; shares no code with quara's projections)
  origin    generate_origin_obj vs the model; origin is physical; it is the start point of the three algorithms
  steps     every step of backtracking / momentum / FISTA runs vs the extracted step functions (P, f-values: recorded)
  run_eq    a complete backtracking run with the rational equality projection vs the extracted loop
  ple       ProjectedLinearEstimator == calc_proj_physical(LinearEstimator's estimate), both orders, AND == the independent reference projection
            of the linear estimate (to 100*sqrt(eps_proj_physical)); exact data
Settings: outcome count != dimension is standard (3-outcome qubit POVM and instrument, 2-outcome qutrit POVM in the quick tier; 4-outcome qubit POVM thorough).
  ineq_var  State.calc_proj_ineq_constraint_with_var(on_para_eq_constraint=True) vs the exact diagonal two-qubit model (correspondence only)
  estimates all estimators x algorithms x losses x flags x orders x data kinds: physicality verdicts (quara's own and
            exact psd_dec), every stored iterate feasible, exact data returns the object

Calibration of the constants below (unchanged tree; quick tier seeds 20260926, 1, 2, 3 and thorough tier seed 20260926; the maxima
of every run are written into the evidence as a note).  With s = sqrt(eps_proj_physical) (= 1e-7 for the default 1e-14), flags (eq, ineq) on:
  * largest negative eigenvalue of an estimate or stored iterate:            0.86 s   (8.6e-8)
  * largest equality-constraint residual of an estimate or stored iterate:   1.13 s   (1.1e-7)
  * exact data, |estimate - truth| (max-norm of the stacked parameters): linear 1.3e-15; projected linear 1.1e-15;
    backtracking, converged runs: squared-error losses 6.0e-6, relative-entropy losses 1.03e-4
so  TOL_FEAS = 300 s (3e-5; margin 265x; quara's own simulation check uses 1e-5), exact data: projected linear 100 s (1e-5, margin 1e10),
backtracking 1e-3 (squared error, 165x) / 2e-2 (relative entropy, 194x).  A projection that is skipped, mis-selected, or applied to the wrong
point leaves residuals of 1e-2 .. 1 on the few-shot and far-out-of-range data (checked with mutated copies of the tree).
  * both options on, on_para_eq_constraint=False: defect of the constraint projected LAST in the option's order (estimate and stored iterates):
    6.7e-14 at most (the other constraint: 4e-8 .. 1.1e-7) -> TOL_LAST = 1e-11 (150x margin; a run in the wrong order is 4000x above it)
  * |quara projection - independent reference projection| <= 8.5e-8 = 0.85 sqrt(eps) at the default eps_proj_physical = 1e-14 -> REF_FACTOR = 100;
    with a tomography built with eps_proj_physical = 1e-18 (EPS_TIGHT): <= 0.5 sqrt(eps) -> REF_FACTOR_TIGHT = 10 (a run that stops at the default
    threshold is at 20 .. 85 sqrt(eps))
Scope: physicality is judged per constraint option that is ON (both on = the property's "constraint options on"; one on = that constraint only).
The combination (on_algo_eq_constraint=False, on_algo_ineq_constraint=True) under on_para_eq_constraint=True is NOT judged: it is not a
configuration "with the constraint options on", and the installed variable-level inequality projection provably leaves the PSD set
(Props: C10_ineq_only_projection_with_para_eq_not_into_psd; observation in findings/C10-2.md).
Defects reported on a tree without the repairs: QOperation.func_calc_proj_physical_with_var / mode_proj_order-ignored (select, estimates; findings/C10-1.md,
fixes/qoperation-func-proj-physical-with-var-order.diff) and ProjectedGradientDescent.set_constraint_from_standard_qt_and_option / cached-func-proj
(select, reuse; fixes/pgd-cached-func-proj.diff, owner C13).
"""
import contextlib, io, itertools, math, warnings
from fractions import Fraction
import numpy as np
from common import flow, qcheck

LEVEL = "proof"

FEAS_FACTOR = 300.0        # TOL_FEAS = FEAS_FACTOR * sqrt(eps_proj_physical)
EXACT_PLE_FACTOR = 100.0
TOL_EXACT_BT = {"se": 1e-3, "re": 2e-2}      # by loss family (squared error / relative entropy)
TOL_SAME = 1e-12           # "exact same call" agreement
EPS_TIGHT = 1e-18          # a non-default eps_proj_physical (default 1e-14) given to the tomography: estimates / projections must reach ~sqrt(1e-18)
REF_FACTOR_TIGHT = 10.0    # for those cases (observed |quara - reference| <= 0.9 sqrt(eps); a run that stops at the default threshold is at 30..85 sqrt(eps))
REF_FACTOR = 100.0         # |quara projection - independent reference projection| <= REF_FACTOR * sqrt(eps_proj_physical)  (1e-5; observed <= 7e-8)
TOL_LAST = 1e-11           # defect of the constraint projected last (rounding only; calibration below)


# ------------------------------------------------------------------ quara imports (lazy: the tree under test)
class Q:
    pass


def q():
    if getattr(Q, "ok", False):
        return Q
    warnings.simplefilter("ignore")
    from quara.objects.composite_system_typical import generate_composite_system
    from quara.objects.tester_typical import generate_tester_povms, generate_tester_states
    from quara.objects.qoperation_typical import generate_qoperation
    from quara.objects.state import State
    from quara.objects.povm import Povm
    from quara.objects.gate import Gate
    from quara.objects.mprocess import MProcess
    from quara.protocol.qtomography.standard.standard_qst import StandardQst
    from quara.protocol.qtomography.standard.standard_povmt import StandardPovmt
    from quara.protocol.qtomography.standard.standard_qpt import StandardQpt
    from quara.protocol.qtomography.standard.standard_qmpt import StandardQmpt
    from quara.protocol.qtomography.standard.linear_estimator import LinearEstimator
    from quara.protocol.qtomography.standard.projected_linear_estimator import ProjectedLinearEstimator
    from quara.protocol.qtomography.standard.loss_minimization_estimator import LossMinimizationEstimator
    from quara.minimization_algorithm import projected_gradient_descent_backtracking as bt
    from quara.minimization_algorithm import projected_gradient_descent_with_momentum as mom
    from quara.minimization_algorithm import projected_fast_iterative_shrinkage_thresholding_algorithm as fista
    from quara.loss_function import weighted_probability_based_squared_error as wse
    from quara.loss_function import weighted_relative_entropy as wre
    from quara.loss_function import standard_qtomography_based_weighted_probability_based_squared_error as swse
    from quara.loss_function import standard_qtomography_based_weighted_relative_entropy as swre
    Q.generate_composite_system = generate_composite_system
    Q.generate_tester_povms = generate_tester_povms
    Q.generate_tester_states = generate_tester_states
    Q.generate_qoperation = generate_qoperation
    Q.State, Q.Povm, Q.Gate, Q.MProcess = State, Povm, Gate, MProcess
    Q.QT = {"qst": StandardQst, "povmt": StandardPovmt, "qpt": StandardQpt, "qmpt": StandardQmpt}
    Q.LinearEstimator, Q.ProjectedLinearEstimator, Q.LossMinimizationEstimator = LinearEstimator, ProjectedLinearEstimator, LossMinimizationEstimator
    Q.ALGO = {
        "bt": (bt.ProjectedGradientDescentBacktracking, bt.ProjectedGradientDescentBacktrackingOption),
        "mom": (mom.ProjectedGradientDescentWithMomentum, mom.ProjectedGradientDescentWithMomentumOption),
        "fista": (fista.ProjectedFastIterativeShrinkageThresholdingAlgorithm, fista.ProjectedFastIterativeShrinkageThresholdingAlgorithmOption),
    }
    Q.LOSS = {
        "wse": (wse.WeightedProbabilityBasedSquaredError, wse.WeightedProbabilityBasedSquaredErrorOption),
        "swse": (swse.StandardQTomographyBasedWeightedProbabilityBasedSquaredError, swse.StandardQTomographyBasedWeightedProbabilityBasedSquaredErrorOption),
        "wre": (wre.WeightedRelativeEntropy, wre.WeightedRelativeEntropyOption),
        "swre": (swre.StandardQTomographyBasedWeightedRelativeEntropy, swre.StandardQTomographyBasedWeightedRelativeEntropyOption),
    }
    Q.ok = True
    return Q


@contextlib.contextmanager
def quiet():
    """quara prints warnings ("iterations exceeds the limit", validation of probabilities) to stdout"""
    buf = io.StringIO()
    with contextlib.redirect_stdout(buf), warnings.catch_warnings():
        warnings.simplefilter("ignore")
        yield buf


# ------------------------------------------------------------------ tomography settings with quara's typical testers
SYS = {"1qubit": ("qubit", 1), "1qutrit": ("qutrit", 1), "2qubit": ("qubit", 2)}
STATE_NAMES = {"qubit": ["x0", "y0", "z0", "z1"],
               "qutrit": ["01z0", "12z0", "02z1", "01x0", "01y0", "12x0", "12y0", "02x0", "02y0"]}
POVM_NAMES = {"qubit": ["x", "y", "z"], "qutrit": ["01x3", "01y3", "z3", "12x3", "12y3", "02x3", "02y3"]}
# tomography settings (kind, system, number of outcomes of the estimated POVM / instrument; None = dim for povmt, 2 for qmpt).
# outcome count != dimension is a STANDARD configuration (the equality constraints of POVMs / instruments involve both numbers)
S_CORE = [("qst", "1qubit", None), ("povmt", "1qubit", None), ("povmt", "1qubit", 3), ("qpt", "1qubit", None), ("qst", "1qutrit", None)]
S_LIGHT = S_CORE + [("qmpt", "1qubit", None), ("qmpt", "1qubit", 3), ("povmt", "1qutrit", 2)]          # cheap sub-checks, also in the quick tier
S_THOROUGH = S_LIGHT + [("povmt", "1qutrit", None), ("povmt", "1qubit", 4), ("qst", "2qubit", None)]
_QT_CACHE = {}
_CSYS = {}             # one composite system per system name: experiments of the same system share it (needed to re-use objects across them)


DEFAULT_M = {"povmt": None, "qmpt": 2}          # None: the dimension


def make_qt(kind, sysname, para, eps_proj=None, m=None, rot=0):
    """m: number of outcomes of the estimated POVM / instrument (default: dim / 2); rot: the tester lists rotated by `rot`
    positions (another experiment with the same matrix shapes)"""
    key = (kind, sysname, para, eps_proj, m, rot)
    if key in _QT_CACHE:
        return _QT_CACHE[key]
    Qm = q()
    mode, num = SYS[sysname]
    c_sys = _CSYS.get(sysname)
    if c_sys is None:
        c_sys = _CSYS[sysname] = Qm.generate_composite_system(mode, num)
    kw = dict(on_para_eq_constraint=para, schedules="all", seed_data=7)
    if eps_proj is not None:
        kw["eps_proj_physical"] = eps_proj
    dim = c_sys.dim

    def rotd(names):
        r = rot % len(names)
        return names[r:] + names[:r]
    snames, pnames = rotd(STATE_NAMES[mode]), rotd(POVM_NAMES[mode])
    if kind == "qst":
        qt = Qm.QT[kind](Qm.generate_tester_povms(c_sys, pnames), **kw)
    elif kind == "povmt":
        qt = Qm.QT[kind](Qm.generate_tester_states(c_sys, snames), num_outcomes=(m or dim), **kw)
    elif kind == "qpt":
        qt = Qm.QT[kind](Qm.generate_tester_states(c_sys, snames), Qm.generate_tester_povms(c_sys, pnames), **kw)
    elif kind == "qmpt":
        qt = Qm.QT[kind](Qm.generate_tester_states(c_sys, snames), Qm.generate_tester_povms(c_sys, pnames), num_outcomes=(m or 2), **kw)
    else:
        raise AssertionError(kind)
    _QT_CACHE[key] = (qt, c_sys)
    return qt, c_sys


def qt_of(case, rot=None):
    return make_qt(case["kind"], case["sys"], case["para"], eps_proj=case.get("eps"), m=case.get("m"), rot=case.get("rot", 0) if rot is None else rot)


def sname(setting):
    """settings are (kind, sys) or (kind, sys, m)"""
    return dict(kind=setting[0], sys=setting[1], **({"m": setting[2]} if len(setting) > 2 else {}))


def basis_mats(c_sys):
    return [np.array(b.toarray() if hasattr(b, "toarray") else b, dtype=complex) for b in c_sys.basis()]


def type_of(kind):
    return {"qst": "state", "povmt": "povm", "qpt": "gate", "qmpt": "mprocess"}[kind]


# ------------------------------------------------------------------ true objects (physical by construction)
def rand_density(rng, d, rank):
    L = np.array([[complex(rng.randint(-3, 3), rng.randint(-3, 3)) for _ in range(rank)] for _ in range(d)])
    if not np.any(L):
        L[0, 0] = 1
    rho = L @ L.conj().T
    return rho / np.trace(rho).real


def vec_of_op(B, X):
    return np.array([np.trace(b.conj().T @ X).real for b in B])


def hs_of_unitary_mix(B, Us, ps):
    d2 = len(B)
    hs = np.zeros((d2, d2))
    for U, p in zip(Us, ps):
        for a in range(d2):
            for b in range(d2):
                hs[a, b] += p * np.trace(B[a].conj().T @ U @ B[b] @ U.conj().T).real
    return hs


def true_object(ctx_rng, kind, sysname, c_sys, para, which, m=None):
    """which: 'boundary' (typical pure / projective / unitary object), 'interior' (mixture), 'generic' (seeded).
    returns a quara object with the requested parametrisation"""
    Qm = q()
    mode, num = SYS[sysname]
    B = basis_mats(c_sys)
    d = c_sys.dim
    common = dict(is_physicality_required=False, on_para_eq_constraint=para)
    t = type_of(kind)
    if t == "state":
        if which == "boundary":
            psi = np.zeros(d, dtype=complex); psi[0] = 3 / 5; psi[d - 1] = 4j / 5      # pure, Pythagorean amplitudes
            rho = np.outer(psi, psi.conj())
        elif which == "interior":
            psi = np.zeros(d, dtype=complex); psi[0] = 3 / 5; psi[d - 1] = 4j / 5
            rho = 0.75 * np.outer(psi, psi.conj()) + 0.25 * np.eye(d) / d
        else:
            rho = rand_density(ctx_rng, d, ctx_rng.randint(1, d))
        return Qm.State(c_sys, vec_of_op(B, rho), **common)
    if t == "povm":
        m = m or d
        if which == "boundary":
            # projective measurement in a rotated basis (rank-one projectors); for m > d the last projector is split into
            # m-d+1 proportional rank-one pieces, for m < d the last d-m+1 projectors are merged
            th = 0.3
            U = np.eye(d, dtype=complex)
            U[0, 0] = math.cos(th); U[0, 1] = -math.sin(th) * 1j; U[1, 0] = -math.sin(th) * 1j; U[1, 1] = math.cos(th)
            pr = [np.outer(U[:, x], U[:, x].conj()) for x in range(d)]
            if m >= d:
                w = [Fraction(k + 1, sum(range(1, m - d + 2))) for k in range(m - d + 1)]
                els = pr[:d - 1] + [float(wk) * pr[d - 1] for wk in w]
            else:
                els = pr[:m - 1] + [sum(pr[m - 1:])]
        else:
            els = []
            rest = np.eye(d, dtype=complex)
            for x in range(m - 1):
                E = rand_density(ctx_rng, d, d if which == "interior" else ctx_rng.randint(1, d)) / m      # E <= I/m
                els.append(E); rest = rest - E
            els.append(rest)
            if which == "interior":
                els = [0.8 * E + 0.2 * np.eye(d) / m for E in els]
        return Qm.Povm(c_sys, [vec_of_op(B, E) for E in els], **common)
    if t == "gate":
        names = ["hadamard", "x90", "phase", "piover8"] if mode == "qubit" and num == 1 else None
        if names is None:
            raise AssertionError("gates only on one qubit here")
        hss = {n: Qm.generate_qoperation("gate", n, c_sys).hs for n in names}
        if which == "boundary":
            hs = hss["hadamard"] @ hss["piover8"]                      # a unitary channel
        elif which == "interior":
            dep = np.zeros_like(hss["hadamard"]); dep[0, 0] = 1                 # completely depolarising channel
            hs = 0.5 * hss["hadamard"] + 0.2 * hss["x90"] + 0.1 * hss["phase"] + 0.2 * dep
        else:
            w = [ctx_rng.randint(1, 9) for _ in names]
            hs = sum(wi / sum(w) * hss[n] for wi, n in zip(w, names))
        return Qm.Gate(c_sys, np.array(hs, dtype=float), **common)
    if t == "mprocess":
        mp = Qm.generate_qoperation("mprocess", "z-type1", c_sys)
        hs_h = Qm.generate_qoperation("gate", "hadamard", c_sys).hs
        hs_x = Qm.generate_qoperation("gate", "x90", c_sys).hs
        if which == "boundary":
            hss = [hs_h @ h for h in mp.hss]
        elif which == "interior":
            tot = sum(mp.hss)
            dep = np.zeros_like(tot); dep[0, 0] = 1
            hss = [0.6 * hs_x @ h + 0.2 * w * tot + 0.2 * w * dep for h, w in zip(mp.hss, (0.25, 0.75))]
        else:
            a = ctx_rng.randint(1, 9) / 10
            tot = sum(mp.hss)
            hss = [a * hs_h @ mp.hss[0] + (1 - a) * 0.5 * tot, a * hs_h @ mp.hss[1] + (1 - a) * 0.5 * tot]
        m = m or 2
        if m > 2:
            # more outcomes: the last element is split into m-1 pieces, each followed by a different unitary channel (a TP map keeps
            # the first row of an HS matrix, so the sum stays trace preserving and every piece stays CP)
            hs_p = Qm.generate_qoperation("gate", "phase", c_sys).hs
            w = [Fraction(k + 1, sum(range(1, m))) for k in range(m - 1)]
            post = [np.eye(hs_p.shape[0]), hs_p, hs_p @ hs_p, hs_p @ hs_p @ hs_p]
            hss = [hss[0]] + [float(wk) * (post[k % 4] @ hss[1]) for k, wk in enumerate(w)]
        elif m < 2:
            hss = [hss[0] + hss[1]]
        return Qm.MProcess(c_sys, [np.array(h, dtype=float) for h in hss], **common)
    raise AssertionError(kind)


# ------------------------------------------------------------------ exact feasibility of an object
def operators_of(obj, B):
    """the operators whose positivity is the inequality constraint, built from the stacked parameters with the basis
    (independently of quara's conversions): density matrix / POVM elements / Choi matrices"""
    Qm = q()
    d2 = len(B)
    if isinstance(obj, Qm.State):
        return [sum(v * b for v, b in zip(obj.vec, B))]
    if isinstance(obj, Qm.Povm):
        return [sum(v * b for v, b in zip(vec, B)) for vec in obj.vecs]
    hss = [obj.hs] if isinstance(obj, Qm.Gate) else list(obj.hss)
    out = []
    for hs in hss:
        Ch = np.zeros((d2, d2), dtype=complex)
        for a in range(d2):
            for b in range(d2):
                if hs[a, b] != 0:
                    Ch = Ch + hs[a, b] * np.kron(B[a], B[b].conj())
        out.append(Ch)
    return out


def eq_residual(obj, B):
    """max-norm defect of the equality constraint (trace one / sum identity / TP / sum TP)"""
    Qm = q()
    d = B[0].shape[0]
    if isinstance(obj, Qm.State):
        return abs(np.trace(sum(v * b for v, b in zip(obj.vec, B))) - 1)
    if isinstance(obj, Qm.Povm):
        S = sum(sum(v * b for v, b in zip(vec, B)) for vec in obj.vecs)
        return float(np.abs(S - np.eye(d)).max())
    hs = obj.hs if isinstance(obj, Qm.Gate) else sum(obj.hss)
    e0 = np.zeros(hs.shape[0]); e0[0] = 1
    return float(np.abs(hs[0] - e0).max())


def min_eig(obj, B):
    return min(float(np.linalg.eigvalsh((M + M.conj().T) / 2)[0]) for M in operators_of(obj, B))


def psd_exact(ctx, obj, B, shift):
    return all(qcheck.herm_psd(ctx, M, shift) for M in operators_of(obj, B))


def tol_feas(obj):
    return FEAS_FACTOR * math.sqrt(obj.eps_proj_physical)


def stacked(obj):
    return np.asarray(obj.to_stacked_vector(), dtype=float)


# ------------------------------------------------------------------ independent reference of the physical projection
_REF_T = {}


def _ref_tensors(B, choi):
    key = (id(B), choi)
    if key not in _REF_T:
        if choi:
            T = np.array([[np.kron(a, b.conj()) for b in B] for a in B])          # (d2, d2, d^2, d^2), orthonormal for an orthonormal basis
        else:
            T = np.array(B)                                                       # (d2, d, d)
        _REF_T[key] = (B, T)
    return _REF_T[key][1]


def ref_proj_physical(ttype, B, arr, tol=1e-26, maxit=20000):
    """Dykstra's algorithm written here on plain arrays: nearest point (Euclidean norm of the stacked parameters = Hilbert-Schmidt norm of the
    operators, the basis being orthonormal) of {equality constraint} and {every element PSD}.  Uses nothing of quara but the basis matrices.
    arr: (m, d2) coefficient vectors (state: m = 1, povm) or (m, d2, d2) HS matrices (gate: m = 1, mprocess).
    returns (projection, iterations, last increment change)"""
    d = B[0].shape[0]
    choi = arr.ndim == 3
    T = _ref_tensors(B, choi)
    m = arr.shape[0]
    sd = math.sqrt(d)

    def p_eq(a):
        a = a.copy()
        if ttype == "state":
            a[0, 0] = 1 / sd
        elif ttype == "povm":
            c = np.zeros(a.shape[1]); c[0] = sd
            a -= (a.sum(axis=0) - c) / m
        else:
            e0 = np.zeros(a.shape[2]); e0[0] = 1
            a[:, 0, :] -= (a[:, 0, :].sum(axis=0) - e0) / m
        return a

    def p_psd(a):
        out = np.empty_like(a)
        for x in range(m):
            op = np.tensordot(a[x], T, axes=a[x].ndim)
            w, v = np.linalg.eigh((op + op.conj().T) / 2)
            op = (v * np.clip(w, 0, None)) @ v.conj().T
            out[x] = np.real(np.tensordot(T.conj(), op, axes=2))
        return out
    x = np.array(arr, dtype=float)
    p = np.zeros_like(x); qq = np.zeros_like(x)
    err = None
    for k in range(maxit):
        y = p_psd(x + p); p2 = x + p - y
        x2 = p_eq(y + qq); q2 = y + qq - x2
        err = float(((p2 - p) ** 2).sum() + ((q2 - qq) ** 2).sum())
        x, p, qq = x2, p2, q2
        if k >= 1 and err < tol:
            break
    return x, k + 1, err


def params_of(obj):
    """(type, array of parameters) of a quara object in the layout of ref_proj_physical"""
    Qm = q()
    if isinstance(obj, Qm.State):
        return "state", np.array([obj.vec], dtype=float)
    if isinstance(obj, Qm.Povm):
        return "povm", np.array(obj.vecs, dtype=float)
    if isinstance(obj, Qm.Gate):
        return "gate", np.array([obj.hs], dtype=float)
    return "mprocess", np.array(obj.hss, dtype=float)


# ------------------------------------------------------------------ data
def empi_from(qt, obj, rng, data, shots):
    """data: 'exact' | 'fewshot' (multinomial counts of `shots`, zeros frequent) | 'far' (distributions of no object)"""
    pds = [np.array(p, dtype=float) for p in qt.calc_prob_dists(obj)]
    out = []
    for p in pds:
        m = len(p)
        if data == "exact":
            out.append((shots, p))
        elif data == "fewshot":
            pp = np.clip(p, 0, None); pp = pp / pp.sum()
            cnt = [0] * m
            for _ in range(shots):
                r = rng.random(); acc = 0.0; k = m - 1
                for i in range(m):
                    acc += pp[i]
                    if r < acc:
                        k = i; break
                cnt[k] += 1
            out.append((shots, np.array(cnt, dtype=float) / shots))
        elif data == "far":
            if rng.random() < 0.6:
                e = np.zeros(m); e[rng.randrange(m)] = 1.0      # a vertex: certain outcome, inconsistent across schedules
            else:
                w = [rng.randint(0, 9) for _ in range(m)]
                if sum(w) == 0:
                    w[0] = 1
                e = np.array(w, dtype=float) / sum(w)
            out.append((shots, e))
        else:
            raise AssertionError(data)
    return out


def case_rng(ctx, case):
    import random
    return random.Random("%s|%s" % (case.get("seed", ctx.seed), case.get("id")))


def stamp(ctx, cases):
    """a case re-executes identically from a replay file whatever VERIF_SEED is then"""
    for c in cases:
        c.setdefault("seed", ctx.seed)
    return cases


# ------------------------------------------------------------------ running an estimator
class Recorder:
    """wraps algo._func_proj: records (argument, output) of every call"""

    def __init__(self, fn):
        self.fn, self.calls = fn, []

    def __call__(self, var):
        arg = np.array(var, dtype=float, copy=True)
        out = self.fn(var)
        self.calls.append((arg, np.array(out, dtype=float, copy=True)))
        return out


def build_lme(qt, algo_name, loss_name, flags, order, maxit, record=False, extra=None):
    Qm = q()
    A, AO = Qm.ALGO[algo_name]
    L, LO = Qm.LOSS[loss_name]
    kw = dict(on_algo_eq_constraint=flags[0], on_algo_ineq_constraint=flags[1], mode_proj_order=order,
              max_iteration_optimization=maxit)
    kw.update(extra or {})
    algo, opt = A(), AO(**kw)
    rec = None
    if record:
        # record every call of the installed projection; survives the estimator calling set_constraint_... again
        rec = Recorder(None)
        orig = algo.set_constraint_from_standard_qt_and_option

        def patched(qt_, opt_):
            if isinstance(algo._func_proj, Recorder):
                algo._func_proj = algo._func_proj.fn
            orig(qt_, opt_)
            rec.fn = algo._func_proj
            algo._func_proj = rec
        algo.set_constraint_from_standard_qt_and_option = patched
    return algo, opt, L(qt.num_variables), LO("identity"), rec


LAST = {"cap_warnings": 0}          # of the last run_lme: how often calc_proj_physical_with_var printed that it hit max_iteration_proj_physical


def run_lme(qt, empi, algo_name, loss_name, flags, order, maxit, record=False, extra=None):
    Qm = q()
    algo, opt, loss, lopt, rec = build_lme(qt, algo_name, loss_name, flags, order, maxit, record, extra)
    with quiet() as buf:
        res = Qm.LossMinimizationEstimator().calc_estimate(qt, empi, loss, lopt, algo, opt,
                                                           is_computation_time_required=True, is_detailed_results_required=True)
    LAST["cap_warnings"] = buf.getvalue().count("projection iterations exceeds the limit")
    return res, res.detailed_results[0], algo, opt, loss, rec


# ------------------------------------------------------------------ sub-check: estimates
CAL = {}          # calibration maxima observed in this run (reported as a note)


def cal(key, val):
    if val > CAL.get(key, 0.0):
        CAL[key] = val


ALGO_SITE = {"bt": "ProjectedGradientDescentBacktracking.optimize", "mom": "ProjectedGradientDescentWithMomentum.optimize",
             "fista": "ProjectedFastIterativeShrinkageThresholdingAlgorithm.optimize"}


def feasibility(ctx, obj, B, flags, tol, exact=True):
    """returns list of failed constraints ('eq', 'ineq', 'eq:quara', 'ineq:quara') and the residuals"""
    bad = []
    er = eq_residual(obj, B)
    me = min_eig(obj, B)
    if flags[0]:
        if er > tol:
            bad.append("eq")
        if not bool(obj.is_eq_constraint_satisfied(atol=tol)):
            bad.append("eq:quara")
    if flags[1]:
        ok = psd_exact(ctx, obj, B, tol) if exact else (me >= -tol)
        if not ok:
            bad.append("ineq")
        if not bool(obj.is_ineq_constraint_satisfied(atol=tol)):
            bad.append("ineq:quara")
    return bad, er, me


def chk_estimate(ctx, case):
    Qm = q()
    rng = case_rng(ctx, case)
    kind, sysname, para = case["kind"], case["sys"], case["para"]
    qt, c_sys = qt_of(case)
    B = basis_mats(c_sys)
    truth = true_object(rng, kind, sysname, c_sys, para, case["truth"], m=case.get("m"))
    empi = empi_from(qt, truth, rng, case["data"], case["shots"])
    flags = tuple(case["flags"])
    template = qt.generate_empty_estimation_obj_with_setting_info()
    tol = tol_feas(template)
    s = math.sqrt(template.eps_proj_physical)
    if case["est"] == "lme" and flags == (False, True) and para:
        # NOT a configuration the property talks about ("... and the constraint options on": here on_algo_eq_constraint is off), and the
        # installed projection to_var o P_psd o to_stacked does not map into the PSD set (Props: C10_ineq_only_projection_with_para_eq_not_into_psd;
        # tied to the code by sub-check ineq_var): no physicality verdict.  (Cases of this shape are no longer generated; old replays end here.)
        ctx.count("estimates", key=case["id"], nontrivial=False, label="not-judged:ineq-only+para_eq (outside the property)")
        return
    iterates = []
    if case["est"] == "ple":
        site = "ProjectedLinearEstimator.calc_estimate"
        with quiet():
            res = Qm.ProjectedLinearEstimator(case["order"]).calc_estimate(qt, empi, is_computation_time_required=case.get("hist", False))
        label = "ple"
    else:
        site = ALGO_SITE[case["algo"]]
        extra, _used = build_opts(case, qt, c_sys, rng)
        res, det, algo, opt, loss, _ = run_lme(qt, empi, case["algo"], case["loss"], flags, case["order"], case["maxit"], extra=extra)
        iterates = list(det.x)
        label = "%s/%s" % (case["algo"], case["loss"])
        if not np.array_equal(np.asarray(det.x[-1]), np.asarray(res.estimated_var)) or len(det.x) != det.k + 1:
            ctx.violation("estimates", site, "result-not-last-iterate", "returned value is not the last stored iterate (k=%s, %d stored)" % (det.k, len(det.x)), case)
        if case.get("nohist"):
            # the branch without iteration history must return the same point (deterministic computation)
            algo2, opt2, loss2, lopt2, _ = build_lme(qt, case["algo"], case["loss"], flags, case["order"], case["maxit"], extra=extra)
            with quiet():
                res2 = Qm.LossMinimizationEstimator().calc_estimate(qt, empi, loss2, lopt2, algo2, opt2)
            ctx.count("estimates", key=(case["id"], "nohist"), nontrivial=True, label="history-off-same-value")
            if not np.array_equal(np.asarray(res2.estimated_var, dtype=float), np.asarray(res.estimated_var, dtype=float)):
                ctx.violation("estimates", site, "history-flag-changes-result", "%s %s: estimate without iteration history %s differs from the one with history %s" % (
                    kind, label, res2.estimated_var, res.estimated_var), case)
    est = res.estimated_qoperation
    if float(est.eps_proj_physical) != float(template.eps_proj_physical) or bool(est.on_para_eq_constraint) != bool(para):
        ctx.violation("estimates", site, "estimate-drops-tomography-setting",
                      "%s %s para=%s: the estimated object has eps_proj_physical=%r on_para_eq_constraint=%r, the tomography was built with %r / %r" % (
                          kind, label, para, est.eps_proj_physical, est.on_para_eq_constraint, template.eps_proj_physical, para), case)
        return
    nontriv = case["data"] != "exact" or case["truth"] != "interior"
    ctx.count("estimates", key=case["id"], nontrivial=nontriv, label="%s:%s:%s:%s:%s" % (kind, label, case["data"], "eq%d-ineq%d" % (int(flags[0]), int(flags[1])), case["order"]))
    bad, er, me = feasibility(ctx, est, B, flags, tol)
    if bad and case["est"] == "lme" and LAST["cap_warnings"]:
        # known finding C10-4: the Dykstra loop of the installed projection hit max_iteration_proj_physical (quara prints a warning) and handed back a
        # point that is not physical; seen when momentum / FISTA keep iterating on a diverging relative-entropy run (non-default stopping modes)
        ctx.violation("estimates", "QOperation.calc_proj_physical_with_var", "projection-cap-reached:estimate-not-physical",
                      "%s m=%s %s para=%s flags=%s data=%s options=%s: the projection hit its iteration cap %d times during the run; the estimate violates %s "
                      "(eq residual %.3e, min eigenvalue %.3e, tolerance %.1e)" % (kind, case.get("m"), label, para, flags, case["data"], case.get("opts"), LAST["cap_warnings"], bad, er, me, tol), case)
        return
    if flags[0]:
        cal("eq_residual/s [%s]" % label.split("/")[0], er / s)
    if flags[1]:
        cal("neg_eig/s [%s]" % label.split("/")[0], max(0.0, -me) / s)
    # both options on and variables = stacked vector (on_para_eq_constraint=False): the constraint projected LAST in the option's order holds
    # to rounding for the estimate and every stored iterate (Props: C10_both_options_on_*_iterates_satisfy_last_constraint); the other one
    # only to the stopping accuracy of the Dykstra loop.  (Under on_para_eq_constraint=True the conversion to variables re-normalises.)
    last_chk = case["est"] == "lme" and flags == (True, True) and not para
    last_def = {"eq_ineq": max(0.0, -me), "ineq_eq": er}          # defect of the constraint projected last, by order
    if bad:
        ctx.violation("estimates", site, "estimate-not-physical:" + bad[0].split(":")[0],
                      "%s %s para=%s flags=%s data=%s: estimate violates %s (eq residual %.3e, min eigenvalue %.3e, tolerance %.1e)" % (
                          kind, label, para, flags, case["data"], bad, er, me, tol), case)
    # every stored iterate (history on): feasible
    if iterates:
        idx = list(range(len(iterates)))
        if len(idx) > 40:
            idx = sorted(set([0, 1, 2, len(idx) - 1] + [int(t) for t in np.linspace(0, len(idx) - 1, 36)]))
        worst = None
        for t in idx:
            o = template.generate_from_var(np.asarray(iterates[t], dtype=float))
            b2, er2, me2 = feasibility(ctx, o, B, flags, tol, exact=(t in idx[:3] or t == idx[-1] or me_close(o, B, tol)))
            if flags[0]:
                cal("eq_residual/s [iterates]", er2 / s)
            if flags[1]:
                cal("neg_eig/s [iterates]", max(0.0, -me2) / s)
            if b2 and worst is None:
                worst = (t, b2, er2, me2)
            if last_chk and t >= 1:
                last_def = {"eq_ineq": max(last_def["eq_ineq"], -me2), "ineq_eq": max(last_def["ineq_eq"], er2)}
        ctx.count("estimates", key=(case["id"], "iterates"), nontrivial=len(idx) > 2, label="iterates:%s" % case["algo"])
        if worst:
            t, b2, er2, me2 = worst
            ctx.violation("estimates", site, "iterate-not-feasible:" + b2[0].split(":")[0],
                          "%s %s flags=%s data=%s: stored iterate %d of %d violates %s (eq residual %.3e, min eigenvalue %.3e, tolerance %.1e)" % (
                              kind, label, flags, case["data"], t, len(iterates), b2, er2, me2, tol), case)
    if last_chk:
        order = case["order"]; other = "ineq_eq" if order == "eq_ineq" else "eq_ineq"
        cal("last_constraint_defect [%s]" % order, last_def[order]); cal("other_constraint_defect [%s]" % order, last_def[other])
        decided = last_def[other] > 1e3 * TOL_LAST          # the run shows WHICH constraint was projected last
        ctx.count("estimates", key=(case["id"], "last"), nontrivial=decided, label="last-constraint-exact:%s:%s" % (order, "decided" if decided else "both-exact"))
        if last_def[order] > TOL_LAST:
            if last_def[other] <= TOL_LAST and last_def[order] <= tol:          # feasible to the Dykstra threshold, exact in the OTHER constraint
                ctx.violation("estimates", ORDER_SITE, ORDER_SIG,
                              "%s %s para=False flags (eq on, ineq on) option mode_proj_order=%s: the estimate and the stored iterates satisfy the constraint projected last in order %r to rounding "
                              "(defect %.2e) and the one projected last in the option's order only to %.2e — the projection ran in the other order" % (
                                  kind, label, order, other, last_def[other], last_def[order]), case)
            else:
                ctx.violation("estimates", site, "last-projected-constraint-not-exact",
                              "%s %s para=False flags (eq on, ineq on) order=%s: constraint projected last holds only to %.2e (other constraint %.2e; expected <= %.0e: every iterate is a convex "
                              "combination of outputs of that projection)" % (kind, label, order, last_def[order], last_def[other], TOL_LAST), case)
    # exact data of a physical object returns it (projected linear, backtracking)
    if case["data"] == "exact" and flags == (True, True) and (case["est"] == "ple" or case["algo"] == "bt"):
        dist = float(np.abs(stacked(est) - stacked(truth)).max())
        tol_x = EXACT_PLE_FACTOR * s if case["est"] == "ple" else TOL_EXACT_BT[case["loss"][-2:]]
        cal("exact_dist [%s]" % ("ple" if case["est"] == "ple" else "bt/" + case["loss"]), dist)
        capped = case["est"] == "lme" and det.k >= case["maxit"]
        ctx.count("estimates", key=(case["id"], "exact"), nontrivial=not capped, label="exact-recovery:%s:%s" % (case["truth"], "capped" if capped else "converged"))
        if dist > tol_x and not capped:
            sig = "exact-data-not-recovered"
            extra = ""
            n_el = params_of(est)[1].shape[0]
            if case["est"] == "lme" and para and type_of(kind) in ("povm", "mprocess") and n_el >= 3 and float(det.alpha[-1]) < 1e-6:
                # known finding C10-3 (= C11-3 seen through C10): >= 3 elements under on_para_eq_constraint=True, the installed projection is the
                # nearest-point map of a non-Euclidean metric of the variables, the step is no descent direction, the line search collapses
                sig += ":eq-para-m3+:line-search-stalled"
                extra = " — backtracking stopped by its own criterion after %d iterations with step size %.1e" % (det.k, float(det.alpha[-1]))
            ctx.violation("estimates", site, sig,
                          "%s m=%d %s para=%s truth=%s: exact data, |estimate - truth| = %.3e > %.1e%s" % (kind, n_el, label, para, case["truth"], dist, tol_x, extra), case)


def me_close(obj, B, tol):
    """exact PSD decision is run on iterates whose float eigenvalue is within 10x of the tolerance (else the float value decides)"""
    return min_eig(obj, B) < 10 * tol


def gen_estimate_cases(ctx):
    rng = ctx.rng
    cases = []
    quick = ctx.quick
    settings = list(S_CORE) + ([("qmpt", "1qubit", 3)] if quick else [t for t in S_THOROUGH if t not in S_CORE])
    n = 0

    def add(**kw):
        nonlocal n
        kw["id"] = "e%d" % n
        n += 1
        cases.append(kw)

    datas = [("exact", 1000), ("fewshot", 1), ("fewshot", 3), ("fewshot", 10), ("far", 5)]
    heavy_n = [0]
    for kind, sysname, mo in settings:
        small = sysname == "1qubit" and kind in ("qst", "povmt")
        heavy = kind == "qmpt" or sysname == "2qubit"
        for para in (True, False):
            # projected linear: both orders, all data kinds, all truths
            for order in ("eq_ineq", "ineq_eq"):
                for data, shots in datas:
                    for truth in (("boundary", "interior", "generic") if data == "exact" else (rng.choice(["boundary", "interior", "generic"]),)):
                        add(kind=kind, sys=sysname, m=mo, para=para, truth=truth, data=data, shots=shots, est="ple", order=order,
                            flags=[True, True], hist=rng.random() < 0.5)
                        if data != "exact" and rng.random() < 0.15:
                            cases[-1]["eps"] = EPS_TIGHT          # the tomography is built with a tight eps_proj_physical: feasibility is judged at 300 sqrt(1e-18)
            # loss minimisation
            combos = list(itertools.product(("bt", "mom", "fista"), ("wse", "swse", "wre", "swre")))
            for algo, loss in combos:
                for data, shots in datas:
                    if quick:
                        # the quick tier samples the grid (every run another sample; the thorough tier runs all of it)
                        keep = 0.1 if small else (0.04 if heavy else 0.06)
                        if data == "exact" and algo == "bt":
                            keep = 0.4 if small else (0.12 if heavy else 0.3)
                        if rng.random() >= keep:
                            continue
                    elif heavy and rng.random() >= 0.15:
                        continue          # instruments / two qubits: a sample of the grid also in the thorough tier (seconds per run)
                    truth = rng.choice(["boundary", "interior", "generic"]) if data != "exact" else rng.choice(["boundary", "interior"])
                    fl = [True, True]
                    r = rng.random()
                    if r < 0.12:
                        fl = [True, False]
                    elif r < 0.24 and not para:
                        fl = [False, True]          # under on_para_eq_constraint=True this combination is outside the property (see chk_estimate)
                    maxit = (40 if small else (15 if heavy else 25)) if quick else (200 if small else (60 if heavy else 100))
                    if data == "exact" and algo == "bt":
                        maxit = max(maxit, 200)
                    if quick and heavy:
                        maxit = min(maxit, 12)          # instruments cost up to seconds per iteration with relative entropy; exact recovery for them: thorough tier
                        heavy_n[0] += 1
                        if heavy_n[0] > 6:          # instruments cost seconds per run: at most 8 loss-minimisation runs in the quick tier
                            continue
                    add(kind=kind, sys=sysname, m=mo, para=para, truth=truth, data=data, shots=shots, est="lme", algo=algo, loss=loss,
                        order=rng.choice(["eq_ineq", "ineq_eq"]), flags=fl, maxit=maxit, nohist=rng.random() < 0.3)
                    if data != "exact" and rng.random() < 0.05:
                        cases[-1]["eps"] = EPS_TIGHT
                    if data != "exact" and rng.random() < (0.3 if algo == "bt" else 0.12) and (algo == "bt" or not quick):
                        # other stopping modes / windows (exact-recovery tolerances are calibrated for the default).  Momentum / FISTA in a mode that does not
                        # stop on a loss INCREASE can diverge with relative entropy, and then each projection runs into its cap (known finding C10-4; minutes
                        # with the default cap): thorough tier only, with an explicit cap
                        cases[-1]["opts"] = dict(mode=rng.choice(STOP_MODES), h=rng.choice([1, 2, 3]), cap=None if algo == "bt" else 500)
                        cases[-1]["maxit"] = min(cases[-1]["maxit"], 60)          # modes that never fire run to the cap
    if not quick:
        # deterministic witness of known finding C10-4 (11 s)
        add(kind="qmpt", sys="1qubit", m=3, para=False, truth="interior", data="fewshot", shots=10, est="lme", algo="mom", loss="wre", order="eq_ineq",
            flags=[True, True], maxit=15, nohist=False, opts=dict(mode="sum_absolute_difference_projected_gradient", h=2, cap=3000), seed=20260926)
        cases[-1]["id"] = "e337"
    return cases


def sub_estimates(ctx):
    cases = gen_estimate_cases(ctx)
    ctx.sample("estimates", cases[0]); ctx.sample("estimates", cases[-1])
    import os, time as _t
    if os.environ.get("C10_PROFILE"):
        for c in stamp(ctx, cases):
            t0 = _t.time(); ctx.run_cases("estimates", chk_estimate, [c]); dt = _t.time() - t0
            if dt > 0.8:
                print("SLOW %.1fs %s" % (dt, {k: v for k, v in c.items() if k not in ("seed",)}), flush=True)
        return
    ctx.run_cases("estimates", chk_estimate, stamp(ctx, cases))
    ctx.note("estimates: calibration maxima of this run (s = sqrt(eps_proj_physical)): %s" % {k: float("%.3g" % v) for k, v in sorted(CAL.items())})



# ------------------------------------------------------------------ sub-check: select (decision table)
KIND_CODE = {"physical": 0, "eq": 1, "ineq": 2, "identity": 3}
ORDER_CODE = {"eq_ineq": 0, "ineq_eq": 1}
SELECT_SITE = "ProjectedGradientDescent.set_constraint_from_standard_qt_and_option"
ORDER_SITE = "QOperation.func_calc_proj_physical_with_var"
ORDER_SIG = "mode_proj_order-ignored"
CACHED_SIG = "cached-func-proj"          # site SELECT_SITE; repair fixes/pgd-cached-func-proj.diff (owner C13)


def candidates(si, c_sys, para, v, maxit):
    """what each possible projection does to the probe vector v (direct calls on the setting-info object)"""
    out = {}
    with quiet():
        for o in ("eq_ineq", "ineq_eq"):
            s2 = si.copy(); s2.set_mode_proj_order(o)
            out[(0, ORDER_CODE[o])] = np.asarray(s2.calc_proj_physical_with_var(v.copy(), on_para_eq_constraint=para, max_iteration=maxit), dtype=float)
        out[(1, None)] = np.asarray(si.calc_proj_eq_constraint_with_var(c_sys, v.copy(), on_para_eq_constraint=para), dtype=float)
        out[(2, None)] = np.asarray(si.calc_proj_ineq_constraint_with_var(c_sys, v.copy(), on_para_eq_constraint=para,
                                                                          eps_truncate_imaginary_part=si.eps_truncate_imaginary_part), dtype=float)
    out[(3, None)] = np.asarray(v, dtype=float).copy()
    return out


def model_installed(m, given, cfgs, t_para, t_order):
    """installed projection of a (re-used) algorithm object after the configurations cfgs = [(flags, order, maxit), ...] (Coq: C10_installed
    (fold_left C10_configure cfgs a0)); given: None or descriptor codes of a projection handed to the constructor"""
    zs = [0, 0, 0, 0, 0] if given is None else [1] + [int(v) for v in given]
    for f_, o_, mx_ in cfgs:
        zs += [int(t_para), ORDER_CODE[t_order], int(f_[0]), int(f_[1]), ORDER_CODE[o_], int(mx_)]
    return tuple(int(x) for x in m.call("c10.configure_seq", zs))


def chk_select(ctx, case):
    Qm = q()
    m = ctx.get_model()
    rng = case_rng(ctx, case)
    qt, c_sys = qt_of(case)
    A, AO = Qm.ALGO[case["algo"]]
    si = qt.generate_empty_estimation_obj_with_setting_info()
    t_para, t_order = bool(si.on_para_eq_constraint), si.mode_proj_order
    flags, order, maxit = case["flags"], case["order"], case["maxit"]
    cfgs = ([tuple(case["cached"])] if case.get("cached") else []) + [(flags, order, maxit)]
    cached = bool(case.get("cached"))
    given, fn_given = None, None
    if case.get("given") is not None:
        # a projection handed to the constructor: the equality projection (kind 1) or the identity (kind 3)
        from quara.math import func_proj as fp
        fn_given = si.func_calc_proj_eq_constraint_with_var(t_para) if case["given"] == 1 else fp.proj_to_self()
        given = (case["given"], int(t_para), 0, 0)
    algo = A(fn_given) if fn_given is not None else A()
    conv = {"npbool": np.bool_, "int": int}.get(case.get("flagtype"), bool)          # option flags that are == True / False without being the singletons
    for f_, o_, mx_ in cfgs:
        algo.set_constraint_from_standard_qt_and_option(qt, AO(on_algo_eq_constraint=conv(f_[0]), on_algo_ineq_constraint=conv(f_[1]), mode_proj_order=o_, max_iteration_proj_physical=mx_))
    exp = model_installed(m, given, cfgs, t_para, t_order)
    if fn_given is not None:
        ctx.count("select", key=(case["id"], "given"), nontrivial=True, label="given:kept" if algo.func_proj is fn_given else "given:replaced")
        if algo.func_proj is not fn_given:
            ctx.violation("select", SELECT_SITE, "given-projection-replaced",
                          "%s %s para=%s: the projection handed to the constructor is no longer installed after configuring with flags %s" % (case["kind"], case["algo"], case["para"], [c[0] for c in cfgs]), case)
        elif exp != given:
            ctx.violation("select", SELECT_SITE, "model-mismatch", "model: a given projection %s is replaced by %s" % (given, exp), case)
        return
    first = model_installed(m, None, cfgs[:1], t_para, t_order)      # AS CODED BEFORE FIX pgd-cached-func-proj: the first derived projection is kept

    def tmpl(d):                                                     # AS CODED BEFORE FIX qoperation-func-proj-physical-with-var-order: the template's order
        return (d[0], d[1], ORDER_CODE[t_order], d[3])
    n = qt.num_variables
    verdict = {"model": 0, "order-ignored": 0, "kept-first": 0, "none": 0}
    distinguishable = False
    witness = None
    for _ in range(2):
        v = np.array([rng.randint(-20, 20) / 10 for _ in range(n)])
        with quiet():
            out = np.asarray(algo.func_proj(v.copy()), dtype=float)

        def agrees(desc):
            cand = candidates(si, c_sys, bool(desc[1]), v, desc[3])
            key = (desc[0], desc[2] if desc[0] == 0 else None)
            mine = cand[key]
            others = [c for k2, c in cand.items() if k2 != key]
            return float(np.abs(out - mine).max()) <= TOL_SAME, all(float(np.abs(mine - c).max()) > 1e3 * TOL_SAME for c in others), mine
        ok, dist, mine = agrees(exp)
        distinguishable = distinguishable or dist
        if ok:
            verdict["model"] += 1
            continue
        # not the model's projection.  Name the failure class:
        #  order-ignored : the physical projection in the TEMPLATE's order (defect repaired by fixes/qoperation-func-proj-physical-with-var-order.diff)
        #  kept-first    : the projection derived for the FIRST configuration is still installed (defect repaired by fixes/pgd-cached-func-proj.diff, owner C13)
        alts = [("order-ignored", tmpl(exp))]
        if cached:
            alts += [("kept-first", first), ("kept-first", tmpl(first))]
        for name, d in alts:
            if agrees(d)[0]:
                verdict[name] += 1
                if name == "order-ignored" and (witness is None or float(np.abs(out - mine).max()) > float(np.abs(witness[1] - witness[2]).max())):
                    witness = (v, out, mine)
                break
        else:
            verdict["none"] += 1
    lab = "given" if given else ("reused" if cached else "fresh")
    got = [k for k, c in verdict.items() if c]
    ctx.count("select", key=case["id"], nontrivial=distinguishable, label="%s:kind%d:%s:%s" % (lab, exp[0], order if exp[0] == 0 else "-", "+".join(got)))
    if verdict["order-ignored"]:
        v, out, mine = witness
        ctx.violation("select", ORDER_SITE, ORDER_SIG,
                      "%s %s para=%s flags=%s option mode_proj_order=%s max_iteration_proj_physical=%s cached=%s: the installed func_proj runs the physical projection in the "
                      "template's order %r, not in the option's: func_proj(%s) = %s, calc_proj_physical_with_var in the option's order gives %s (difference %.3e)" % (
                          case["kind"], case["algo"], case["para"], flags, order, maxit, case.get("cached"), t_order,
                          [float(t) for t in v], [float(t) for t in out], [float(t) for t in mine], float(np.abs(out - mine).max())), case)
    if verdict["kept-first"]:
        ctx.violation("select", SELECT_SITE, CACHED_SIG,
                      "%s %s para=%s: algorithm object configured with flags %s (order %s) and then with flags %s (order %s, max_iteration_proj_physical %s): the installed func_proj is still the "
                      "projection derived from the FIRST configuration (model: kind %d), not the one of the current configuration (model: kind %d)" % (
                          case["kind"], case["algo"], case["para"], cfgs[0][0], cfgs[0][1], flags, order, maxit, first[0], exp[0]), case)
    if verdict["none"]:
        ctx.violation("select", SELECT_SITE, "wrong-projection",
                      "%s %s para=%s flags=%s order=%s maxit=%s cached=%s: installed func_proj is not the projection the decision table (model: kind %d order %d maxit %d) selects" % (
                          case["kind"], case["algo"], case["para"], flags, order, maxit, case.get("cached"), exp[0], exp[2], exp[3]), case)


def chk_select_errors(ctx, case):
    """error branches: unsupported mode_proj_order raises ValueError in every option class and in ProjectedLinearEstimator"""
    Qm = q()
    for name, (A, AO) in Qm.ALGO.items():
        try:
            AO(mode_proj_order=case["order"]); raised = False
        except ValueError:
            raised = True
        ctx.count("select", key=("err", name, case["order"]), nontrivial=True, label="error-branch")
        if raised != (case["order"] not in ("eq_ineq", "ineq_eq")):
            ctx.violation("select", "ProjectedGradientDescentOption.__init__", "error-branch", "mode_proj_order=%r: raised=%s" % (case["order"], raised), case)
    try:
        Qm.ProjectedLinearEstimator(case["order"]); raised = False
    except ValueError:
        raised = True
    if raised != (case["order"] not in ("eq_ineq", "ineq_eq")):
        ctx.violation("select", "ProjectedLinearEstimator.__init__", "error-branch", "mode_proj_order=%r: raised=%s" % (case["order"], raised), case)


def sub_select(ctx):
    rng = ctx.rng
    cases = []
    settings = S_LIGHT if ctx.quick else [t for t in S_THOROUGH if t[1] != "2qubit"]
    n = 0
    for kind, sysname, mo in settings:
        core = (kind, sysname, mo) in S_CORE or wide(ctx)
        for para in (True, False):
            for flags in ([True, True], [True, False], [False, True], [False, False]) if core else ([True, True], rng.choice([[True, False], [False, True]])):
                for order in ("eq_ineq", "ineq_eq") if (core or flags == [True, True]) else ("eq_ineq",):
                    algos = ("bt", "mom", "fista") if wide(ctx) else (rng.choice(["bt", "mom", "fista"]),)
                    for algo in algos:
                        maxit = rng.choice([1, 2, 100000]) if flags == [True, True] else 100000
                        cases.append(dict(id="s%d" % n, kind=kind, sys=sysname, m=mo, para=para, algo=algo, flags=flags, order=order, maxit=maxit,
                                          flagtype=rng.choice(["bool", "bool", "npbool", "int"]))); n += 1
            if not core:
                continue
            for _ in range((6 if wide(ctx) else 2)):
                f0 = rng.choice([[True, True], [True, False], [False, True], [False, False]])
                f1 = rng.choice([f for f in ([True, True], [True, False], [False, True], [False, False]) if f != f0])
                cases.append(dict(id="s%d" % n, kind=kind, sys=sysname, m=mo, para=para, algo=rng.choice(["bt", "mom", "fista"]), flags=f1,
                                  order=rng.choice(["eq_ineq", "ineq_eq"]), maxit=100000, cached=[f0, rng.choice(["eq_ineq", "ineq_eq"]), 100000])); n += 1
            # a projection handed to the constructor (equality projection / identity), then one or two configurations
            for g in (1, 3):
                f1 = rng.choice([[True, True], [True, False], [False, True], [False, False]])
                c = dict(id="s%d" % n, kind=kind, sys=sysname, m=mo, para=para, algo=rng.choice(["bt", "mom", "fista"]), flags=f1,
                         order=rng.choice(["eq_ineq", "ineq_eq"]), maxit=100000, given=g); n += 1
                if rng.random() < 0.5:
                    c["cached"] = [rng.choice([[True, True], [False, False]]), rng.choice(["eq_ineq", "ineq_eq"]), 100000]
                cases.append(c)
    ctx.sample("select", cases[0])
    ctx.run_cases("select", chk_select, stamp(ctx, cases))
    ctx.run_cases("select", chk_select_errors, [{"order": o} for o in ("eq_ineq", "ineq_eq", "eq-ineq", "", "ineq_eq ")])


# ------------------------------------------------------------------ sub-check: reuse (histories: objects used for several jobs — end to end)
def _lme_job(Qm, qt, empi, est, loss, lopt, algo, AO, fl, order, maxit):
    opt = AO(on_algo_eq_constraint=fl[0], on_algo_ineq_constraint=fl[1], mode_proj_order=order, max_iteration_optimization=maxit)
    with quiet():
        return est.calc_estimate(qt, empi, loss, lopt, algo, opt)


def chk_reuse(ctx, case):
    """One LossMinimizationEstimator + loss + loss-option + algorithm object used for a sequence of jobs; the jobs differ in the constraint options /
    projection order AND in the tomography experiment (tester lists rotated: same matrix shapes, other matrices).  (Props:
    C10_reused_algorithm_installs_projection_of_last_configuration for the projection.)  EVERY job's estimate must be exactly the estimate that
    all-fresh objects return for that job alone, and feasible for the constraint options that are on in that job."""
    Qm = q()
    rng = case_rng(ctx, case)
    kind, sysname, para = case["kind"], case["sys"], case["para"]
    A, AO = Qm.ALGO[case["algo"]]
    L, LO = Qm.LOSS[case["loss"]]
    shared = case.get("shared", ["est", "loss", "lopt", "algo"])
    qt0, c_sys = qt_of(case, rot=0)
    B = basis_mats(c_sys)
    est, loss, lopt, algo = Qm.LossMinimizationEstimator(), L(qt0.num_variables), LO("identity"), A()
    seen_rot = []
    for ji, (fl, order, rot) in enumerate(case["jobs"]):
        qt, _ = qt_of(case, rot=rot)
        truth = true_object(rng, kind, sysname, c_sys, para, "generic", m=case.get("m"))
        empi = empi_from(qt, truth, rng, case["data"], case["shots"])
        objs = dict(est=est if "est" in shared else Qm.LossMinimizationEstimator(), loss=loss if "loss" in shared else L(qt.num_variables),
                    lopt=lopt if "lopt" in shared else LO("identity"), algo=algo if "algo" in shared else A())
        res = _lme_job(Qm, qt, empi, objs["est"], objs["loss"], objs["lopt"], objs["algo"], AO, fl, order, case["maxit"])
        fresh = _lme_job(Qm, qt, empi, Qm.LossMinimizationEstimator(), L(qt.num_variables), LO("identity"), A(), AO, fl, order, case["maxit"])
        flags = tuple(fl)
        same = np.array_equal(np.asarray(res.estimated_var, dtype=float), np.asarray(fresh.estimated_var, dtype=float))
        tol = tol_feas(qt.generate_empty_estimation_obj_with_setting_info())
        bad, er, me = feasibility(ctx, res.estimated_qoperation, B, flags, tol)
        hist = "first" if ji == 0 else ("other-experiment-same-shape" if any(r != rot for r in seen_rot) else "same-experiment")
        seen_rot.append(rot)
        ctx.count("reuse", key=(case["id"], ji), nontrivial=ji > 0, label="lme:%s:%s:eq%d-ineq%d-%s:%s" % (case["algo"], hist, int(fl[0]), int(fl[1]), order, "same-as-fresh" if same else "differs"))
        jc = dict(case, focus_job=ji)
        if not same:
            # which shared object carries the state?  (the algorithm object's projection: C13's repaired defect; anything else: named)
            ctx.violation("reuse", SELECT_SITE if shared == ["algo"] else "LossMinimizationEstimator.calc_estimate", CACHED_SIG if shared == ["algo"] else "reused-objects-change-estimate",
                          "%s %s/%s para=%s data=%s: objects %s shared over the jobs %s: estimate of job %d %s differs from the estimate of fresh objects %s "
                          "(constraints of that job violated: %s; eq residual %.3e, min eigenvalue %.3e, tolerance %.1e)" % (
                              kind, case["algo"], case["loss"], para, case["data"], shared, case["jobs"], ji, [float(t) for t in res.estimated_var][:8], [float(t) for t in fresh.estimated_var][:8], bad or "none", er, me, tol), jc)
            return
        if bad:
            ctx.violation("reuse", ALGO_SITE[case["algo"]], "estimate-not-physical:" + bad[0].split(":")[0],
                          "%s %s/%s para=%s flags=%s data=%s: estimate violates %s (eq residual %.3e, min eigenvalue %.3e, tolerance %.1e)" % (
                              kind, case["algo"], case["loss"], para, flags, case["data"], bad, er, me, tol), jc)
            return
    # LossMinimizationEstimator.calc_estimate_sequence over DIFFERENT data sets == element-wise estimates of fresh objects (last experiment)
    if ctx.quick and int(case["id"][1:]) % 2:
        return          # quick tier: the sequence call on every second case
    truth2 = true_object(rng, kind, sysname, c_sys, para, "boundary", m=case.get("m"))
    seq = [empi, empi_from(qt, truth2, rng, "fewshot", 3)] + ([] if ctx.quick else [empi_from(qt, truth2, rng, "far", 5)])
    opt = AO(on_algo_eq_constraint=True, on_algo_ineq_constraint=True, mode_proj_order=order, max_iteration_optimization=case["maxit"])
    with quiet():
        rs = est.calc_estimate_sequence(qt, seq, loss, lopt, algo, opt)
    for si_, e_ in enumerate(seq):
        fr = _lme_job(Qm, qt, e_, Qm.LossMinimizationEstimator(), L(qt.num_variables), LO("identity"), A(), AO, [True, True], order, case["maxit"])
        same = np.array_equal(np.asarray(rs.estimated_var_sequence[si_], dtype=float), np.asarray(fr.estimated_var, dtype=float))
        ctx.count("reuse", key=(case["id"], "seq", si_), nontrivial=True, label="lme:sequence-call:%s" % ("same-as-elementwise" if same else "differs"))
        if not same:
            ctx.violation("reuse", "LossMinimizationEstimator.calc_estimate_sequence", "sequence-differs-from-elementwise",
                          "%s %s/%s para=%s: element %d of calc_estimate_sequence over several data sets is %s, the estimate of that data set alone is %s" % (
                              kind, case["algo"], case["loss"], para, si_, [float(t) for t in rs.estimated_var_sequence[si_]][:6], [float(t) for t in fr.estimated_var][:6]), dict(case, focus_seq=si_))
            return


def chk_reuse_linear(ctx, case):
    """One LinearEstimator and one ProjectedLinearEstimator instance used for a sequence of experiments (tester lists rotated: same matrix shapes,
    other matrices; a different parametrisation / system in between), single and sequence calls, exact and sampled data.  Every estimate must be exactly
    what a fresh instance returns, and for exact data of a physical object it must be that object."""
    Qm = q()
    rng = case_rng(ctx, case)
    lin, ple = Qm.LinearEstimator(), Qm.ProjectedLinearEstimator(case["order"])
    seen = []
    for ji, (spec, rot, data, mode) in enumerate(case["jobs"]):
        c2 = dict(spec, rot=rot)
        qt, c_sys = qt_of(c2)
        B = basis_mats(c_sys)
        truth = true_object(rng, c2["kind"], c2["sys"], c_sys, c2["para"], rng.choice(["boundary", "interior", "generic"]), m=c2.get("m"))
        empi = empi_from(qt, truth, rng, data, 3)
        key = (c2["kind"], c2["sys"], c2.get("m"), c2["para"])
        hist = "first-of-its-shape" if key not in [k for k, _ in seen] else ("other-experiment-same-shape" if any(k == key and r != rot for k, r in seen) else "same-experiment")
        seen.append((key, rot))
        for name, inst, cls in (("LinearEstimator", lin, Qm.LinearEstimator), ("ProjectedLinearEstimator", ple, lambda: Qm.ProjectedLinearEstimator(case["order"]))):
            with quiet():
                if mode == "seq":
                    got = inst.calc_estimate_sequence(qt, [empi, empi]).estimated_var_sequence[-1]
                    exp = cls().calc_estimate_sequence(qt, [empi, empi]).estimated_var_sequence[-1]
                else:
                    got = inst.calc_estimate(qt, empi).estimated_var
                    exp = cls().calc_estimate(qt, empi).estimated_var
            got = np.asarray(got, dtype=float); exp = np.asarray(exp, dtype=float)
            same = np.array_equal(got, exp)
            ctx.count("reuse_linear", key=(case["id"], ji, name), nontrivial=hist != "first-of-its-shape", label="%s:%s:%s:%s" % (name, hist, mode, "same-as-fresh" if same else "differs"))
            jc = dict(case, focus_job=ji)
            if not same:
                ctx.violation("reuse_linear", name + ".calc_estimate_sequence", "reused-estimator-changes-estimate",
                              "one %s instance used for the experiments %s: job %d (%s %s m=%s para=%s testers rotated by %d, %s data, %s call) returns %s, a fresh instance %s (difference %.3e)" % (
                                  name, [(j[0]["kind"], j[1]) for j in case["jobs"]], ji, c2["kind"], c2["sys"], c2.get("m"), c2["para"], rot, data, mode,
                                  [float(t) for t in got][:6], [float(t) for t in exp][:6], float(np.abs(got - exp).max())), jc)
                continue
            if data == "exact":
                s_ = math.sqrt(truth.eps_proj_physical)
                dist = float(np.abs(got - np.asarray(truth.to_var(), dtype=float)).max())
                if dist > (1e-9 if name == "LinearEstimator" else EXACT_PLE_FACTOR * s_):
                    ctx.violation("reuse_linear", name + ".calc_estimate", "exact-data-not-recovered",
                                  "%s, job %d of a re-used instance (%s %s para=%s rot=%d): exact data of a physical object, |estimate - truth| = %.3e" % (name, ji, c2["kind"], c2["sys"], c2["para"], rot, dist), jc)
                    return


def sub_reuse(ctx):
    rng = ctx.rng
    cases = []
    n = 0
    T, F = True, False
    # loss minimisation: (flags, order, rotation of the tester lists)
    patterns = [[[[F, F], "eq_ineq", 0], [[T, T], "eq_ineq", 0]],
                [[[T, T], "eq_ineq", 0], [[T, T], "ineq_eq", 1]],
                [[[T, T], "eq_ineq", 0], [[T, T], "eq_ineq", 1], [[T, T], "eq_ineq", 2]],
                [[[T, F], "eq_ineq", 1], [[F, F], "eq_ineq", 0], [[T, T], "ineq_eq", 2]]]
    settings = [("qst", "1qubit", None), ("povmt", "1qubit", 3)] + ([] if ctx.quick else [("qpt", "1qubit", None), ("qst", "1qutrit", None)])          # instruments: seconds per run (reuse_linear covers them)
    for kind, sysname, mo in settings:
        for para in (True, False):
            for algo in ("bt", "mom", "fista") if not ctx.quick else (rng.choice(["bt", "mom", "fista"]),):
                for jobs in (patterns if not ctx.quick else [patterns[0], rng.choice(patterns[1:])]):
                    cases.append(dict(id="u%d" % n, kind=kind, sys=sysname, m=mo, para=para, algo=algo, loss=rng.choice(["wse", "swse", "wre", "swre"]),
                                      data=rng.choice(["far", "fewshot"]), shots=2, jobs=jobs, maxit=25,
                                      shared=rng.choice([["algo"], ["est", "loss", "lopt", "algo"], ["est", "loss", "lopt", "algo"], ["loss", "lopt"]]))); n += 1
    ctx.sample("reuse", cases[0])
    ctx.run_cases("reuse", chk_reuse, stamp(ctx, cases))


def sub_reuse_linear(ctx):
    """linear / projected linear: one instance over several experiments"""
    rng = ctx.rng
    lcases = []
    specs = [dict(kind=k, sys=s_, m=mo, para=p) for k, s_, mo in (S_LIGHT if ctx.quick else S_THOROUGH) for p in (True, False)]
    for i in range(ctx.n(10, 40)):
        a = rng.choice(specs)
        b = rng.choice([sp for sp in specs if sp != a])
        jobs = [[a, 0, rng.choice(["exact", "fewshot"]), rng.choice(["single", "seq"])],
                [a, rng.choice([1, 2]), "exact", rng.choice(["single", "seq"])],
                [b, 0, rng.choice(["exact", "far"]), "single"],
                [a, rng.choice([0, 1, 2, 3]), rng.choice(["exact", "fewshot", "far"]), rng.choice(["single", "seq"])]]
        lcases.append(dict(id="v%d" % i, order=rng.choice(["eq_ineq", "ineq_eq"]), jobs=jobs))
    ctx.sample("reuse_linear", lcases[0])
    ctx.run_cases("reuse_linear", chk_reuse_linear, stamp(ctx, lcases))


# ------------------------------------------------------------------ sub-check: layouts (memory layout of array arguments; caller modifies returned arrays)
def _layout(arr, how):
    a = np.asarray(arr, dtype=float)
    if how == "strided":          # every second element of a larger buffer
        buf = np.full(2 * len(a) + 1, 7.5); buf[1::2] = a
        return buf[1::2]
    if how == "reversed-view":    # negative stride
        return a[::-1].copy()[::-1]
    if how == "readonly":
        b = a.copy(); b.setflags(write=False)
        return b
    if how == "column":           # a column of a C-ordered 2-D array (non-contiguous)
        m2 = np.full((len(a), 3), -1.25); m2[:, 1] = a
        return m2[:, 1]
    return a.copy()


def chk_layouts(ctx, case):
    """the estimate must not depend on the memory layout of the data arrays / of var_start (strided, negative-stride, read-only, column views), must not write
    into them, and must not change when the caller overwrites the arrays a previous call returned"""
    Qm = q()
    rng = case_rng(ctx, case)
    kind, sysname, para = case["kind"], case["sys"], case["para"]
    qt, c_sys = qt_of(case)
    truth = true_object(rng, kind, sysname, c_sys, para, "generic", m=case.get("m"))
    empi0 = empi_from(qt, truth, rng, case["data"], 3)

    def estimate(empi, var_start=None):
        with quiet():
            if case["est"] == "lin":
                return Qm.LinearEstimator().calc_estimate(qt, empi)
            if case["est"] == "ple":
                return Qm.ProjectedLinearEstimator(case["order"]).calc_estimate(qt, empi)
        extra = {} if var_start is None else {"var_start": var_start}
        return run_lme(qt, empi, case["algo"], case["loss"], (True, True), case["order"], 12, extra=extra)[0]
    vs0 = None
    if case["est"] == "lme":
        vs0 = np.asarray(true_object(rng, kind, sysname, c_sys, para, "interior", m=case.get("m")).to_var(), dtype=float)
    base = estimate([(n_, np.array(p_, dtype=float)) for n_, p_ in empi0], None if vs0 is None else vs0.copy())
    ref = np.array(base.estimated_var, dtype=float, copy=True)
    site = {"lin": "LinearEstimator.calc_estimate", "ple": "ProjectedLinearEstimator.calc_estimate", "lme": "LossMinimizationEstimator.calc_estimate"}[case["est"]]
    for how in case.get("hows", ("strided", "reversed-view", "readonly", "column")):
        arrs = [_layout(p_, how) for _, p_ in empi0]
        snap = [a.copy() for a in arrs]
        vs = None if vs0 is None else _layout(vs0, how)
        try:
            r = estimate([(n_, a) for (n_, _), a in zip(empi0, arrs)], vs)
        except ValueError as e:          # e.g. "assignment destination is read-only"
            ctx.count("layouts", key=(case["id"], how), nontrivial=True, label="%s:%s:raises" % (case["est"], how))
            ctx.violation("layouts", site, "array-layout:raises", "%s %s para=%s data arrays / var_start given as %s view: %s: %s" % (kind, case["est"], para, how, type(e).__name__, str(e)[:150]), dict(case, how=how))
            continue
        got = np.asarray(r.estimated_var, dtype=float)
        # numpy sums strided / negative-stride arrays in another order: agreement up to rounding amplified by the iterations, not bit for bit
        same = got.shape == ref.shape and float(np.abs(got - ref).max()) <= 1e-7 * (1 + float(np.abs(ref).max()))
        untouched = all(np.array_equal(a, b) for a, b in zip(arrs, snap)) and (vs is None or np.array_equal(vs, vs0))
        ctx.count("layouts", key=(case["id"], how), nontrivial=True, label="%s:%s:%s" % (case["est"], how, "same" if same and untouched else "differs"))
        if not same:
            ctx.violation("layouts", site, "array-layout:changes-estimate",
                          "%s %s para=%s: with the data arrays / var_start given as %s views the estimate is %s, with contiguous copies %s" % (kind, case["est"], para, how, [float(t) for t in got][:6], [float(t) for t in ref][:6]), dict(case, how=how))
        elif not untouched:
            ctx.violation("layouts", site, "array-layout:argument-modified", "%s %s para=%s: the %s argument arrays were written to" % (kind, case["est"], para, how), dict(case, how=how))
    # the caller overwrites what the first call returned; the same computation again must give the same numbers
    try:
        np.asarray(base.estimated_var)[...] = 99.0
    except (ValueError, TypeError):
        pass
    again = np.asarray(estimate([(n_, np.array(p_, dtype=float)) for n_, p_ in empi0], None if vs0 is None else vs0.copy()).estimated_var, dtype=float)
    ctx.count("layouts", key=(case["id"], "overwrite"), nontrivial=True, label="%s:returned-array-overwritten:%s" % (case["est"], "same" if np.array_equal(again, ref) else "differs"))
    if not np.array_equal(again, ref):
        ctx.violation("layouts", site, "returned-array-aliases-state", "%s %s para=%s: after the caller overwrote the returned estimated_var the same call returns %s instead of %s" % (
            kind, case["est"], para, [float(t) for t in again][:6], [float(t) for t in ref][:6]), case)


def sub_layouts(ctx):
    rng = ctx.rng
    cases = []
    n = 0
    for kind, sysname, mo in ([("qst", "1qubit", None), ("povmt", "1qubit", 3), ("qpt", "1qubit", None)] if ctx.quick else S_LIGHT):
        for est in ("lin", "ple", "lme"):
            cases.append(dict(id="y%d" % n, kind=kind, sys=sysname, m=mo, para=rng.random() < 0.5, est=est, order=rng.choice(["eq_ineq", "ineq_eq"]),
                              algo=rng.choice(["bt", "mom", "fista"]), loss=rng.choice(["wse", "swse", "wre", "swre"]), data=rng.choice(["fewshot", "far"]))); n += 1
            if est == "lme" and ctx.quick:
                cases[-1]["hows"] = rng.sample(["strided", "reversed-view", "readonly", "column"], 2)
    ctx.sample("layouts", cases[0])
    ctx.run_cases("layouts", chk_layouts, stamp(ctx, cases))


# ------------------------------------------------------------------ sub-check: settings (explicit object settings != defaults reach every derived object)
SETTING_ATTRS = ["is_physicality_required", "is_estimation_object", "on_para_eq_constraint", "on_algo_eq_constraint", "on_algo_ineq_constraint",
                 "mode_proj_order", "eps_proj_physical", "eps_truncate_imaginary_part"]
GFV_ATTRS = ["is_physicality_required", "is_estimation_object", "on_para_eq_constraint", "on_algo_eq_constraint", "on_algo_ineq_constraint", "eps_proj_physical"]


def chk_settings(ctx, case):
    """An object built with EVERY setting different from its default (thresholds, flags, projection order): copy, zero / origin object, the three
    projections, + and scalar * keep all eight settings; generate_from_var (the route every estimation result takes) keeps the six it documents and
    honours each explicit keyword.  The estimators' stopping accuracy lives in these attributes (eps_proj_physical), so a dropped keyword silently
    changes the accuracy the user asked for."""
    Qm = q()
    rng = case_rng(ctx, case)
    kind, sysname, para = case["kind"], case["sys"], case["para"]
    qt, c_sys = qt_of(case)
    t = true_object(rng, kind, sysname, c_sys, para, "generic", m=case.get("m"))
    ty = type_of(kind)
    vals = {"state": lambda: t.vec, "povm": lambda: t.vecs, "gate": lambda: t.hs, "mprocess": lambda: t.hss}[ty]()
    kw = dict(is_physicality_required=False, is_estimation_object=False, on_para_eq_constraint=para, on_algo_eq_constraint=False, on_algo_ineq_constraint=False,
              mode_proj_order="ineq_eq", eps_proj_physical=case["eps_obj"], eps_truncate_imaginary_part=7e-12)
    o = type(t)(c_sys, vals, **kw)

    def dropped(x, attrs, want):
        return [(a, getattr(x, a), want[a]) for a in attrs if getattr(x, a) != want[a]]
    with quiet():
        routes = [("copy", o.copy()), ("generate_zero_obj", o.generate_zero_obj()), ("generate_origin_obj", o.generate_origin_obj()),
                  ("calc_proj_physical", o.calc_proj_physical()), ("calc_proj_eq_constraint", o.calc_proj_eq_constraint()),
                  ("calc_proj_ineq_constraint", o.calc_proj_ineq_constraint()), ("__add__", o + o), ("__rmul__", 0.5 * o)]
    for name, x in routes:
        d = dropped(x, SETTING_ATTRS, kw)
        ctx.count("settings", key=(case["id"], name), nontrivial=True, label="%s:%s" % (ty, name))
        if d:
            ctx.violation("settings", "%s.%s" % (type(t).__name__, name), "drops-object-setting:" + d[0][0],
                          "%s para=%s: the result of %s has %s (the object was built with %s)" % (ty, para, name, [(a, g) for a, g, _ in d], [(a, w) for a, _, w in d]), case)
    var = np.asarray(o.to_var(), dtype=float)
    x = o.generate_from_var(var)
    d = dropped(x, GFV_ATTRS, kw)
    ctx.count("settings", key=(case["id"], "gfv"), nontrivial=True, label="%s:generate_from_var" % ty)
    if d:
        ctx.violation("settings", "%s.generate_from_var" % type(t).__name__, "drops-object-setting:" + d[0][0],
                      "%s para=%s: generate_from_var(var) returns an object with %s (the template has %s)" % (ty, para, [(a, g) for a, g, _ in d], [(a, w) for a, _, w in d]), case)
        return
    # explicit keywords override the template, one at a time
    over = dict(is_physicality_required=False, is_estimation_object=True, on_algo_eq_constraint=True, on_algo_ineq_constraint=True, mode_proj_order="eq_ineq",
                eps_proj_physical=case["eps_obj"] * 3)
    for a, v in over.items():
        y = o.generate_from_var(var, **{a: v})
        want = dict(kw); want[a] = v
        d = dropped(y, GFV_ATTRS + (["mode_proj_order"] if a == "mode_proj_order" else []), want)
        ctx.count("settings", key=(case["id"], "gfv", a), nontrivial=True, label="%s:generate_from_var(%s=...)" % (ty, a))
        if d:
            ctx.violation("settings", "%s.generate_from_var" % type(t).__name__, "ignores-keyword:" + a,
                          "%s para=%s: generate_from_var(var, %s=%r) returns an object with %s" % (ty, para, a, v, [(b, g) for b, g, _ in d]), case)


def sub_settings(ctx):
    rng = ctx.rng
    cases = []
    n = 0
    for kind, sysname, mo in (S_LIGHT if ctx.quick else S_THOROUGH):
        if sysname == "2qubit":
            continue
        for para in (True, False):
            cases.append(dict(id="g%d" % n, kind=kind, sys=sysname, m=mo, para=para, eps_obj=rng.choice([3e-17, 1e-19, 2e-12]))); n += 1
    ctx.sample("settings", cases[0])
    ctx.run_cases("settings", chk_settings, stamp(ctx, cases))


# ------------------------------------------------------------------ sub-check: origin
TYPE_CODE = {"state": 0, "povm": 1, "gate": 2, "mprocess": 3}


def chk_origin(ctx, case):
    Qm = q()
    m = ctx.get_model()
    qt, c_sys = qt_of(case)
    B = basis_mats(c_sys)
    si = qt.generate_empty_estimation_obj_with_setting_info()
    org = si.generate_origin_obj()
    t = type_of(case["kind"])
    d = c_sys.dim
    mm = len(org.vecs) if t == "povm" else (len(org.hss) if t == "mprocess" else 1)
    mod = [float(v) for v in m.call("c10.origin", [TYPE_CODE[t], d * d, mm], [float(np.sqrt(d))])]
    impl = [float(v) for v in stacked(org)]
    ctx.count("origin", key=(case["kind"], case["sys"], case.get("m"), case["para"]), nontrivial=True, label="%s:m=%s" % (t, mm))
    if len(mod) != len(impl) or max(abs(a - b) for a, b in zip(mod, impl)) > 1e-15:
        ctx.violation("origin", "QOperation.generate_origin_obj", "value", "%s origin object differs from the model: impl %s model %s" % (t, impl[:8], mod[:8]), case)
        return
    er = eq_residual(org, B)
    if er > 1e-14 or not psd_exact(ctx, org, B, 0.0) or not org.is_physical():
        ctx.violation("origin", "QOperation.generate_origin_obj", "not-physical", "%s origin: eq residual %.2e, min eigenvalue %.3e, is_physical=%s" % (t, er, min_eig(org, B), org.is_physical()), case)
    # the three algorithms start from it
    truth = true_object(case_rng(ctx, case), case["kind"], case["sys"], c_sys, case["para"], "interior", m=case.get("m"))
    empi = empi_from(qt, truth, None, "exact", 100)
    for algo in ("bt", "mom", "fista"):
        res, det, *_ = run_lme(qt, empi, algo, "wse", (True, True), "eq_ineq", 1)
        ctx.count("origin", key=(case["kind"], case["sys"], case.get("m"), case["para"], algo), nontrivial=True, label="start:" + algo)
        if not np.array_equal(np.asarray(det.x[0], dtype=float), np.asarray(org.to_var(), dtype=float)):
            ctx.violation("origin", ALGO_SITE[algo], "start-not-origin", "%s: first stored iterate %s is not the origin object's variables %s" % (algo, det.x[0], org.to_var()), case)


def sub_origin(ctx):
    settings = S_LIGHT if ctx.quick else S_THOROUGH
    cases = [dict(id="o%d%d" % (i, int(p)), kind=k, sys=s, m=mo, para=p) for i, (k, s, mo) in enumerate(settings) for p in (True, False)]
    ctx.sample("origin", cases[0])
    ctx.run_cases("origin", chk_origin, stamp(ctx, cases))


# ------------------------------------------------------------------ sub-check: steps (update formulas vs the extracted step functions)
AFUEL = 60


def loss_data(qt, empi):
    A = np.asarray(qt.calc_matA(), dtype=float)
    b = np.asarray(qt.calc_vecB(), dtype=float)
    qv = np.concatenate([np.asarray(e[1], dtype=float) for e in empi])
    return A, qv - b, np.ones(len(b))


def fl(xs):
    return [float(v) for v in np.asarray(xs, dtype=float).ravel()]


def vclose(a, b, tol=1e-11):
    a = np.asarray(a, dtype=float); b = np.asarray(b, dtype=float)
    return a.shape == b.shape and float(np.abs(a - b).max()) <= tol * (1 + float(np.abs(b).max()))


STOP_MODES = ["single_difference_loss", "sum_absolute_difference_loss", "sum_absolute_difference_variable", "sum_absolute_difference_projected_gradient"]


def build_opts(case, qt, c_sys, rng):
    """non-default algorithm options of a case (explicit arguments that differ from what the object would choose): start point, step parameters,
    stopping mode and window.  returns (extra kwargs for the option constructor, dict of the values used)"""
    o = case.get("opts") or {}
    extra, used = {}, {}
    n = qt.num_variables
    if o.get("var_start"):
        vs = np.asarray(true_object(rng, case["kind"], case["sys"], c_sys, case["para"], "interior", m=case.get("m")).to_var(), dtype=float)
        extra["var_start"] = vs; used["var_start"] = vs
    if case["algo"] == "bt":
        if o.get("mu"):
            extra["mu"] = o["mu"]
        if o.get("gamma"):
            extra["gamma"] = o["gamma"]
    if case["algo"] == "mom":
        if o.get("r"):
            extra["r"] = o["r"]
        # moment_0 is not generated: the option is unusable on the pinned tree (documented List[float]: `zeta * moment_prev` raises TypeError for a
        # list, `if algorithm_option.moment_0:` raises ValueError for an array) - an observation outside C10 (no estimate is returned)
    if case["algo"] == "fista" and o.get("delta"):
        extra["delta"] = o["delta"]
    if o.get("mode"):
        extra["mode_stopping_criterion_gradient_descent"] = o["mode"]
    if o.get("h"):
        extra["num_history_stopping_criterion_gradient_descent"] = o["h"]
    if o.get("cap"):
        extra["max_iteration_proj_physical"] = o["cap"]
    return extra, used


def check_stop(ctx, sub, site, case, det, opt, loss, xs, aux_of, maxit):
    """the stopping rule as the model states it (C10_err_value / C10_continue; tied to the source by the translator): error value per mode, window over the
    last h values, continue iff the sum is > eps.  Recomputed here from the stored iterates; decisions inside a band around eps are not judged."""
    mode = opt.mode_stopping_criterion_gradient_descent
    h = int(opt.num_history_stopping_criterion_gradient_descent)
    eps = float(opt.eps)
    evs = []
    for k in range(1, len(xs)):
        xp, xn = xs[k - 1], xs[k]
        if mode == "single_difference_loss":
            e = float(loss.value(xp)) - float(loss.value(xn))
        elif mode == "sum_absolute_difference_loss":
            e = abs(float(loss.value(xp)) - float(loss.value(xn)))
        elif mode == "sum_absolute_difference_variable":
            e = float(np.sqrt(np.sum((xp - xn) ** 2)))
        else:
            e = float(np.sqrt(np.sum(np.asarray(aux_of(k), dtype=float) ** 2)))
        evs.append(e)
    got = [float(t) for t in det.error_values]
    scale = 1 + max([abs(t) for t in evs] + [abs(float(loss.value(xs[0])))])
    ctx.count(sub, key=(case["id"], "stop"), nontrivial=True, label="stop-rule:%s:h=%d" % (mode, h))
    if len(got) != len(evs) or any(abs(a - b) > 1e-10 * scale for a, b in zip(got, evs)):
        ctx.violation(sub, site, "model-mismatch:error-value", "mode %s: recorded error values %s, model %s" % (mode, got[:5], evs[:5]), case)
        return
    for k in range(1, len(xs)):
        win = sum(evs[max(0, k - h):k])
        if abs(win - eps) <= 0.05 * eps + 1e-14 * scale:
            continue
        cont = win > eps
        last = k == len(xs) - 1
        if (cont and last and det.k < maxit) or (not cont and not last):
            ctx.violation(sub, site, "model-mismatch:stop-decision",
                          "mode %s window %d eps %.1e: after iteration %d the window sum is %.3e -> the model %s, the run %s" % (
                              mode, h, eps, k, win, "continues" if cont else "stops", "stopped" if last else "continued"), case)
            return


def chk_steps(ctx, case):
    m = ctx.get_model()
    rng = case_rng(ctx, case)
    kind, sysname, para, algo = case["kind"], case["sys"], case["para"], case["algo"]
    qt, c_sys = qt_of(case)
    truth = true_object(rng, kind, sysname, c_sys, para, case["truth"], m=case.get("m"))
    empi = empi_from(qt, truth, rng, case["data"], case["shots"])
    flags = tuple(case["flags"])
    extra, used = build_opts(case, qt, c_sys, rng)
    res, det, algo_obj, opt, loss, rec = run_lme(qt, empi, algo, "wse", flags, case["order"], case["maxit"], record=True, extra=extra)
    site = ALGO_SITE[algo]
    n = qt.num_variables
    A, c, w = loss_data(qt, empi)
    nd = len(c)
    ldata = fl(A) + fl(c) + fl(w)
    xs = [np.asarray(x, dtype=float) for x in det.x]
    k_tot = det.k

    def bad(sig, what):
        ctx.violation("steps", site, sig, "%s %s para=%s flags=%s data=%s: %s" % (kind, algo, para, flags, case["data"], what), case)

    if len(rec.calls) != k_tot or len(xs) != k_tot + 1:
        bad("projection-count", "%d iterations, %d stored iterates, %d calls of func_proj (expected one per iteration)" % (k_tot, len(xs), len(rec.calls)))
        return
    if not np.array_equal(xs[-1], np.asarray(res.estimated_var, dtype=float)):
        bad("result-not-last-iterate", "returned value differs from the last stored iterate")
    # explicit options are honoured: start point, initial moment
    if "var_start" in used and not np.array_equal(xs[0], used["var_start"]):
        bad("option-ignored:var_start", "first stored iterate %s is not the option's var_start %s" % (xs[0][:6], used["var_start"][:6])); return
    if algo == "mom":
        m_exp = used.get("moment_0", np.zeros(n))
        if not np.array_equal(np.asarray(det.moment[0], dtype=float), m_exp):
            bad("option-ignored:moment_0", "initial moment %s, expected %s" % (np.asarray(det.moment[0])[:6], m_exp[:6])); return
    check_stop(ctx, "steps", site, case, det, opt, loss, xs, (lambda k: det.y[k - 1]) if algo == "bt" else (lambda k: xs[k]), case["maxit"])
    nontriv = 0
    mag_prev = None
    for k in range(1, k_tot + 1):
        x = xs[k - 1]
        arg_impl, Pz = rec.calls[k - 1]
        if algo == "bt":
            mu = extra.get("mu") or 3 / (2 * np.sqrt(n)); gamma = opt.gamma
            v = [float(t) for t in m.call("c10.bt_step", [n, nd, AFUEL], [float(mu), float(gamma)] + fl(x) + fl(Pz) + ldata)]
            arg, y, alpha, halv, xn, fx, gx = v[:n], v[n:2 * n], v[2 * n], int(v[2 * n + 1]), v[2 * n + 2:3 * n + 2], v[3 * n + 2], v[3 * n + 3:]
            if not vclose(gx, loss.gradient(x)) or abs(fx - float(det.fx[k - 1])) > 1e-10 * (1 + abs(fx)):
                bad("model-mismatch:loss-model", "step %d: the model's quadratic loss / gradient differs from the implementation's (f %.12g vs %.12g)" % (k, fx, float(det.fx[k - 1])))
                return
            if not vclose(arg, arg_impl):
                bad("model-mismatch:projection-argument", "step %d: func_proj was called on %s, model x - g/mu = %s" % (k, arg_impl, arg)); return
            if not vclose(y, det.y[k - 1]):
                bad("model-mismatch:direction", "step %d: y = %s, model P(x - g/mu) - x = %s" % (k, det.y[k - 1], y)); return
            a_impl = float(det.alpha[k - 1])
            if a_impl != alpha:
                # Armijo decisions are compared only away from their threshold
                yv = np.asarray(y); g = np.asarray(gx)
                margins = []
                for j in range(0, 70):
                    a = 0.5 ** j
                    margins.append(abs(float(loss.value(x + a * yv)) - (float(loss.value(x)) + gamma * a * float(np.dot(yv, g)))))
                    if a <= min(a_impl, alpha) or a == 0:
                        break
                if halv >= AFUEL or min(margins) <= 1e-12 * (1 + abs(fx)):
                    ctx.count("steps", key=(case["id"], k, "alpha-in-band"), nontrivial=False, label="bt:alpha-in-band")
                    continue
                bad("model-mismatch:step-size", "step %d: alpha = %r, model (halve while Armijo fails, from 1) = %r" % (k, a_impl, alpha)); return
            if not vclose(xn, xs[k]):
                bad("model-mismatch:update", "step %d: x_next = %s, model x + alpha*y = %s" % (k, xs[k], xn)); return
            if a_impl < 1.0:
                nontriv += 1
        elif algo == "mom":
            gam = 1 / (2 * opt.r * np.sqrt(n)); z0 = 0.95
            fxp = float(det.fx[k - 1])
            if mag_prev is None:
                mag_prev = mag_of(float(det.fx[0]))
            mag_next = mag_of(fxp)
            if mag_prev is None or mag_next is None:
                ctx.count("steps", key=(case["id"], k, "mag-in-band"), nontrivial=False, label="mom:log10-in-band")
                break
            v = [float(t) for t in m.call("c10.mom_step", [n, nd, mag_next, mag_prev],
                                           [float(gam), z0, float(det.zeta[k - 1])] + fl(x) + fl(det.moment[k - 1]) + fl(Pz) + ldata)]
            zeta, mag_prev2, mo, arg, xn = v[0], int(v[1]), v[2:2 + n], v[2 + n:2 + 2 * n], v[2 + 2 * n:]
            if abs(zeta - float(det.zeta[k])) > 1e-14:
                bad("model-mismatch:zeta", "step %d: zeta = %r, model %r (log10 magnitudes %s -> %s)" % (k, float(det.zeta[k]), zeta, mag_prev, mag_next)); return
            if not vclose(mo, det.moment[k]):
                bad("model-mismatch:moment", "step %d: moment = %s, model zeta*m - gamma*g = %s" % (k, det.moment[k], mo)); return
            if not vclose(arg, arg_impl):
                bad("model-mismatch:projection-argument", "step %d: func_proj was called on %s, model x + m' = %s" % (k, arg_impl, arg)); return
            if not np.array_equal(xs[k], Pz) or not vclose(xn, xs[k], 0.0):
                bad("iterate-not-projection-output", "step %d: stored iterate is not the output of func_proj" % k); return
            if mag_prev2 != mag_prev:
                nontriv += 1
            mag_prev = mag_prev2
        else:
            delta = extra.get("delta") or 1 / (10 * np.sqrt(n))
            xpp = xs[k - 2] if k >= 2 else xs[0]
            v = [float(t) for t in m.call("c10.fista_step", [n, nd, k], [float(delta)] + fl(xpp) + fl(x) + fl(Pz) + ldata)]
            arg, xn = v[:n], v[n:]
            if not vclose(arg, arg_impl):
                bad("model-mismatch:projection-argument", "step %d: func_proj was called on %s, model x + (k-2)/(k+1)(x - x_prev) - delta*g = %s" % (k, arg_impl, arg)); return
            if not np.array_equal(xs[k], Pz) or not vclose(xn, xs[k], 0.0):
                bad("iterate-not-projection-output", "step %d: stored iterate is not the output of func_proj" % k); return
            if k >= 3:
                nontriv += 1
        ctx.count("steps", key=(case["id"], k), nontrivial=True, label="%s:step" % algo)
    ctx.count("steps", key=(case["id"], "run"), nontrivial=nontriv > 0, label="%s:run:%s" % (algo, "halved" if algo == "bt" and nontriv else ("generic" if nontriv else "plain")))


def mag_of(fx):
    """ceil(log10 fx) — oracle of the momentum model; None when fx <= 0 or log10 fx is within 1e-9 of an integer"""
    if not (fx > 0) or not math.isfinite(fx):
        return None
    l = math.log10(fx)
    if abs(l - round(l)) < 1e-9:
        return None
    return int(math.ceil(l))


def sub_steps(ctx):
    rng = ctx.rng
    cases = []
    # the extracted model evaluates the rational loss exactly: cost grows fast with the number of variables (instruments: thorough tier only)
    settings = S_CORE if ctx.quick else S_CORE + [("povmt", "1qutrit", 2), ("qmpt", "1qubit", None), ("qst", "2qubit", None)]
    n = 0
    for kind, sysname, mo in settings:
        for para in (True, False):
            for algo in ("bt", "mom", "fista"):
                for data, shots in (("fewshot", 2), ("far", 5), ("exact", 100)) if wide(ctx) else (("fewshot", 2), ("far", 5)):
                    r = rng.random()
                    flags = [True, True] if r < 0.7 else ([True, False] if r < 0.85 else [False, True])
                    big = kind in ("qpt", "qmpt") or sysname != "1qubit"
                    cases.append(dict(id="t%d" % n, kind=kind, sys=sysname, m=mo, para=para, algo=algo, data=data, shots=shots,
                                      truth=rng.choice(["boundary", "interior", "generic"]), flags=flags, order=rng.choice(["eq_ineq", "ineq_eq"]),
                                      maxit=(4 if big else 8) if (not wide(ctx)) else ((6 if big else 14) if ctx.quick else (10 if big else 25)))); n += 1
                    # non-default options on about half of the cases: explicit start point, step parameters, stopping mode and window
                    if rng.random() < 0.5:
                        cases[-1]["opts"] = dict(var_start=rng.random() < 0.6, mu=rng.choice([None, 0.7, 1.5]), gamma=rng.choice([None, 0.1]),
                                                 r=rng.choice([None, 1.0, 3.5]), delta=rng.choice([None, 0.05, 0.2]),
                                                 mode=rng.choice(STOP_MODES), h=rng.choice([1, 2, 3]))
    ctx.sample("steps", cases[0])
    ctx.run_cases("steps", chk_steps, stamp(ctx, cases))


# ------------------------------------------------------------------ sub-check: run_eq (whole backtracking run, rational projection)
def chk_run_eq(ctx, case):
    m = ctx.get_model()
    rng = case_rng(ctx, case)
    sysname = case["sys"]
    qt, c_sys = make_qt("qst", sysname, False)
    truth = true_object(rng, "qst", sysname, c_sys, False, case["truth"])
    empi = empi_from(qt, truth, rng, case["data"], case["shots"])
    maxit = case["maxit"]
    res, det, algo_obj, opt, loss, _ = run_lme(qt, empi, "bt", "wse", (True, False), "eq_ineq", maxit)
    n = qt.num_variables
    A, c, w = loss_data(qt, empi)
    org = qt.generate_empty_estimation_obj_with_setting_info().generate_origin_obj().to_var()
    mu = 3 / (2 * np.sqrt(n))
    st, v = m.try_call("c10.bt_run_eq", [n, len(c), AFUEL, maxit],
                       [float(mu), float(opt.gamma), float(opt.eps), float(1 / np.sqrt(c_sys.dim))] + fl(org) + fl(A) + fl(c) + fl(w))
    if st != "ok":
        ctx.violation("run_eq", ALGO_SITE["bt"], "model-error", "model run failed with %s" % v, case); return
    v = [float(t) for t in v]
    k_m = int(v[0]); x_m = v[1:1 + n]; hist = np.array(v[1 + n:]).reshape(-1, n)
    # decisions near their thresholds: stop test (value > eps) and Armijo tests
    evs = [float(e) for e in det.error_values]
    inband = any(abs(e - opt.eps) <= 0.05 * opt.eps + 1e-15 * (1 + abs(float(det.fx[0]))) for e in evs)
    same = (k_m == det.k and vclose(x_m, res.estimated_var, 1e-10) and hist.shape[0] == len(det.x)
            and all(vclose(hist[i], det.x[i], 1e-10) for i in range(len(det.x))))
    ctx.count("run_eq", key=case["id"], nontrivial=same or not inband, label="k=%d:%s" % (det.k, "stop" if det.k < maxit else "cap"))
    if not same and not inband:
        # an Armijo decision in band? (alpha sequences differ while the iterates agreed up to that step)
        ctx.violation("run_eq", ALGO_SITE["bt"], "trajectory", "QST %s eq-projection run: implementation k=%d x=%s, model k=%d x=%s" % (sysname, det.k, res.estimated_var, k_m, x_m), case)


def sub_run_eq(ctx):
    rng = ctx.rng
    cases = []
    for i in range((40 if wide(ctx) else 8)):
        sysname = rng.choice(["1qubit", "1qubit", "1qutrit"])
        data, shots = rng.choice([("fewshot", 3), ("far", 5), ("exact", 100)])
        cases.append(dict(id="r%d" % i, sys=sysname, data=data, shots=shots, truth=rng.choice(["boundary", "interior", "generic"]), maxit=rng.choice([1, 2, 3, 5, 12, 40])))
    ctx.sample("run_eq", cases[0])
    ctx.run_cases("run_eq", chk_run_eq, stamp(ctx, cases))
    # max_iteration = 0: the model says "no value" (the code fails on an unbound variable); the implementation must not return an estimate
    def chk0(ctx, case):
        m = ctx.get_model()
        qt, c_sys = make_qt("qst", "1qubit", False)
        truth = true_object(case_rng(ctx, case), "qst", "1qubit", c_sys, False, "interior")
        empi = empi_from(qt, truth, None, "exact", 10)
        try:
            run_lme(qt, empi, case["algo"], "wse", (True, True), "eq_ineq", 0); raised = False
        except Exception:
            raised = True
        ctx.count("run_eq", key=("maxit0", case["algo"]), nontrivial=True, label="max_iteration=0")
        if not raised:
            ctx.violation("run_eq", ALGO_SITE[case["algo"]], "max-iteration-zero", "max_iteration_optimization=0 returned a value; the model (and the unchanged code) fail", case)
    ctx.run_cases("run_eq", chk0, [{"id": "z" + a, "algo": a} for a in ("bt", "mom", "fista")])

    # the validation before the loops (model C10_precondition, tied to the source by the translator): optimize raises ValueError unless the loss provides
    # values AND gradients; with both it runs (stub quadratic loss, explicit start point and step parameter, identity projection)
    def chk_pre(ctx, case):
        Qm = q()
        from quara.math import func_proj as fp

        class Stub:
            def __init__(self, v, g):
                self.on_value, self.on_gradient, self.on_hessian = v, g, False
            def value(self, x, validate=False):
                return float(np.dot(x, x))
            def gradient(self, x):
                return 2 * np.asarray(x, dtype=float)
        A, AO = Qm.ALGO[case["algo"]]
        kw = dict(var_start=np.array([0.5, -0.25]), max_iteration_optimization=3)
        kw.update({"bt": dict(mu=1.0), "mom": dict(r=2.0), "fista": dict(delta=0.1)}[case["algo"]])
        try:
            with quiet():
                A(fp.proj_to_self()).optimize(Stub(case["v"], case["g"]), None, AO(**kw)); raised = None
        except ValueError:
            raised = "ValueError"
        except Exception as e:
            raised = type(e).__name__
        want = None if (case["v"] and case["g"]) else "ValueError"
        ctx.count("run_eq", key=("pre", case["algo"], case["v"], case["g"]), nontrivial=True, label="precondition:%s" % ("runs" if want is None else "raises"))
        if raised != want:
            ctx.violation("run_eq", ALGO_SITE[case["algo"]], "validation-before-loop", "loss with on_value=%s on_gradient=%s: optimize %s, the model (C10_precondition) says it %s" % (
                case["v"], case["g"], "raised " + raised if raised else "ran", "runs" if want is None else "raises ValueError"), case)
    ctx.run_cases("run_eq", chk_pre, [{"id": "v%s%d%d" % (a, v, g), "algo": a, "v": bool(v), "g": bool(g)} for a in ("bt", "mom", "fista") for v in (0, 1) for g in (0, 1)])


# ------------------------------------------------------------------ sub-check: ple
def chk_ple(ctx, case):
    Qm = q()
    rng = case_rng(ctx, case)
    kind, sysname, para, order = case["kind"], case["sys"], case["para"], case["order"]
    qt, c_sys = qt_of(case)
    B = basis_mats(c_sys)
    truth = true_object(rng, kind, sysname, c_sys, para, case["truth"], m=case.get("m"))
    empi = empi_from(qt, truth, rng, case["data"], case["shots"])
    site = "ProjectedLinearEstimator.calc_estimate"
    with quiet():
        lin = Qm.LinearEstimator().calc_estimate(qt, empi)
        ple = Qm.ProjectedLinearEstimator(order).calc_estimate(qt, empi, is_computation_time_required=case["hist"])
        refs = {}
        for o in ("eq_ineq", "ineq_eq"):
            lo = lin.estimated_qoperation
            lo.set_mode_proj_order(o)
            refs[o] = lo.calc_proj_physical()
    other = "ineq_eq" if order == "eq_ineq" else "eq_ineq"
    ref = np.asarray(refs[order].to_var(), dtype=float)
    d_same = float(np.abs(np.asarray(ple.estimated_var, dtype=float) - ref).max())
    d_other = float(np.abs(np.asarray(ple.estimated_var, dtype=float) - np.asarray(refs[other].to_var(), dtype=float)).max())
    disting = float(np.abs(ref - np.asarray(refs[other].to_var(), dtype=float)).max()) > 1e3 * TOL_SAME
    moved = float(np.abs(ref - np.asarray(lin.estimated_var, dtype=float)).max()) > 1e-6
    ctx.count("ple", key=case["id"], nontrivial=moved, label="%s:%s:%s:%s" % (kind, case["data"], "moved" if moved else "linear-estimate-physical", "orders-differ" if disting else "orders-agree"))
    if d_same > TOL_SAME:
        ctx.violation("ple", site, "not-projection-of-linear-estimate",
                      "%s para=%s order=%s data=%s: projected linear estimate differs from calc_proj_physical(linear estimate) by %.3e (from the other order's result by %.3e)" % (
                          kind, para, order, case["data"], d_same, d_other), case)
        return
    # "precisely the physical projection of the linear estimate": against a reference that shares no code with quara's projection routines
    # (ref_proj_physical: numpy Dykstra on the operators rebuilt from the basis), to the stopping accuracy
    ttype, arr_lin = params_of(lin.estimated_qoperation)
    eps_qt = float(qt.generate_empty_estimation_obj_with_setting_info().eps_proj_physical)          # the threshold given to the tomography, NOT the estimate's own attribute
    arr_ref, it_ref, err_ref = ref_proj_physical(ttype, B, arr_lin, tol=max(1e-29, min(1e-26, eps_qt * 1e-10)), maxit=20000)
    d_ref = float(np.abs(params_of(ple.estimated_qoperation)[1] - arr_ref).max())
    tol_ref = (REF_FACTOR_TIGHT if case.get("eps") else REF_FACTOR) * math.sqrt(eps_qt)
    if case.get("eps"):
        cal("ple_vs_reference_projection/sqrt(eps) [tight eps]", d_ref / math.sqrt(eps_qt))
    for nm_, o_ in (("LinearEstimator", lin.estimated_qoperation), ("ProjectedLinearEstimator", ple.estimated_qoperation)):
        if float(o_.eps_proj_physical) != eps_qt or bool(o_.on_para_eq_constraint) != bool(para):
            ctx.violation("ple", nm_ + ".calc_estimate", "estimate-drops-tomography-setting",
                          "%s m=%s para=%s: the estimated object has eps_proj_physical=%r on_para_eq_constraint=%r, the tomography was built with %r / %r" % (
                              kind, arr_lin.shape[0], para, o_.eps_proj_physical, o_.on_para_eq_constraint, eps_qt, para), case)
            return
    cal("ple_vs_reference_projection", d_ref)
    ctx.count("ple", key=(case["id"], "ref"), nontrivial=moved, label="vs-reference:%s:m=%s:%s" % (kind, arr_lin.shape[0], order))
    if err_ref > min(1e-20, eps_qt * 1e-4):
        ctx.count("ple", key=(case["id"], "ref-slow"), nontrivial=False, label="reference-not-converged")
    elif d_ref > tol_ref:
        ctx.violation("ple", site, "not-the-physical-projection",
                      "%s m=%s para=%s order=%s data=%s: projected linear estimate differs by %.3e (> %.1e) from the nearest physical point to the linear estimate (independent reference, %d sweeps); "
                      "distance to the linear estimate: estimate %.6f, reference %.6f" % (
                          kind, arr_lin.shape[0], para, order, case["data"], d_ref, tol_ref, it_ref,
                          float(np.linalg.norm(params_of(ple.estimated_qoperation)[1] - arr_lin)), float(np.linalg.norm(arr_ref - arr_lin))), case)
    # the returned point of calc_proj_physical is an output of the projection applied last (theorem): that constraint holds to rounding
    robj = refs[order]
    if order == "eq_ineq":
        exact_ok = min_eig(robj, B) >= -1e-12
    else:
        exact_ok = eq_residual(robj, B) <= 1e-12
    if not exact_ok:
        ctx.violation("ple", "QOperation.calc_proj_physical", "last-projection-not-exact",
                      "%s order=%s: result of calc_proj_physical is not an output of the projection applied last (min eigenvalue %.3e, eq residual %.3e)" % (
                          kind, order, min_eig(robj, B), eq_residual(robj, B)), case)
    s = math.sqrt(qt.generate_empty_estimation_obj_with_setting_info().eps_proj_physical)
    if case["data"] == "exact":
        dl = float(np.abs(np.asarray(lin.estimated_var, dtype=float) - np.asarray(truth.to_var(), dtype=float)).max())
        dp = float(np.abs(np.asarray(ple.estimated_var, dtype=float) - np.asarray(truth.to_var(), dtype=float)).max())
        cal("exact_dist [linear]", dl); cal("exact_dist [ple]", dp)
        if dl > 1e-9:
            ctx.violation("ple", "LinearEstimator.calc_estimate", "exact-data-not-recovered", "%s para=%s truth=%s: exact data, |linear estimate - truth| = %.3e" % (kind, para, case["truth"], dl), case)
        elif dp > EXACT_PLE_FACTOR * s:
            ctx.violation("ple", site, "exact-data-not-recovered", "%s para=%s order=%s truth=%s: exact data, |projected linear estimate - truth| = %.3e > %.1e" % (kind, para, order, case["truth"], dp, EXACT_PLE_FACTOR * s), case)


def sub_ple(ctx):
    rng = ctx.rng
    cases = []
    settings = S_LIGHT if ctx.quick else S_THOROUGH
    n = 0
    for kind, sysname, mo in settings:
        for para in (True, False):
            for order in ("eq_ineq", "ineq_eq") if ((kind, sysname, mo) in S_CORE or not ctx.quick) else (rng.choice(["eq_ineq", "ineq_eq"]),):
                for data, shots in (("exact", 100), ("fewshot", 1), ("fewshot", 4), ("far", 5)):
                    for rep in range(ctx.n(1, 3)):
                        cases.append(dict(id="p%d" % n, kind=kind, sys=sysname, m=mo, para=para, order=order, data=data, shots=shots,
                                          truth=rng.choice(["boundary", "interior", "generic"]) if data != "exact" else ["boundary", "interior", "generic"][rep % 3] if not ctx.quick else rng.choice(["boundary", "interior", "generic"]),
                                          hist=rng.random() < 0.5)); n += 1
            # explicit option != default: a tomography built with a tight eps_proj_physical (the estimate must reach THAT accuracy)
            for data, shots in (("fewshot", 2), ("far", 5)):
                cases.append(dict(id="p%d" % n, kind=kind, sys=sysname, m=mo, para=para, order=rng.choice(["eq_ineq", "ineq_eq"]), data=data, shots=shots,
                                  truth=rng.choice(["boundary", "interior", "generic"]), hist=rng.random() < 0.5, eps=EPS_TIGHT)); n += 1
    ctx.sample("ple", cases[0])
    ctx.run_cases("ple", chk_ple, stamp(ctx, cases))


# ------------------------------------------------------------------ sub-check: projref (the four physical-projection routines vs the reference)
def chk_projref(ctx, case):
    """QOperation.calc_proj_physical (object level) and calc_proj_physical_with_var (variable level; the projection the three algorithms install),
    both orders, on NON-physical inputs, against the independent reference projection.  C05 owns the theory of the loop; here the four routines
    C10's estimators rely on are pinned to 'nearest physical point' for every object type, outcome count and parametrisation."""
    rng = case_rng(ctx, case)
    kind, sysname, para = case["kind"], case["sys"], case["para"]
    qt, c_sys = qt_of(case)
    B = basis_mats(c_sys)
    si = qt.generate_empty_estimation_obj_with_setting_info()
    truth = true_object(rng, kind, sysname, c_sys, para, case["truth"], m=case.get("m"))
    var0 = np.asarray(truth.to_var(), dtype=float)
    var = var0 + np.array([rng.randint(-8, 8) / 10 * case["amp"] for _ in range(len(var0))])
    obj = si.generate_from_var(var)
    ttype, arr = params_of(obj)
    eps_qt = float(si.eps_proj_physical)
    ref, it_ref, err_ref = ref_proj_physical(ttype, B, arr, tol=max(1e-29, min(1e-26, eps_qt * 1e-10)), maxit=20000)
    moved = float(np.abs(ref - arr).max())
    tol = (REF_FACTOR_TIGHT if case.get("eps") else REF_FACTOR) * math.sqrt(eps_qt)
    if err_ref > min(1e-20, eps_qt * 1e-4):
        ctx.count("projref", key=case["id"], nontrivial=False, label="reference-not-converged")
        return
    for order in ("eq_ineq", "ineq_eq"):
        o = obj.copy(); o.set_mode_proj_order(order)
        with quiet():
            r_obj = o.calc_proj_physical()
            v = o.calc_proj_physical_with_var(var.copy(), on_para_eq_constraint=para)
        r_var = si.generate_from_var(np.asarray(v, dtype=float))
        for level, r, site in (("obj", r_obj, "QOperation.calc_proj_physical"), ("var", r_var, "QOperation.calc_proj_physical_with_var")):
            dd = float(np.abs(params_of(r)[1] - ref).max())
            cal("projection_vs_reference%s [%s]" % ("/sqrt(eps) tight-eps" if case.get("eps") else "", level), dd / (math.sqrt(eps_qt) if case.get("eps") else 1.0))
            ctx.count("projref", key=(case["id"], order, level), nontrivial=moved > 1e-3, label="%s:m=%s:%s:%s" % (ttype, arr.shape[0], level, order))
            if dd > tol:
                ctx.violation("projref", site, "not-the-physical-projection",
                              "%s m=%s para=%s order=%s: result differs by %.3e (> %.1e) from the nearest physical point (independent reference, %d sweeps; the input is %.3f away from it); "
                              "distance input-result %.6f, input-reference %.6f" % (
                                  ttype, arr.shape[0], para, order, dd, tol, it_ref, moved,
                                  float(np.linalg.norm(params_of(r)[1] - arr)), float(np.linalg.norm(ref - arr))), dict(case, order=order, level=level))


def sub_projref(ctx):
    rng = ctx.rng
    cases = []
    n = 0
    for kind, sysname, mo in (S_LIGHT if ctx.quick else S_THOROUGH):
        for para in (True, False):
            # always: a boundary object perturbed slightly (non-physical but close to the set: e.g. purity <= 1 in dimension >= 3) and a far one
            for truth, amp in [("boundary", 0.1), ("boundary", 0.03), (rng.choice(["interior", "generic"]), rng.choice([0.3, 1.0, 3.0]))] + \
                    [(rng.choice(["boundary", "interior", "generic"]), rng.choice([0.05, 0.3, 1.0, 3.0])) for _ in range(ctx.n(0, 4))]:
                cases.append(dict(id="j%d" % n, kind=kind, sys=sysname, m=mo, para=para, truth=truth, amp=amp)); n += 1
            cases.append(dict(id="j%d" % n, kind=kind, sys=sysname, m=mo, para=para, truth="boundary", amp=0.3, eps=EPS_TIGHT)); n += 1
    ctx.sample("projref", cases[0])
    ctx.run_cases("projref", chk_projref, stamp(ctx, cases))
    ctx.note("projref: max |quara projection - reference| this run: %s" % {k: float("%.3g" % v) for k, v in sorted(CAL.items()) if k.startswith("projection_vs")})


# ------------------------------------------------------------------ sub-check: ineq_var (variable-level inequality projection under on_para_eq_constraint=True)
def chk_ineq_var(ctx, case):
    """diagonal two-qubit states, on_para_eq_constraint=True: State.calc_proj_ineq_constraint_with_var (through
    func_calc_proj_ineq_constraint_with_var, the projection installed for the flags (eq off, ineq on)) vs the exact diagonal model
    C10_proj_ineq_with_var.  A model/code correspondence: the model says (Props: C10_ineq_only_projection_with_para_eq_not_into_psd) that
    this map leaves the PSD set; that is why sub-check `estimates` gives no verdict for that configuration (which the property does not
    quantify over).  Nothing is raised for leaving the PSD set; a disagreement between code and model is raised."""
    m = ctx.get_model()
    qt, c_sys = make_qt("qst", "2qubit", True)
    B = basis_mats(c_sys)
    si = qt.generate_empty_estimation_obj_with_setting_info()
    rows = {(1, -1, 1, -1): 0, (1, 1, -1, -1): 1, (1, -1, -1, 1): 2}
    pos = {}
    for a, b in enumerate(B):
        if a > 0 and np.count_nonzero(b - np.diag(np.diag(b))) == 0:
            pos[rows[tuple(int(round(2 * t.real)) for t in np.diag(b))]] = a - 1          # index among the variables
    if sorted(pos) != [0, 1, 2]:
        raise AssertionError("diagonal basis elements not found")
    var3 = [Fraction(t) for t in case["var"]]
    var = np.zeros(qt.num_variables)
    for i in range(3):
        var[pos[i]] = float(var3[i])
    fn = si.func_calc_proj_ineq_constraint_with_var(True)
    out = np.asarray(fn(var.copy()), dtype=float)
    v = [float(t) for t in m.call("c10.ineq_para_d4", [], [float(t) for t in var3])]
    r_m, eig_clip, eig_ret = v[:3], v[3:7], v[7:11]
    r_i = [float(out[pos[i]]) for i in range(3)]
    rest = float(np.abs(np.delete(out, [pos[0], pos[1], pos[2]])).max())
    obj = si.generate_from_var(out)
    eig_i = sorted(float(t) for t in np.linalg.eigvalsh(operators_of(obj, B)[0]))
    leaves = min(eig_ret) < -1e-9
    ctx.count("ineq_var", key=tuple(case["var"]), nontrivial=True, label="witness" if case.get("witness") else ("leaves-psd-set" if leaves else "stays-psd"))
    if not vclose(r_i, r_m, 1e-12) or rest > 1e-12 or not vclose(eig_i, sorted(eig_ret), 1e-12):
        ctx.violation("ineq_var", "State.calc_proj_ineq_constraint_with_var", "model-mismatch",
                      "diagonal 2-qubit variables %s: implementation returns %s (other components %.1e, eigenvalues %s), model %s (eigenvalues %s)" % (
                          case["var"], r_i, rest, eig_i, r_m, sorted(eig_ret)), case)
        return
    if case.get("witness"):
        # the same input through the projection the algorithms install for (eq off, ineq on): must be this very map (decision table)
        Qm = q()
        for name, (A, AO) in Qm.ALGO.items():
            algo = A()
            algo.set_constraint_from_standard_qt_and_option(qt, AO(on_algo_eq_constraint=False, on_algo_ineq_constraint=True))
            with quiet():
                out2 = np.asarray(algo.func_proj(var.copy()), dtype=float)
            ctx.count("ineq_var", key=("installed", name), nontrivial=True, label="installed-projection-is-this-map")
            if not np.array_equal(out2, out):
                ctx.violation("ineq_var", SELECT_SITE, "wrong-projection",
                              "%s, 2-qubit QST, on_para_eq_constraint=True, flags (eq off, ineq on): func_proj(%s) = %s is not func_calc_proj_ineq_constraint_with_var(True) = %s" % (
                                  name, case["var"], [float(out2[pos[i]]) for i in range(3)], r_i), case)


def sub_ineq_var(ctx):
    rng = ctx.rng
    cases = [{"var": ["3/2", "0", "0"], "witness": True}]
    for _ in range(ctx.n(12, 80)):
        cases.append({"var": ["%d/%d" % (rng.randint(-12, 12), rng.choice([1, 2, 4, 5, 8])) for _ in range(3)]})
    ctx.sample("ineq_var", cases[0])
    ctx.run_cases("ineq_var", chk_ineq_var, cases)


SUBS = [("select", sub_select), ("reuse", sub_reuse), ("reuse_linear", sub_reuse_linear), ("settings", sub_settings), ("layouts", sub_layouts), ("origin", sub_origin), ("steps", sub_steps), ("run_eq", sub_run_eq), ("ple", sub_ple), ("projref", sub_projref), ("ineq_var", sub_ineq_var), ("estimates", sub_estimates)]
FNS = {"select": chk_select, "reuse": chk_reuse, "reuse_linear": chk_reuse_linear, "settings": chk_settings, "layouts": chk_layouts, "origin": chk_origin, "steps": chk_steps, "run_eq": chk_run_eq, "ple": chk_ple, "projref": chk_projref, "ineq_var": chk_ineq_var, "estimates": chk_estimate}


# ====================================================================================== translator tie
def regen_tie(ctx):
    """regenerate (gen/c10_py2coq.py) the Gallina text of the decision function (ProjectedGradientDescent.__init__ /
    set_constraint_from_standard_qt_and_option, QOperation.func_calc_proj_physical_with_var) and of the three optimize loops (+ _is_doing_for_alpha)
    from the CURRENT source, compile it and re-check coq/gen/C10_Equiv.v (regenerated = hand-written model for ALL inputs; theorems transported).
    returns (ok, info)"""
    import os, re, shutil, subprocess, sys
    import runner
    V = runner.V
    scratch = os.path.join(ctx.scratch, "gen")
    os.makedirs(scratch, exist_ok=True)
    gen_v = os.path.join(scratch, "Gen_c10.v")
    equiv = os.path.join(V, "coq", "gen", "C10_Equiv.v")
    src = open(equiv).read()
    src_nc = re.sub(r"\(\*.*?\*\)", " ", src, flags=re.S)
    thms = re.findall(r"^\s*Theorem\s+([\w']+)", src_nc, flags=re.M)
    ctx.theorems = list(ctx.theorems) + [t for t in thms if t not in ctx.theorems]
    ctx.obligations += len(thms)
    r = subprocess.run([sys.executable, os.path.join(V, "gen", "c10_py2coq.py"), os.environ.get("VERIF_REPO", "/repo"), gen_v],
                       capture_output=True, text=True, timeout=120)
    if r.returncode != 0:
        return False, {"theorem": thms[0], "error": "translator rejected the source (outside its subset): " + (r.stdout + r.stderr)[-600:]}
    qa = ["-Q", os.path.join(V, "coq", "theories"), "QV", "-Q", scratch, "QVGen"]
    r = subprocess.run(["timeout", "300", "coqc"] + qa + [gen_v], capture_output=True, text=True)
    if r.returncode != 0:
        return False, {"theorem": thms[0], "error": "regenerated model does not compile: " + (r.stdout + r.stderr)[-600:]}
    dst = os.path.join(scratch, "C10_Equiv.v")
    shutil.copy(equiv, dst)
    r = subprocess.run(["timeout", "600", "coqc"] + qa + [dst], capture_output=True, text=True)
    out = r.stdout + r.stderr
    if r.returncode != 0:
        mm = re.search(r"line (\d+), characters", out)
        thm = None
        if mm:
            upto = "\n".join(src.splitlines()[:int(mm.group(1))])
            names = re.findall(r"^\s*(?:Theorem|Lemma)\s+([\w']+)", upto, flags=re.M)
            thm = names[-1] if names else None
        return False, {"theorem": thm, "error": out[-800:]}
    blocks = runner.parse_assumptions(out)
    bad = [a for closed, axs in blocks for a in axs if a not in runner.ALLOWED_AXIOMS and a.split(".")[-1] not in runner.ALLOWED_AXIOMS]
    if len(blocks) != len(thms) or bad:
        return False, {"theorem": thms[0], "error": "assumption gate on regenerated proofs: %d blocks / %d theorems, disallowed %s" % (len(blocks), len(thms), bad)}
    for t, (closed, axs) in zip(thms, blocks):
        ctx.axioms[t] = "closed" if closed else sorted(set(axs))
    ctx.discharged += len(thms)
    return True, {}


def run(ctx):
    ctx.rule = ("cases: quara's typical testers (1 qubit: x0,y0,z0,z1 / X,Y,Z; qutrit: 9 states / 7 POVMs; 2 qubits thorough) x both parametrisations x "
                "truths (boundary = pure / projective / unitary, interior, seeded generic) x data (exact, few-shot multinomial samples with zeros, "
                "far-out-of-range distributions of no object) x estimators / algorithms / loss families / flags / orders; seeded from VERIF_SEED. "
                "non-trivial: select = the expected projection is distinguishable from every other candidate on a probe vector; steps = a compared step "
                "(runs labelled by whether a halving / magnitude change / extrapolation occurred); ple = the projection moved the linear estimate; "
                "estimates = anything but exact data of an interior truth; exact-recovery cases that hit the iteration cap are trivial; decisions "
                "(Armijo, stop, log10 magnitude) within their bands are counted trivial, never as agreement")
    # flow.standard_run with this property's own translator tie (flow.regen_check is bound to gen/py2coq.py)
    import runner
    ok, info = runner.check_props(ctx)
    ok2, info2 = regen_tie(ctx)
    if not ok2:
        ok, info = False, info2
        ctx.note("regenerated model of the decision function / the three optimize loops (coq/gen/C10_Equiv.v) not discharged: %s" % str(info2)[:500])
        # the tie is broken: widen the differential sweeps that exercise the translated code (select, steps, run_eq run their thorough-tier
        # case lists) to find a concrete failing input
        ctx.c10_tie_broken = True
    if not ok:
        ctx.discharged = min(ctx.discharged, ctx.obligations - 1)
    import time as _t
    times = {}
    for name, fn in SUBS:
        if ctx.only is None or name in ctx.only:
            t0 = _t.time(); fn(ctx); times[name] = round(_t.time() - t0, 1)
    ctx.note("wall time per sub-check (s): %s" % times)
    if not ok and not ctx.violations:
        ctx.violation("theorems", "Props/%s.v" % ctx.prop_id, "theorem-broken:%s" % info.get("theorem"),
                      "theorem %s no longer checks: %s" % (info.get("theorem"), info.get("error", "")[-400:]),
                      {"theorem": info.get("theorem"), "error": info.get("error")}, no_input=True)
    elif not ok:
        ctx.note("theorem obligations not discharged: %s" % info)


def wide(ctx):
    """quick-tier case lists are replaced by the thorough ones for the sub-checks tied to translated code when the translator tie is broken"""
    return (not ctx.quick) or getattr(ctx, "c10_tie_broken", False)


def replay(ctx, doc):
    flow.standard_replay(ctx, doc, FNS)
