"""C07 — tensor products and embeddings respect subsystem structure.

Three things are compared for every generated arrangement (subsystem dims in {2,3}, names in any order, any grouping):
  impl   = quara.objects.operators.tensor_product on quara objects built from the generated factors,
  model  = the extracted Coq model (Model/C07_Tensor.v) in mode 'Fixed' = the code after the repairs
           fixes/C07-left-permutation-matrix-size-product (head / tail sizes are products) and
           fixes/C07-mprocess-tensor-outcome-layout (outcome pairs stored row-major w.r.t. the reported shape).  The mode
           'Coded' (the code as it was before those repairs) is only used to CLASSIFY a failure: when the implementation
           misbehaves exactly as the pre-repair model predicts, the violation carries the signature of that defect,
  pred   = the property predicate evaluated in plain numpy on the implementation's output: the operator(s) of the result
           are the Kronecker product of the factors' operators rearranged to ascending subsystem name, and the outcome
           multi-index is laid out as the reported shape says.
impl vs model disagreements are reported as 'model-mismatch' (or under the signature of the returned defect, see above);
predicate failures under the site of the defect.
"""
import itertools, random
from fractions import Fraction
import numpy as np
from common import flow

LEVEL = "proof"

SITE_PERM = "matrix_util._left_permutation_matrix"
SIG_PERM_CRASH = "head-tail-size-sum-not-product:crash"
SIG_PERM_WRONG = "head-tail-size-sum-not-product:wrong-permutation"
SITE_MP = "operators._tensor_product_MProcess_MProcess"
SIG_MP = "outcome-layout-vs-shape"
TOL = 1e-9
KIND = {"state": 0, "povm": 1, "gate": 2}
FUEL = 64
MODE = 1          # the model the implementation is compared with: 1 = Fixed (repaired code), 0 = Coded (before the repairs)


# ------------------------------------------------------------------ exact Gaussian-rational construction of factors
class GQ:
    __slots__ = ("re", "im")

    def __init__(self, re=0, im=0):
        self.re = Fraction(re); self.im = Fraction(im)

    def __add__(self, o):
        return GQ(self.re + o.re, self.im + o.im)

    def __sub__(self, o):
        return GQ(self.re - o.re, self.im - o.im)

    def __mul__(self, o):
        return GQ(self.re * o.re - self.im * o.im, self.re * o.im + self.im * o.re)

    def conj(self):
        return GQ(self.re, -self.im)

    def scale(self, f):
        return GQ(self.re * f, self.im * f)

    def __complex__(self):
        return complex(float(self.re), float(self.im))


PHASES = [GQ(1, 0), GQ(0, 1), GQ(-1, 0), GQ(0, -1)]
PYTH = [(Fraction(3, 5), Fraction(4, 5)), (Fraction(4, 5), Fraction(3, 5)), (Fraction(5, 13), Fraction(12, 13)),
        (Fraction(12, 13), Fraction(5, 13)), (Fraction(8, 17), Fraction(15, 17)), (Fraction(0), Fraction(1))]


def g_eye(n):
    return [[GQ(1 if i == j else 0) for j in range(n)] for i in range(n)]


def g_mul(A, B):
    n, k, m = len(A), len(B), len(B[0])
    out = []
    for i in range(n):
        row = []
        for j in range(m):
            s = GQ()
            for l in range(k):
                a = A[i][l]
                if a.re == 0 and a.im == 0:
                    continue
                s = s + a * B[l][j]
            row.append(s)
        out.append(row)
    return out


def g_dag(A):
    return [[A[j][i].conj() for j in range(len(A))] for i in range(len(A[0]))]


def g_np(A):
    return np.array([[complex(x) for x in row] for row in A], dtype=complex)


def rand_unitary(rng, D, nrot):
    """exactly unitary matrix with Gaussian-rational entries: Givens rotations with Pythagorean (c, s), phases, a permutation"""
    V = g_eye(D)
    for _ in range(nrot):
        if D < 2:
            break
        i, j = rng.sample(range(D), 2)
        c, s = rng.choice(PYTH)
        ph = rng.choice(PHASES)
        for col in range(D):
            a, b = V[i][col], V[j][col]
            V[i][col] = a.scale(c) - (ph * b).scale(s)
            V[j][col] = (ph.conj() * a).scale(s) + b.scale(c)
    perm = list(range(D)); rng.shuffle(perm)
    V = [[V[perm[i]][j] * PHASES[(i * 3 + 1) % 4] for j in range(D)] for i in range(D)]
    return V


def kraus_from_unitary(V, d, m):
    """K_j = (I (x) <j|) V (I (x) |0>), j < m; sum_j K_j^dagger K_j = I exactly"""
    return [[[V[a * m + j][b * m] for b in range(d)] for a in range(d)] for j in range(m)]


def rand_kraus(rng, d, m):
    V = rand_unitary(rng, d * m, 2 * d * m + 2)
    return [g_np(K) for K in kraus_from_unitary(V, d, m)]


def rand_state(rng, d):
    L = [[GQ(rng.randint(-3, 3), rng.randint(-3, 3)) for _ in range(d)] for _ in range(d)]
    L[0][0] = L[0][0] + GQ(1)
    M = g_mul(L, g_dag(L))
    tr = sum(M[i][i].re for i in range(d))
    if tr == 0:
        M = g_eye(d); tr = Fraction(d)
    return g_np([[x.scale(1 / tr) for x in row] for row in M])


# ------------------------------------------------------------------ quara side helpers
_B = {}


def qbasis(d):
    from quara.objects import matrix_basis as mb
    if d not in _B:
        b = mb.get_normalized_pauli_basis() if d == 2 else mb.get_normalized_gell_mann_basis()
        _B[d] = (b, [dense(x) for x in b])
    return _B[d]


def dense(x):
    return np.asarray(x.toarray() if hasattr(x, "toarray") else x, dtype=complex)


def vec_of(op, B):
    return np.array([np.trace(b.conj().T @ op).real for b in B], dtype=np.float64)


def op_of(vec, B):
    return sum(c * b for c, b in zip(vec, B))


def hs_of_kraus(Ks, B):
    n = len(B)
    H = np.zeros((n, n))
    img = [sum(K @ b @ K.conj().T for K in Ks) for b in B]
    for a in range(n):
        for b in range(n):
            H[a, b] = np.trace(B[a].conj().T @ img[b]).real
    return H


def esys(name, d):
    from quara.objects.elemental_system import ElementalSystem
    return ElementalSystem(int(name), qbasis(d)[0])


def csys(es):
    from quara.objects.composite_system import CompositeSystem
    return CompositeSystem(list(es))


def reorder(op, names, dims):
    """operator on (x)_k C^dims[k] with subsystems listed in the order [names] -> same operator with subsystems ascending"""
    n = len(names)
    order = sorted(range(n), key=lambda k: names[k])
    t = np.asarray(op).reshape(list(dims) + list(dims))
    t = t.transpose(order + [n + k for k in order])
    D = int(np.prod(dims))
    return t.reshape(D, D)


def kron_all(ms):
    out = np.array([[1.0 + 0j]])
    for m in ms:
        out = np.kron(out, m)
    return out


# ------------------------------------------------------------------ factors (leaves)
LAYOUTS = ["C", "F", "strided", "transposed", "readonly", "readonly-F"]


def lay(a, layout):
    """same values, different memory layout / flags: C-contiguous copy, Fortran order, a strided view into a larger buffer, the
    transposed view of the transposed copy (F-like strides, not owning its data), read-only (C or Fortran ordered)"""
    a = np.array(a, dtype=np.float64)
    if layout in ("F", "readonly-F"):
        a = np.asfortranarray(a)
    elif layout == "strided":
        big = np.full(tuple(2 * k for k in a.shape), 7.25)
        view = big[tuple(slice(None, None, 2) for _ in a.shape)]
        view[...] = a
        return view
    elif layout == "transposed":
        return np.ascontiguousarray(a.T).T
    if layout.startswith("readonly"):
        a.flags.writeable = False
    return a


def make_leaf(typ, spec):
    """spec: {"names": [..ascending..], "dims": [...], "nout": int, "seed": int} -> dict with exact operators and the quara object.
    A leaf over more than one subsystem is a generic (entangled / non-product) object on the ascending-name composite system."""
    from quara.objects.state import State
    from quara.objects.povm import Povm
    from quara.objects.gate import Gate
    from quara.objects.mprocess import MProcess
    rng = random.Random(spec["seed"])
    names, dims = spec["names"], spec["dims"]
    D = int(np.prod(dims))
    es = [esys(nm, d) for nm, d in zip(names, dims)]
    c = csys(es)
    B = [dense(b) for b in c.basis()]
    leaf = {"names": list(names), "dims": list(dims), "es": es, "typ": typ}
    if typ == "state":
        rho = rand_state(rng, D)
        leaf["ops"] = rho
        leaf["vec"] = vec_of(rho, B)
        leaf["obj"] = State(c, lay(leaf["vec"], spec.get("layout", "C")))
        leaf["rs"], leaf["cs"], leaf["data"] = [d * d for d in dims], [1] * len(dims), [float(x) for x in leaf["vec"]]
    elif typ == "povm":
        n = spec["nout"]
        Ks = rand_kraus(rng, D, n)
        Es = [K.conj().T @ K for K in Ks]
        leaf["ops"] = Es
        vecs = [vec_of(E, B) for E in Es]
        leaf["vecs"] = vecs
        rows = lay(np.array(vecs), spec.get("layout", "C"))          # rows of an F-ordered / strided 2-d array are non-contiguous
        leaf["obj"] = Povm(c, [rows[x] for x in range(len(vecs))] if spec.get("layout", "C") != "C" else vecs)
        leaf["rs"], leaf["cs"] = [n], [d * d for d in dims]
        leaf["data"] = [float(x) for v in vecs for x in v]
    elif typ == "gate":
        Ks = rand_kraus(rng, D, spec.get("nkraus") or rng.choice([1, 1, 2, 3]))
        leaf["ops"] = Ks
        hs = hs_of_kraus(Ks, B)
        leaf["hs"] = hs
        leaf["obj"] = Gate(c, lay(hs, spec.get("layout", "C")), is_physicality_required=spec.get("phys", True))
        leaf["rs"] = leaf["cs"] = [d * d for d in dims]
        leaf["data"] = [float(x) for x in hs.ravel()]
    elif typ == "mprocess":
        # "ranks": number of Kraus operators per outcome (coarse-grained / noisy outcomes have rank >= 2, possibly unequal)
        g = rng.choice([1, 1, 2])
        ranks = list(spec.get("ranks") or [g] * spec["nout"])
        n = len(ranks)
        Ks = rand_kraus(rng, D, sum(ranks))
        offs = [sum(ranks[:x]) for x in range(n + 1)]
        groups = [Ks[offs[x]:offs[x + 1]] for x in range(n)]
        leaf["ops"] = groups
        hss = [hs_of_kraus(G, B) for G in groups]
        leaf["hss"] = hss
        leaf["obj"] = MProcess(c, [lay(h, spec.get("layout", "C")) for h in hss], is_physicality_required=spec.get("phys", True))
        leaf["rs"] = leaf["cs"] = [d * d for d in dims]
        leaf["nout"] = n
    else:
        raise AssertionError(typ)
    return leaf


def tree_leaves(t):
    return [t] if isinstance(t, int) else tree_leaves(t[0]) + tree_leaves(t[1])


def is_left_chain(t):
    while not isinstance(t, int):
        if not isinstance(t[1], int):
            return False
        t = t[0]
    return True


def impl_eval(t, leaves, use_varargs=True, aslist=False):
    from quara.objects.operators import tensor_product
    if isinstance(t, int):
        return leaves[t]["obj"]
    if use_varargs and is_left_chain(t) and len(tree_leaves(t)) >= 3:
        # tensor_product(a, b, c, ...) is the left fold; list arguments are flattened one level (_to_list)
        objs = [leaves[i]["obj"] for i in tree_leaves(t)]
        return tensor_product(objs[:2], *objs[2:]) if aslist else tensor_product(*objs)
    a, b = impl_eval(t[0], leaves, use_varargs, aslist), impl_eval(t[1], leaves, use_varargs, aslist)
    return tensor_product([a, b]) if aslist else tensor_product(a, b)


def enc_tree(t, leaves, zs, qs):
    if isinstance(t, int):
        lf = leaves[t]
        zs += [0, len(lf["names"])] + list(lf["names"]) + list(lf["rs"]) + list(lf["cs"])
        qs += lf["data"]
    else:
        zs.append(1)
        enc_tree(t[0], leaves, zs, qs); enc_tree(t[1], leaves, zs, qs)


def model_eval(ctx, kind, mode, t, leaves, op="c07.eval"):
    zs, qs = [kind, mode, FUEL], []
    enc_tree(t, leaves, zs, qs)
    st, val = ctx.get_model().try_call(op, zs, qs)
    if st == "err":
        return ("err", val)
    k = int(val[0])
    names = [int(x) for x in val[1:1 + k]]
    rs = [int(x) for x in val[1 + k:1 + 2 * k]]
    cs = [int(x) for x in val[1 + 2 * k:1 + 3 * k]]
    data = np.array([float(x) for x in val[1 + 3 * k:]])
    return ("ok", names, rs, cs, data.reshape(int(np.prod(rs)), int(np.prod(cs))))


def all_trees(ls):
    if len(ls) == 1:
        yield ls[0]
        return
    for i in range(1, len(ls)):
        for l in all_trees(ls[:i]):
            for r in all_trees(ls[i:]):
                yield [l, r]


def run_impl(fn):
    try:
        return ("ok", fn())
    except (ValueError, TypeError, IndexError, AssertionError, ZeroDivisionError, AttributeError, KeyError) as e:
        # (an AssertionError raised inside quara must not be taken for a failure of the harness itself)
        return ("err", type(e).__name__, str(e)[:200])


def maxabs(a, b):
    a = np.asarray(a); b = np.asarray(b)
    if a.shape != b.shape:
        return float("inf")
    return float(np.abs(a - b).max()) if a.size else 0.0


def leaf_order_info(t, leaves):
    order = tree_leaves(t)
    names = [nm for i in order for nm in leaves[i]["names"]]
    dims = [d for i in order for d in leaves[i]["dims"]]
    return order, names, dims


def crash_expected_by_model(res_model):
    return res_model[0] == "err" and res_model[1] == 1


# ------------------------------------------------------------------ sub-check: permutation matrices (function level)
def chk_perm(ctx, case):
    from quara.utils import matrix_util as mu
    m = ctx.get_model()
    names, sizes = case["names"], case["sizes"]
    n = len(names); N = int(np.prod(sizes))
    impl = run_impl(lambda: mu.calc_permutation_matrix(list(names), list(sizes)))
    st, val = m.try_call("c07.perm_map", [MODE, FUEL, n] + names + sizes)
    if impl[0] == "ok" and case.get("seed", 0) % 3 == 0:
        first = np.array(impl[1], copy=True)
        impl[1][...] = 5.0
        again = run_impl(lambda: mu.calc_permutation_matrix(list(names), list(sizes)))
        if again[0] != "ok" or again[1].shape != first.shape or not np.array_equal(again[1], first):
            ctx.violation("perm", "matrix_util.calc_permutation_matrix", "history", "second call after the caller overwrote the first result differs from the first (result cached / aliased)", case)
        impl = ("ok", first)
    inv = sum(1 for i in range(n) for j in range(i + 1, n) if names[i] > names[j])
    lab = "n%d-inv%d-%s" % (n, min(inv, 3), "ok" if impl[0] == "ok" else "raise")
    ctx.count("perm", key=(tuple(names), tuple(sizes)), nontrivial=inv > 0, label=lab)
    if st != "ok":
        # C07_perm_terminates: with corrected sizes and fuel >= #inversions the model returns a matrix
        ctx.violation("perm", "model", "model-error", "repaired model returns error %s on %s %s" % (val, names, sizes), case)
        return
    s = [int(x) for x in val]
    Pm = np.zeros((N, N)); Pm[np.arange(N), s] = 1
    # matrix-level model (mmul of kron(kron(I,K),I)) for tiny instances: same answer as the index-map model
    # (function matrices re-evaluate: one entry of a product of k left-permutation matrices costs N^k)
    if N <= 64 and N ** (inv + 2) <= 400000:
        st2, val2 = m.try_call("c07.perm_matrix", [MODE, FUEL, n] + names + sizes)
        if st2 != st or [int(x) for x in val2] != [1 if s[i] == j else 0 for i in range(N) for j in range(N)]:
            ctx.violation("perm", "model", "spec-vs-fast-model", "matrix-level and index-map models differ on %s %s" % (names, sizes), case)
    # the pre-repair model, only to name the defect when it is back
    stc, valc = m.try_call("c07.perm_map", [0, FUEL, n] + names + sizes)
    # property: the matrix sends the Kronecker product of the factors in the given order to the product in ascending name order
    rng = random.Random(case.get("seed", 1))
    xs = [np.array([float(rng.randint(-5, 5) + (k + 1) * 0.5) for _ in range(sz)]) for k, sz in enumerate(sizes)]
    order = sorted(range(n), key=lambda k: names[k])
    want = kron_all([x.reshape(-1, 1) for x in [xs[k] for k in order]]).ravel().real
    have_in = kron_all([x.reshape(-1, 1) for x in xs]).ravel().real
    if maxabs(Pm @ have_in, want) > TOL * (1 + np.abs(want).max()):
        ctx.violation("perm", "model", "model-not-sorting", "the repaired model's matrix does not reorder the factors (contradicts C07_perm_sorts_vec) on %s %s" % (names, sizes), case)
        return
    if impl[0] == "err":
        as_before = stc == "err" and int(valc) == 1 and impl[1] == "ValueError"
        site, sig = (SITE_PERM, SIG_PERM_CRASH) if as_before else ("matrix_util.calc_permutation_matrix", "raises")
        ctx.violation("perm", site, sig, "calc_permutation_matrix(%s, %s) raises %s: %s" % (names, sizes, impl[1], impl[2][:120]), case)
        return
    P = np.asarray(impl[1])
    if P.shape == (N, N) and np.array_equal(P, Pm):
        return
    dev = maxabs(P @ have_in, want) if P.shape == (N, N) else float("inf")
    if dev > TOL * (1 + np.abs(want).max()):
        as_before = False
        if stc == "ok" and P.shape == (N, N):
            Pc = np.zeros((N, N)); Pc[np.arange(N), [int(x) for x in valc]] = 1
            as_before = np.array_equal(P, Pc)
        site, sig = (SITE_PERM, SIG_PERM_WRONG) if as_before else ("matrix_util.calc_permutation_matrix", "wrong-permutation")
        ctx.violation("perm", site, sig, "calc_permutation_matrix(%s, %s) does not reorder the factors to ascending name (max dev %.3g)" % (names, sizes, dev), case)
    else:
        ctx.violation("perm", "matrix_util.calc_permutation_matrix", "model-mismatch", "matrix differs from the model's although it reorders the probe product, names %s sizes %s" % (names, sizes), case)


def chk_kmat(ctx, case):
    from quara.utils import matrix_util as mu
    from quara.objects import operators as ops
    d1, d2 = case["d1"], case["d2"]
    val = ctx.get_model().call("c07.kmat_sum", [d1, d2])
    Km = np.array([float(x) for x in val]).reshape(d1 * d2, d1 * d2)
    ctx.count("perm", key=("K", d1, d2), nontrivial=d1 > 1 and d2 > 1, label="K")
    for site, K in (("matrix_util._K", mu._K(d1, d2)), ("operators._K", ops._K(d1, d2))):
        if not np.array_equal(K, Km):
            ctx.violation("perm", site, "model-mismatch", "_K(%d,%d) differs from the model" % (d1, d2), case)
        a = np.arange(1, d2 + 1) * 1.0; b = np.arange(1, d1 + 1) * 0.25 + 3
        if maxabs(K @ np.kron(a, b), np.kron(b, a)) > 1e-12:
            ctx.violation("perm", site, "commutation", "_K(%d,%d)(a (x) b) != b (x) a" % (d1, d2), case)
    # convert_list_by_permutation_matrix = "P @ list"
    P = mu._K(d1, d2)
    old = list(range(100, 100 + d1 * d2))
    new = mu.convert_list_by_permutation_matrix(old, P)
    if new != [old[int(np.argmax(P[r]))] for r in range(d1 * d2)]:
        ctx.violation("perm", "matrix_util.convert_list_by_permutation_matrix", "value", "list permutation differs from P @ list", case)


def chk_convlist(ctx, case):
    """matrix_util.convert_list_by_permutation_matrix vs the model [conv_list] (= the function regenerated from the source,
    coq/gen/C07_Equiv2.v): first column with a 1 per row, placeholder True for a row without a 1"""
    from quara.utils import matrix_util as mu
    n, m, P, old = case["n"], case["m"], case["P"], case["old"]
    val = ctx.get_model().call("c07.conv_list", [n, m] + old + [x for row in P for x in row])
    want = [True if int(v) == -1 else int(v) for v in val]
    impl = run_impl(lambda: mu.convert_list_by_permutation_matrix(list(old), np.array(P, dtype=float).reshape(n, m)))
    isperm = n == m and all(sorted(row) == [0] * (m - 1) + [1] for row in P) and all(sum(P[r][c] for r in range(n)) == 1 for c in range(m))
    ctx.count("perm", key=("conv", repr(case)), nontrivial=True, label="convert-list-" + ("perm" if isperm else "general"))
    if impl[0] != "ok" or [x if x is True else int(x) for x in impl[1]] != want:
        ctx.violation("perm", "matrix_util.convert_list_by_permutation_matrix", "value", "result %s differs from the model %s for P = %s, list %s" % (impl[1:], want, P, old), case)
    elif isperm and [int(x) for x in impl[1]] != [int(x) for x in (np.array(P) @ np.array(old))]:
        ctx.violation("perm", "matrix_util.convert_list_by_permutation_matrix", "not-P-times-list", "result is not P @ list for the permutation matrix %s" % (P,), case)


def sub_perm(ctx):
    rng = ctx.rng
    cases = []
    cl = []
    for i in range(ctx.n(8, 80) if not getattr(ctx, "widen", False) else 80):
        n = rng.choice([1, 2, 3, 4, 5]); m = n if i % 2 == 0 else rng.choice([1, 2, 3, 4, 5])
        if i % 2 == 0:
            pi = list(range(n)); rng.shuffle(pi)
            P = [[1 if c == pi[r] else 0 for c in range(m)] for r in range(n)]
        else:
            P = [[rng.choice([0, 0, 1, 1, 2]) for _ in range(m)] for _ in range(n)]
        cl.append({"conv": 1, "n": n, "m": m, "P": P, "old": [100 + 7 * c for c in range(m)]})
    ctx.run_cases("perm", chk_convlist, cl)
    # every permutation of 2..4 names with sizes of state vectors (4, 9) and of outcome counts
    for n in (2, 3, 4):
        for perm in itertools.permutations(range(n)):
            pools = [[4, 9, 4, 9], [2, 3, 4, 5], [3, 2, 2, 4], [2, 2, 2, 2]] if n < 4 else [[4, 4, 4, 9], [2, 3, 4, 5], [2, 2, 2, 2], [2, 2, 3, 2]]
            for pool in (pools if not ctx.quick or n < 4 else pools[:3]):
                cases.append({"names": [int(p) * 3 + 1 for p in perm], "sizes": pool[:n], "seed": rng.randrange(10 ** 6)})
    # seeded sample, 3-6 subsystems; the dense N x N matmuls of the implementation bound N (one swap costs N^3)
    cap = ctx.n(300, 1000)
    for _ in range(ctx.n(12, 200) if not getattr(ctx, "widen", False) else 120):
        n = rng.choice([3, 4, 4, 5, 5, 6])
        names = rng.sample(range(0, 40), n)
        sizes = [rng.choice([1, 2, 2, 3, 3, 4]) for _ in range(n)]
        while int(np.prod(sizes)) > cap:
            k = max(range(n), key=lambda q: sizes[q])
            sizes[k] -= 1
        cases.append({"names": names, "sizes": sizes, "seed": rng.randrange(10 ** 6)})
    # the arrangement on which the coded sizes give a square matrix of the right size that is the wrong permutation
    cases.append({"names": [0, 1, 3, 2, 4, 5], "sizes": [1, 2, 2, 2, 3, 3], "seed": 7})
    ctx.sample("perm", cases[5])
    ctx.run_cases("perm", chk_perm, cases)
    kc = [{"d1": a, "d2": b} for a in range(1, 5) for b in range(1, 5)] + [{"d1": 4, "d2": 9}, {"d1": 9, "d2": 4}]
    ctx.run_cases("perm", chk_kmat, kc)


# ------------------------------------------------------------------ sub-check: State / Povm / Gate products over trees
def chk_tree(ctx, case):
    typ = case["typ"]
    sub = case.get("sub", typ)
    leaves = [make_leaf(typ, sp) for sp in case["leaves"]]
    t = case["tree"]
    order, names, dims = leaf_order_info(t, leaves)
    nsys = len(names)
    sorted_names = sorted(names)
    sdims = [d for _, d in sorted(zip(names, dims))]
    impl = run_impl(lambda: impl_eval(t, leaves, case.get("varargs", True), case.get("aslist", False)))
    mod = model_eval(ctx, KIND[typ], MODE, t, leaves)
    ctx.count(sub, key=repr(case), nontrivial=names != sorted_names,
              label="%s-n%d-%s%s" % (typ, nsys, "ok" if impl[0] == "ok" else "raise", "-sorted" if names == sorted_names else ""))
    if mod[0] == "err":
        # C07_eval_total: distinct names, corrected sizes, fuel >= n^2  ->  the model returns a value
        ctx.violation(sub, "model", "model-error", "repaired model returns error %s for distinct names %s" % (mod[1], names), case)
        return
    if impl[0] == "err":
        # the repaired code returns a value here; name the defect when the pre-repair model predicts exactly this failure
        coded = model_eval(ctx, KIND[typ], 0, t, leaves)
        if impl[1] == "ValueError" and "matmul" in impl[2] and crash_expected_by_model(coded):
            ctx.violation(sub, SITE_PERM, SIG_PERM_CRASH, "tensor_product of %d %ss, names in argument order %s, grouping %s raises ValueError (%s)" % (len(leaves), typ, names, t, impl[2][:80]), case)
        else:
            ctx.violation(sub, "operators.tensor_product:" + typ, "unexpected-raise", "%s: %s" % (impl[1], impl[2]), case)
        return
    # ---- correspondence with the model of the repaired code
    r = impl[1]
    _, mnames, mrs, mcs, mdata = mod
    inames = [e.name for e in r.composite_system.elemental_systems]
    idims = [e.dim for e in r.composite_system.elemental_systems]
    if typ == "state":
        idata = np.asarray(r.vec).reshape(-1, 1); msizes = mrs; ishape_ok = True
    elif typ == "povm":
        idata = np.array(r.vecs); msizes = mcs
        ishape_ok = list(r.nums_local_outcomes) == mrs
    else:
        idata = np.asarray(r.hs); msizes = mcs; ishape_ok = True
    if inames != mnames or [d * d for d in idims] != msizes or not ishape_ok:
        ctx.violation(sub, "operators.tensor_product:" + typ, "model-mismatch", "composite system / shape differs: impl %s %s model %s %s %s" % (inames, idims, mnames, mrs, mcs), case)
    elif maxabs(idata, mdata) > TOL * (1 + np.abs(mdata).max()):
        ctx.violation(sub, "operators.tensor_product:" + typ, "model-mismatch", "values differ from the model, max dev %.3g" % maxabs(idata, mdata), case)
    # ---- history: the caller overwrites the arrays of the returned object, then the same product is requested again
    # (no result may be cached / aliased with the first one; the operands' own arrays must be what they were)
    if case.get("history") and impl[0] == "ok" and maxabs(idata, mdata) <= TOL * (1 + np.abs(mdata).max()) and not (ctx.quick and typ == "gate" and nsys > 2):
        # (only when the first result was right: a wrong first result is reported by the comparison above, not as a history effect)
        def arrays(o):
            if typ == "state":
                return [o.vec]
            if typ == "povm":
                return list(o.vecs)
            return [o.hs]
        before = [[np.array(a_, copy=True) for a_ in arrays(l["obj"])] for l in leaves]
        scribbled = 0
        for a_ in arrays(impl[1]):
            if isinstance(a_, np.ndarray) and a_.flags.writeable:
                a_[...] = 123.0
                scribbled += 1
        again = run_impl(lambda: impl_eval(t, leaves, case.get("varargs", True), case.get("aslist", False)))
        ctx.count(sub, key=("history", repr(case)), nontrivial=scribbled > 0, label="%s-history-%s" % (typ, "scribbled" if scribbled else "readonly-result"))
        if again[0] != "ok":
            ctx.violation(sub, "operators.tensor_product:" + typ, "history", "second call after the caller modified the first result raises %s" % (again[1:],), case)
            return
        d2 = np.asarray(again[1].vec).reshape(-1, 1) if typ == "state" else (np.array(again[1].vecs) if typ == "povm" else np.asarray(again[1].hs))
        if maxabs(d2, mdata) > TOL * (1 + np.abs(mdata).max()):
            ctx.violation(sub, "operators.tensor_product:" + typ, "history", "second call after the caller modified the first result differs from the model (%.3g): result cached / aliased" % maxabs(d2, mdata), case)
            return
        for l, bf in zip(leaves, before):
            if any(maxabs(x, y) != 0.0 for x, y in zip(arrays(l["obj"]), bf)):
                ctx.violation(sub, "operators.tensor_product:" + typ, "operand-changed", "an operand's array changed (product aliases operand data)", case)
                return
        impl = again
    # ---- property predicate on the implementation's output
    r = impl[1]
    inames = [e.name for e in r.composite_system.elemental_systems]
    if inames != sorted_names or [e.dim for e in r.composite_system.elemental_systems] != sdims:
        ctx.violation(sub, "composite_system.CompositeSystem", "not-sorted-by-name", "result subsystems %s, expected %s" % (inames, sorted_names), case)
        return
    Bc = [dense(b) for b in r.composite_system.basis()]
    if typ == "state":
        want = reorder(kron_all([leaves[i]["ops"] for i in order]), names, dims)
        have = r.to_density_matrix()
        if maxabs(have, want) > TOL:
            ctx.violation(sub, "operators._tensor_product_State_State", "not-kronecker-in-name-order", "density matrix differs from the rearranged Kronecker product, max dev %.3g" % maxabs(have, want), case)
        if not r.is_physical():
            ctx.violation(sub, "operators._tensor_product_State_State", "unphysical-product", "product of physical states is not physical", case)
    elif typ == "povm":
        nouts = [leaves[i]["rs"][0] for i in order]
        # expected shape: local outcome counts in ascending name order (elemental leaves)
        perleaf_name = [leaves[i]["names"][0] for i in order]
        so = sorted(range(len(order)), key=lambda k: perleaf_name[k])
        want_shape = [nouts[k] for k in so]
        if list(r.nums_local_outcomes) != want_shape:
            ctx.violation(sub, "operators._tensor_product_Povm_Povm", "nums-local-outcomes", "reported %s expected %s" % (r.nums_local_outcomes, want_shape), case)
            return
        rho_leaves = [rand_state(random.Random(1000 + i), int(np.prod(leaves[i]["dims"]))) for i in order]
        rho_tot = reorder(kron_all(rho_leaves), names, dims)
        bad = None
        for x in itertools.product(*[range(nn) for nn in want_shape]):
            xl = [0] * len(order)
            for pos, k in enumerate(so):
                xl[k] = x[pos]
            want = reorder(kron_all([leaves[i]["ops"][xl[kk]] for kk, i in enumerate(order)]), names, dims)
            have = op_of(r.vec(tuple(x)), Bc)
            p_want = float(np.prod([np.trace(leaves[i]["ops"][xl[kk]] @ rho_leaves[kk]).real for kk, i in enumerate(order)]))
            p_have = float(np.trace(have @ rho_tot).real)
            if maxabs(have, want) > TOL or abs(p_want - p_have) > TOL:
                bad = (x, maxabs(have, want), p_have, p_want)
                break
        if bad:
            ctx.violation(sub, "operators._tensor_product_Povm_Povm", "not-kronecker-in-name-order", "element at multi-index %s: max dev %.3g, probability %.6g expected %.6g" % bad, case)
        if not r.is_physical():
            ctx.violation(sub, "operators._tensor_product_Povm_Povm", "unphysical-product", "product of physical POVMs is not physical", case)
    else:
        bad = gate_pred(r.hs, Bc, [leaves[i]["ops"] for i in order], names, dims)
        if bad is not None:
            ctx.violation(sub, "operators._tensor_product_hs_hs", "not-factorwise-action", "product gate does not act factor-wise (max dev %.3g)" % bad, case)
        if all(sp.get("phys", True) for sp in case["leaves"]) and not r.is_physical():
            ctx.violation(sub, "operators._tensor_product_Gate_Gate", "unphysical-product", "product of physical gates is not physical", case)


def apply_kraus(Ks, X):
    return sum(K @ X @ K.conj().T for K in Ks)


def gate_pred(hs, Bc, kraus_per_leaf, names, dims, seeds=(11, 12, 13)):
    """HS matrix (w.r.t. the composite basis Bc, subsystems ascending) acts factor-wise: for product operators X = (x) X_k
    (leaf order), HS . vec(reorder X) = vec(reorder (x) G_k(X_k)). returns max deviation if it fails, else None"""
    worst = 0.0
    for s in seeds:
        rg = np.random.RandomState(s)
        Xs = []
        for Ks in kraus_per_leaf:
            d = Ks[0].shape[0]
            Xs.append(rg.randint(-3, 4, size=(d, d)) + 1j * rg.randint(-3, 4, size=(d, d)))
        X = reorder(kron_all(Xs), names, dims)
        Y = reorder(kron_all([apply_kraus(Ks, Xk) for Ks, Xk in zip(kraus_per_leaf, Xs)]), names, dims)
        v = np.array([np.trace(b.conj().T @ X) for b in Bc])
        out = op_of(np.asarray(hs) @ v, Bc)
        worst = max(worst, maxabs(out, Y))
    return worst if worst > 1e-8 else None


def gen_tree_cases(ctx, typ, nsys_list, count, sub=None, composite_leaf_prob=0.0):
    rng = ctx.rng
    cases = []
    for _ in range(count):
        n = rng.choice(nsys_list)
        if typ == "gate":
            dims = [2] * n if n == 3 else [rng.choice([2, 3]) for _ in range(n)]
            if n == 2 and dims == [3, 3] and ctx.quick:
                dims = [3, 2]
        else:
            dims = [rng.choice([2, 2, 3]) for _ in range(n)]
            if n == 4 and ctx.quick:
                dims = [2, 2, 2, rng.choice([2, 3])]; rng.shuffle(dims)
        # quara multiplies dense (prod d^2) x (prod d^2) permutation matrices once per swap: total dimension <= 27
        while int(np.prod(dims)) > 27:
            dims[dims.index(3)] = 2
        names = rng.sample(range(0, 12), n)
        nouts = rng.sample([2, 3, 4, 5] if n <= 3 else [1, 2, 3, 4], n)
        if typ == "povm" and n == 4 and 3 in dims:
            nouts = rng.sample([1, 2, 3], 3) + [2]
        leaves = []
        k = 0
        while k < n:
            if typ == "state" and k + 1 < n and rng.random() < composite_leaf_prob:
                pr = sorted([(names[k], dims[k]), (names[k + 1], dims[k + 1])])
                leaves.append({"names": [pr[0][0], pr[1][0]], "dims": [pr[0][1], pr[1][1]], "nout": 0, "seed": rng.randrange(10 ** 9)})
                k += 2
            else:
                leaves.append({"names": [names[k]], "dims": [dims[k]], "nout": nouts[k], "seed": rng.randrange(10 ** 9),
                               "layout": rng.choice(["C"] + LAYOUTS)})
                k += 1
        if len(leaves) < 2:
            continue
        trees = list(all_trees(list(range(len(leaves)))))
        t = rng.choice(trees)
        cases.append({"typ": typ, "sub": sub or typ, "leaves": leaves, "tree": t, "varargs": rng.random() < 0.8, "aslist": rng.random() < 0.3, "history": rng.random() < 0.4})
    return cases


def exhaustive_tree_cases(ctx, typ, dims, names_sorted, nouts, sub=None):
    """every permutation of the subsystem names over the argument positions and every grouping"""
    n = len(dims)
    cases = []
    base_seed = ctx.rng.randrange(10 ** 9)
    for perm in itertools.permutations(range(n)):
        leaves = [{"names": [names_sorted[p]], "dims": [dims[p]], "nout": nouts[p], "seed": base_seed + p, "layout": LAYOUTS[(p + len(cases)) % 6]} for p in perm]
        for t in all_trees(list(range(n))):
            cases.append({"typ": typ, "sub": sub or typ, "leaves": leaves, "tree": t, "varargs": True, "history": len(cases) % 3 == 0})
    return cases


def sub_state(ctx):
    cases = exhaustive_tree_cases(ctx, "state", [2, 3, 2], [1, 4, 6], [0, 0, 0])
    cases += exhaustive_tree_cases(ctx, "state", [2, 2, 2, 2], [0, 2, 3, 7], [0] * 4)[:: (12 if ctx.quick else 1)]
    if not ctx.quick:
        cases += exhaustive_tree_cases(ctx, "state", [2, 3, 2, 2], [0, 2, 3, 7], [0] * 4)
        cases += exhaustive_tree_cases(ctx, "state", [3, 2, 3], [1, 4, 6], [0, 0, 0])
    cases += gen_tree_cases(ctx, "state", [2, 3, 3, 4], ctx.n(14, 300), composite_leaf_prob=0.25)
    if not ctx.quick:
        # five subsystems at object level (quara needs ~1 minute for the 5-qubit composite basis): one left chain, names out of order
        cases.append({"typ": "state", "sub": "state", "tree": [[[[0, 1], 2], 3], 4], "varargs": True,
                      "leaves": [{"names": [nm], "dims": [2], "nout": 0, "seed": 77 + nm} for nm in (6, 1, 9, 0, 4)]})
    ctx.sample("state", cases[7])
    ctx.run_cases("state", chk_tree, cases)


def sub_povm(ctx):
    cases = exhaustive_tree_cases(ctx, "povm", [2, 3, 2], [1, 4, 6], [2, 3, 4])[:: (2 if ctx.quick else 1)]
    if not ctx.quick:
        cases += exhaustive_tree_cases(ctx, "povm", [2, 2, 2, 2], [0, 2, 3, 7], [1, 2, 3, 4])
        cases += exhaustive_tree_cases(ctx, "povm", [3, 2, 2], [1, 4, 6], [3, 5, 2])
    cases += gen_tree_cases(ctx, "povm", [2, 3, 3, 4] if not ctx.quick else [2, 3, 3], ctx.n(8, 150))
    if ctx.quick:
        cases += exhaustive_tree_cases(ctx, "povm", [2, 2, 2, 2], [0, 2, 3, 7], [1, 2, 3, 4])[3::17]
    ctx.sample("povm", cases[7])
    ctx.run_cases("povm", chk_tree, cases)


def sub_gate(ctx):
    # three-qubit products: quara's own CP check of every intermediate result costs ~4 s each, so most of them are built with
    # is_physicality_required=False (the factor-wise-action predicate below implies complete positivity of the result)
    c3 = exhaustive_tree_cases(ctx, "gate", [2, 2, 2], [1, 4, 6], [0, 0, 0])
    for k, c in enumerate(c3):
        if ctx.quick or k % 4:
            c["leaves"] = [dict(sp, phys=False) for sp in c["leaves"]]
    cases = c3[:: (12 if ctx.quick else 1)]
    cases += exhaustive_tree_cases(ctx, "gate", [2, 3], [5, 2], [0, 0])[:: (2 if ctx.quick else 1)]
    cases += gen_tree_cases(ctx, "gate", [2, 2, 3] if not ctx.quick else [2], ctx.n(2, 40))
    ctx.sample("gate", cases[2])
    ctx.run_cases("gate", chk_tree, cases)


# ------------------------------------------------------------------ sub-check: MProcess products (layout vs shape)
def model_hs_product(ctx, a, b, mode=0):
    """a, b: dicts names/rs/cs/data (HS matrices) -> ('ok', names, rs, cs, M) by the model"""
    zs = [2, mode, FUEL, 1, 0, len(a["names"])] + a["names"] + a["rs"] + a["cs"] + [0, len(b["names"])] + b["names"] + b["rs"] + b["cs"]
    st, val = ctx.get_model().try_call("c07.eval", zs, list(a["data"]) + list(b["data"]))
    if st == "err":
        return ("err", val)
    k = int(val[0])
    names = [int(x) for x in val[1:1 + k]]; rs = [int(x) for x in val[1 + k:1 + 2 * k]]; cs = [int(x) for x in val[1 + 2 * k:1 + 3 * k]]
    return ("ok", names, rs, cs, val[1 + 3 * k:])


def chk_mprocess(ctx, case):
    """binary products among Gate / MProcess operands (all accepted pairs); [kinds] = ('g'|'m', 'g'|'m') not both 'g'"""
    from quara.objects.operators import tensor_product
    kinds = case["kinds"]
    leaves = [make_leaf("gate" if k == "g" else "mprocess", sp) for k, sp in zip(kinds, case["leaves"])]
    a, b = leaves
    impl = run_impl(lambda: tensor_product(a["obj"], b["obj"]))
    n1 = a.get("nout", 1); n2 = b.get("nout", 1)
    names = a["names"] + b["names"]; dims = a["dims"] + b["dims"]
    ctx.count("mprocess", key=repr(case), nontrivial=(n1 != n2 and "g" not in kinds) or names != sorted(names),
              label="%s%s-%dx%d-%s" % (kinds[0], kinds[1], n1, n2, "ok" if impl[0] == "ok" else "raise"))
    if impl[0] == "err":
        ctx.violation("mprocess", "operators.tensor_product:mprocess", "unexpected-raise", "%s %s" % impl[1:], case)
        return
    r = impl[1]
    hss1 = a["hss"] if kinds[0] == "m" else [a["hs"]]
    hss2 = b["hss"] if kinds[1] == "m" else [b["hs"]]
    ops1 = a["ops"] if kinds[0] == "m" else [a["ops"]]
    ops2 = b["ops"] if kinds[1] == "m" else [b["ops"]]
    # ---- model of the repaired code: pair of outcomes stored at each serial position, each slot the HS product
    def slots_of(mode):
        v = [int(x) for x in ctx.get_model().call("c07.mp_slots", [mode, n1, n2])]
        return [(v[2 * s], v[2 * s + 1]) for s in range(n1 * n2)]
    slots = slots_of(MODE)
    want_shape = ((n1,) if kinds[0] == "m" else ()) + ((n2,) if kinds[1] == "m" else ())
    if tuple(r.shape) != want_shape or len(r.hss) != n1 * n2:
        ctx.violation("mprocess", "operators.tensor_product:mprocess", "model-mismatch", "shape %s / %d matrices, model %s / %d" % (r.shape, len(r.hss), want_shape, n1 * n2), case)
        return
    prods = {}
    for i1 in range(n1):
        for i2 in range(n2):
            ma = {"names": a["names"], "rs": a["rs"], "cs": a["cs"], "data": [float(x) for x in hss1[i1].ravel()]}
            mb_ = {"names": b["names"], "rs": b["rs"], "cs": b["cs"], "data": [float(x) for x in hss2[i2].ravel()]}
            mod = model_hs_product(ctx, ma, mb_, MODE)
            if mod[0] != "ok":
                ctx.violation("mprocess", "model", "model-error", "repaired model returns error %s" % (mod[1],), case)
                return
            prods[(i1, i2)] = np.array([float(x) for x in mod[4]]).reshape(r.hss[0].shape)

    def layout_is(sl):
        return all(maxabs(r.hss[s], prods[sl[s]]) <= TOL * (1 + np.abs(prods[sl[s]]).max()) for s in range(n1 * n2))
    corr_ok = layout_is(slots)
    # ---- property: hs(multi-index) per the reported shape is the product of the operands' outcomes, factor-wise action
    Bc = [dense(x) for x in r.composite_system.basis()]
    inames = [e.name for e in r.composite_system.elemental_systems]
    if inames != sorted(names):
        ctx.violation("mprocess", "composite_system.CompositeSystem", "not-sorted-by-name", "result subsystems %s" % inames, case)
        return
    worst = None
    for i1 in range(n1):
        for i2 in range(n2):
            idx = ((i1,) if kinds[0] == "m" else ()) + ((i2,) if kinds[1] == "m" else ())
            bad = gate_pred(r.hs(idx), Bc, [ops1[i1], ops2[i2]], names, dims, seeds=(21,))
            if bad is not None and worst is None:
                worst = (idx, bad)
    if worst is not None:
        # the defect repaired by fixes/C07-mprocess-tensor-outcome-layout: every matrix is the right product, stored column-major
        if kinds == ["m", "m"] and layout_is(slots_of(0)):
            site, sig = SITE_MP, SIG_MP
        else:
            site, sig = "operators.tensor_product:" + "".join(kinds), "not-factorwise-action"
        ctx.violation("mprocess", site, sig, "hs(%s) of the product (reported shape %s) is not the product of the operands' outcomes %s (max dev %.3g)" % (worst[0], tuple(r.shape), worst[0], worst[1]), case)
    elif not corr_ok:
        ctx.violation("mprocess", "operators.tensor_product:mprocess", "model-mismatch", "HS matrices differ from the model's although the factor-wise probe passes", case)
    if all(sp.get("phys", True) for sp in case["leaves"]) and not r.is_physical():
        ctx.violation("mprocess", "operators.tensor_product:mprocess", "unphysical-product", "product of physical instruments is not physical", case)


def chk_mchain(ctx, case):
    from quara.objects.operators import tensor_product
    kinds, names, nest = case["chain"], case["names"], case["nest"]
    leaves = [make_leaf("gate" if k == "g" else "mprocess", {"names": [nm], "dims": [2], "nout": no, "seed": sd, "phys": False})
              for k, nm, no, sd in zip(kinds, names, case["nouts"], case["seeds"])]
    objs = [l["obj"] for l in leaves]
    if nest == "varargs":
        call = lambda: tensor_product(*objs)
    elif nest == "left":
        call = lambda: tensor_product(tensor_product(objs[0], objs[1]), objs[2])
    else:
        call = lambda: tensor_product(objs[0], tensor_product(objs[1], objs[2]))
    impl = run_impl(call)
    ctx.count("mprocess", key=repr(case), nontrivial=True, label="chain-%s-%s-%s" % ("".join(kinds), nest, impl[0]))
    if impl[0] == "err":
        ctx.violation("mprocess", "operators.tensor_product:chain", "unexpected-raise", "%s %s" % impl[1:], case)
        return
    r = impl[1]
    shapes = [(l["nout"],) if k == "m" else () for k, l in zip(kinds, leaves)]
    want_shape = tuple(x for sh in shapes for x in sh)
    if tuple(r.shape) != want_shape:
        ctx.violation("mprocess", "operators.tensor_product:chain", "shape-not-argument-order", "reported shape %s, operands' shapes in argument order %s" % (tuple(r.shape), want_shape), case)
        return
    Bc = [dense(x) for x in r.composite_system.basis()]
    dims = [2, 2, 2]
    tree = [[0, 1], 2]
    for idx in itertools.product(*[range(n) for n in want_shape]):
        it = iter(idx)
        sel = [next(it) if k == "m" else None for k in kinds]
        ops = [l["ops"][x] if k == "m" else l["ops"] for k, l, x in zip(kinds, leaves, sel)]
        hs_sel = [l["hss"][x] if k == "m" else l["hs"] for k, l, x in zip(kinds, leaves, sel)]
        mleaves = [{"names": [nm], "rs": [4], "cs": [4], "data": [float(v) for v in h.ravel()]} for nm, h in zip(names, hs_sel)]
        mod = model_eval(ctx, 2, MODE, tree, mleaves)
        have = r.hs(tuple(idx)) if len(idx) > 1 else r.hs(int(idx[0]))
        if mod[0] != "ok" or maxabs(have, mod[4]) > TOL * (1 + np.abs(mod[4]).max()):
            ctx.violation("mprocess", "operators.tensor_product:chain", "model-mismatch", "hs(%s) of the chain differs from the model's product of the indexed outcomes" % (idx,), case)
            return
        bad = gate_pred(have, Bc, ops, names, dims, seeds=(31,))
        if bad is not None:
            ctx.violation("mprocess", "operators.tensor_product:chain", "not-factorwise-action", "hs(%s) of the chain (shape %s) does not act as the product of the indexed outcomes (%.3g)" % (idx, want_shape, bad), case)
            return


def sub_mprocess(ctx):
    rng = ctx.rng
    cases = []
    combos = [["m", "m"], ["m", "m"], ["g", "m"], ["m", "g"]]
    for i in range(ctx.n(10, 80)):
        kinds = combos[i % 4]
        d = [2, 2] if (ctx.quick or rng.random() < 0.7) else [rng.choice([2, 3]), 2]
        names = rng.sample(range(0, 9), 2)
        nouts = rng.sample([2, 3, 4], 2)
        if i % 8 == 1:
            nouts = [2, 2]            # equal counts: the layout defect is invisible in the shape
        cases.append({"kinds": kinds, "leaves": [{"names": [names[k]], "dims": [d[k]], "nout": nouts[k], "seed": rng.randrange(10 ** 9), "phys": i % 3 == 0,
                                                  "layout": LAYOUTS[(i + 2 * k) % 6]} for k in range(2)]})
    ctx.sample("mprocess", cases[0])
    ctx.run_cases("mprocess", chk_mprocess, cases)
    # chains of three operands (varargs and both nestings): the reported shape is the concatenation in ARGUMENT order, also when an
    # operand already has a multi-dimensional shape, and hs(multi-index) is the product of the indexed outcomes
    chains = []
    pats = [["m", "m", "m"], ["m", "m", "g"], ["g", "m", "m"], ["m", "g", "m"]]
    for i in range(ctx.n(2, 16) if not getattr(ctx, "widen", False) else 16):
        names = rng.sample(range(0, 9), 3)
        chains.append({"chain": pats[i % 4], "nest": ["varargs", "left", "right", "left"][i % 4] if i < 4 else ["varargs", "left", "right"][i % 3], "names": names,
                       "nouts": rng.sample([2, 3, 2, 4], 3) if i % 2 else [2, 3, 2], "seeds": [rng.randrange(10 ** 9) for _ in range(3)]})
    if not ctx.quick:
        # every ORDER of three instruments with pairwise different outcome counts (fold order / argument order), each nesting
        base = {"names": [5, 1, 3], "nouts": [2, 3, 4], "seeds": [rng.randrange(10 ** 9) for _ in range(3)]}
        for k, perm in enumerate(itertools.permutations(range(3))):
            chains.append({"chain": ["m", "m", "m"], "nest": ["varargs", "left", "right"][k % 3], "names": [base["names"][q] for q in perm],
                           "nouts": [base["nouts"][q] for q in perm], "seeds": [base["seeds"][q] for q in perm]})
    ctx.run_cases("mprocess", chk_mchain, chains)


# ------------------------------------------------------------------ sub-check: ensembles, bases, rejected type pairs
def chk_misc(ctx, case):
    from quara.objects.operators import tensor_product
    from quara.objects.state_ensemble import StateEnsemble
    from quara.objects.multinomial_distribution import MultinomialDistribution as MD
    from quara.objects.matrix_basis import MatrixBasis, SparseMatrixBasis
    from scipy import sparse
    kind = case["kind"]
    rng = random.Random(case["seed"])
    if kind == "ensemble":
        names = case["names"]; dims = case["dims"]; shapes = case["shapes"]
        ens = []
        for nm, d, shp in zip(names, dims, shapes):
            cnt = int(np.prod(shp)) if shp else 1
            sts = [make_leaf("state", {"names": [nm], "dims": [d], "nout": 0, "seed": rng.randrange(10 ** 9)}) for _ in range(cnt)]
            w = [Fraction(rng.randint(1, 9)) for _ in range(cnt)]
            ps = [float(x / sum(w)) for x in w]
            if shp:
                ens.append(("e", sts, ps, StateEnsemble([s["obj"] for s in sts], MD(np.array(ps), shape=tuple(shp))), shp))
            else:
                ens.append(("s", sts, [1.0], sts[0]["obj"], []))
        a, b = ens
        impl = run_impl(lambda: tensor_product(a[3], b[3]))
        ctx.count("misc", key=repr(case), nontrivial=True, label="ensemble-%s%s" % (a[0], b[0]))
        if impl[0] == "err":
            ctx.violation("misc", "operators.tensor_product:ensemble", "unexpected-raise", "%s %s" % impl[1:], case)
            return
        r = impl[1]
        n1, n2 = len(a[1]), len(b[1])
        want_shape = tuple(a[4]) + tuple(b[4])
        pm = [float(x) for x in ctx.get_model().call("c07.tp_probs", [n1, n2], a[2] + b[2])]
        if tuple(r.prob_dist.shape) != want_shape or maxabs(np.array(r.prob_dist.ps), np.array(pm)) > 1e-12:
            ctx.violation("misc", "operators._tensor_product_StateEnsemble_StateEnsemble", "model-mismatch", "shape %s ps differ from model" % (r.prob_dist.shape,), case)
            return
        sn = sorted(names); order = sorted(range(2), key=lambda k: names[k])
        for i in range(n1):
            for j in range(n2):
                idx = tuple(np.unravel_index(i, a[4])) + tuple(np.unravel_index(j, b[4])) if (a[4] or b[4]) else ()
                idx = tuple(int(x) for x in idx)
                st = r.state(idx) if len(idx) > 1 else r.state(int(idx[0]) if idx else 0)
                p = r.prob_dist[idx] if len(idx) > 1 else r.prob_dist[int(idx[0]) if idx else 0]
                want = reorder(np.kron(a[1][i]["ops"], b[1][j]["ops"]), names, dims)
                if maxabs(st.to_density_matrix(), want) > TOL or abs(p - a[2][i] * b[2][j]) > 1e-12:
                    ctx.violation("misc", "operators._tensor_product_StateEnsemble_StateEnsemble", "layout", "entry %s of the product ensemble is not (state %d (x) state %d, p_i p_j)" % (idx, i, j), case)
                    return
    elif kind == "ensemble3":
        # ensemble (x) state (x) ensemble and nestings: shape = concatenation in argument order, entries = products
        names = case["names"]; shapes = case["shapes"]
        parts = []
        for nm, shp in zip(names, shapes):
            cnt = int(np.prod(shp)) if shp else 1
            sts = [make_leaf("state", {"names": [nm], "dims": [2], "nout": 0, "seed": rng.randrange(10 ** 9)}) for _ in range(cnt)]
            w = [Fraction(rng.randint(1, 9)) for _ in range(cnt)]
            ps = [float(x / sum(w)) for x in w]
            obj = StateEnsemble([s_["obj"] for s_ in sts], MD(np.array(ps), shape=tuple(shp))) if shp else sts[0]["obj"]
            parts.append((sts, ps if shp else [1.0], obj, list(shp)))
        objs = [p_[2] for p_ in parts]
        call = {"varargs": lambda: tensor_product(*objs), "left": lambda: tensor_product(tensor_product(objs[0], objs[1]), objs[2]),
                "right": lambda: tensor_product(objs[0], tensor_product(objs[1], objs[2]))}[case["nest"]]
        impl = run_impl(call)
        ctx.count("misc", key=repr(case), nontrivial=True, label="ensemble-chain-%s" % case["nest"])
        if impl[0] == "err":
            ctx.violation("misc", "operators.tensor_product:ensemble-chain", "unexpected-raise", "%s %s" % impl[1:], case)
            return
        r = impl[1]
        want_shape = tuple(x for p_ in parts for x in p_[3])
        if tuple(r.prob_dist.shape) != want_shape:
            ctx.violation("misc", "operators.tensor_product:ensemble-chain", "shape-not-argument-order", "shape %s expected %s" % (tuple(r.prob_dist.shape), want_shape), case)
            return
        for combo in itertools.product(*[range(len(p_[0])) for p_ in parts]):
            idx = tuple(int(v) for p_, c in zip(parts, combo) if p_[3] for v in np.unravel_index(c, p_[3]))
            st = r.state(idx) if len(idx) > 1 else r.state(int(idx[0]))
            p = r.prob_dist[idx] if len(idx) > 1 else r.prob_dist[int(idx[0])]
            want = reorder(kron_all([p_[0][c]["ops"] for p_, c in zip(parts, combo)]), names, [2, 2, 2])
            pw = float(np.prod([p_[1][c] for p_, c in zip(parts, combo)]))
            if maxabs(st.to_density_matrix(), want) > TOL or abs(p - pw) > 1e-12:
                ctx.violation("misc", "operators.tensor_product:ensemble-chain", "layout", "entry %s is not the product of the indexed states / probabilities" % (idx,), case)
                return
    elif kind == "basis":
        d1, d2 = case["dims"]
        b1, b2 = qbasis(d1)[0], qbasis(d2)[0]
        if case.get("dense"):
            b1 = MatrixBasis([dense(x) for x in b1]); b2 = MatrixBasis([dense(x) for x in b2])
        else:
            b1 = SparseMatrixBasis([sparse.csr_matrix(dense(x)) for x in b1]); b2 = SparseMatrixBasis([sparse.csr_matrix(dense(x)) for x in b2])
        r = tensor_product(b1, b2)
        ctx.count("misc", key=repr(case), nontrivial=True, label="basis")
        want = [np.kron(x, y) for x in qbasis(d1)[1] for y in qbasis(d2)[1]]
        if len(r) != len(want) or any(maxabs(dense(x), w) > 1e-14 for x, w in zip(r, want)):
            ctx.violation("misc", "operators._tensor_product:MatrixBasis", "not-kronecker", "basis product is not the list of Kronecker products (first index major)", case)
        # CompositeSystem builds its basis the same way, in ascending name order
        e1, e2 = esys(case["names"][0], d1), esys(case["names"][1], d2)
        c = csys([e1, e2])
        o = sorted([(case["names"][0], d1), (case["names"][1], d2)])
        wantc = [np.kron(x, y) for x in qbasis(o[0][1])[1] for y in qbasis(o[1][1])[1]]
        if any(maxabs(dense(x), w) > 1e-14 for x, w in zip(c.basis(), wantc)):
            ctx.violation("misc", "composite_system.CompositeSystem", "basis-order", "composite basis is not the product basis in ascending name order", case)
    elif kind == "types":
        ta, tb = case["pair"]
        la = make_leaf(ta, {"names": [0], "dims": [2], "nout": 2, "seed": 1})
        lb = make_leaf(tb, {"names": [1], "dims": [2], "nout": 3, "seed": 2})
        impl = run_impl(lambda: tensor_product(la["obj"], lb["obj"]))
        ctx.count("misc", key=repr(case), nontrivial=False, label="rejected-pair")
        if impl[0] != "err" or impl[1] != "TypeError":
            ctx.violation("misc", "operators._tensor_product", "error-kind", "unsupported pair (%s, %s) must raise TypeError, got %s" % (ta, tb, impl[:2]), case)
    elif kind == "typepairs":
        # all 49 ORDERED pairs of operand types: accepted exactly where the model's dispatch table (= operators._tensor_product as
        # regenerated from the source, coq/gen/C07_Equiv2.v) accepts, TypeError otherwise; the result has the type the table names
        sa, sb = make_leaf("state", {"names": [0], "dims": [2], "nout": 2, "seed": 1}), make_leaf("state", {"names": [1], "dims": [2], "nout": 2, "seed": 2})
        def objs(nm, sd):
            st = [make_leaf("state", {"names": [nm], "dims": [2], "nout": 0, "seed": sd + k}) for k in range(2)]
            return [make_leaf("gate", {"names": [nm], "dims": [2], "nout": 2, "seed": sd})["obj"],
                    make_leaf("mprocess", {"names": [nm], "dims": [2], "nout": 2, "seed": sd})["obj"],
                    SparseMatrixBasis([sparse.csr_matrix(dense(x)) for x in qbasis(2)[0]]), MatrixBasis([dense(x) for x in qbasis(2)[0]]), st[0]["obj"],
                    StateEnsemble([x["obj"] for x in st], MD(np.array([0.25, 0.75]), shape=(2,))),
                    make_leaf("povm", {"names": [nm], "dims": [2], "nout": 2 + nm, "seed": sd})["obj"]]
        A, B = objs(0, 11), objs(1, 23)
        tnames = ["Gate", "MProcess", "SparseMatrixBasis", "MatrixBasis", "State", "StateEnsemble", "Povm"]
        restype = {0: "Gate", 1: "MProcess", 2: "MProcess", 3: "MProcess", 4: "State", 5: "StateEnsemble", 6: "Povm", 10: "SparseMatrixBasis",
                   11: "MatrixBasis", 20: "StateEnsemble", 21: "StateEnsemble"}
        for i in range(7):
            for j in range(7):
                act = int(ctx.get_model().call("c07.tp_dispatch", [i, j])[0])
                impl = run_impl(lambda: tensor_product(A[i], B[j]))
                ctx.count("misc", key=("typepair", i, j), nontrivial=act >= 0, label="typepair-%s" % ("accepted" if act >= 0 else "rejected"))
                if act < 0:
                    if impl[0] != "err" or impl[1] != "TypeError":
                        ctx.violation("misc", "operators._tensor_product", "error-kind", "unsupported pair (%s, %s) must raise TypeError, got %s" % (tnames[i], tnames[j], impl[:2]), case)
                elif impl[0] != "ok" or type(impl[1]).__name__ != restype[act]:
                    ctx.violation("misc", "operators._tensor_product", "dispatch", "pair (%s, %s): model action %d (%s), implementation %s" % (
                        tnames[i], tnames[j], act, restype[act], impl[1:] if impl[0] == "err" else type(impl[1]).__name__), case)
    elif kind == "arity":
        la = make_leaf("state", {"names": [0], "dims": [2], "nout": 2, "seed": 1})
        ctx.count("misc", key=repr(case), nontrivial=False, label="arity")
        for args in ([la["obj"]], [[la["obj"]]], []):
            impl = run_impl(lambda: tensor_product(*args))
            if impl[0] != "err" or impl[1] != "ValueError":
                ctx.violation("misc", "operators._to_list", "error-kind", "fewer than two operands must raise ValueError, got %s" % (impl[:2],), case)
    elif kind == "dupname":
        typ = case["typ"]
        la = make_leaf(typ, {"names": [3], "dims": [2], "nout": 2, "seed": 1})
        lb = make_leaf(typ, {"names": [3], "dims": [2], "nout": 3, "seed": 2})
        impl = run_impl(lambda: tensor_product(la["obj"], lb["obj"]))
        mod = model_eval(ctx, KIND[typ], MODE, [0, 1], [la, lb])
        ctx.count("misc", key=repr(case), nontrivial=False, label="duplicate-name")
        if not (impl[0] == "err" and impl[1] == "ValueError" and mod == ("err", 3)):
            ctx.violation("misc", "composite_system.CompositeSystem", "error-kind", "duplicate subsystem name must raise ValueError (model code 3): impl %s model %s" % (impl[:2], mod[:2]), case)


def sub_misc(ctx):
    rng = ctx.rng
    cases = []
    for i in range(ctx.n(8, 60)):
        shapes = [[[], [3]], [[2], []], [[2], [3]], [[2, 2], [3]], [[3], [2, 2]]][i % 5]
        names = rng.sample(range(8), 2)
        cases.append({"kind": "ensemble", "names": names, "dims": [rng.choice([2, 3]), 2], "shapes": shapes, "seed": rng.randrange(10 ** 9)})
    for d1, d2, dn in [(2, 3, False), (3, 2, True), (2, 2, False)]:
        cases.append({"kind": "basis", "dims": [d1, d2], "names": [5, 2], "dense": dn, "seed": 0})
    for pair in [("state", "povm"), ("povm", "state"), ("gate", "state"), ("state", "gate"), ("povm", "gate"), ("mprocess", "povm"), ("state", "mprocess")]:
        cases.append({"kind": "types", "pair": list(pair), "seed": 0})
    for typ in ("state", "povm", "gate"):
        cases.append({"kind": "dupname", "typ": typ, "seed": 0})
    cases.append({"kind": "arity", "seed": 0})
    cases.append({"kind": "typepairs", "seed": 0})
    for i in range(ctx.n(3, 12)):
        shp = [[[2], [], [3]], [[2], [3], [2]], [[], [2, 2], [3]], [[3], [2], []]][i % 4]
        cases.append({"kind": "ensemble3", "names": rng.sample(range(8), 3), "shapes": shp, "nest": ["varargs", "left", "right"][i % 3], "seed": rng.randrange(10 ** 9)})
    ctx.sample("misc", cases[0])
    ctx.run_cases("misc", chk_misc, cases)


# ------------------------------------------------------------------ sub-check: embedding qutrits -> qubits
def model_embed(ctx, nq, c, M, spec=0):
    from common.model import cflat, to_c
    val = ctx.get_model().call("c07.embed_mat", [nq, spec], [float(np.real(c)), float(np.imag(c))] + cflat(M))
    n4 = 4 ** nq
    return np.array(to_c(val)).reshape(n4, n4)


def psd_cert(ctx, H, shift):
    """exact PSD decision of herm(H) + shift I by the verified procedure; None when the shared ops are not loaded (dev mode without Core)"""
    from common import qcheck
    from common.model import ModelError
    try:
        return qcheck.herm_psd(ctx, H, shift)
    except ModelError as e:
        if e.code == 999 or e.code == -999:
            return None
        raise


def chk_embed(ctx, case):
    from quara.objects.qoperation import QOperation
    typ, nq = case["typ"], case["nq"]
    n3, n4 = 3 ** nq, 4 ** nq
    m = ctx.get_model()
    spec = {"names": list(range(nq)), "dims": [3] * nq, "nout": case.get("nout", 2), "seed": case["seed"],
            "ranks": case.get("ranks"), "nkraus": case.get("nkraus")}
    leaf = make_leaf(typ, spec)
    es = [esys(nm, 2) for nm in case["qubit_names"]]
    # the permutation matrix first (model: emb_perm; its index loop is also regenerated from the source, coq/gen/C07_Equiv2.v)
    pi = [int(x) for x in m.call("c07.embed_perm", [nq])]
    Pm = np.zeros((n4, n4)); Pm[np.arange(n4), pi] = 1
    if not np.array_equal(QOperation._permutation_matrix_from_qutrits_to_qubits(nq), Pm):
        ctx.count("embed", key=repr(case), nontrivial=True, label="perm-matrix-mismatch")
        ctx.violation("embed", "qoperation._permutation_matrix_from_qutrits_to_qubits", "model-mismatch", "permutation differs from the model for %d qutrits" % nq, case)
        return
    impl = run_impl(lambda: QOperation.embed_qoperation_from_qutrits_to_qubits(leaf["obj"], es))
    raised_unphysical = None
    if impl[0] == "err" and impl[1] == "ValueError" and "physical" in impl[2] and len(es) == 2 * nq and typ in ("gate", "mprocess"):
        # the constructor of the embedded object rejected it: embed a copy that does not insist on physicality so that the
        # physicality predicates below can say WHAT is wrong with the embedded object
        raised_unphysical = impl[2]
        leaf = make_leaf(typ, dict(spec, phys=False))
        impl = run_impl(lambda: QOperation.embed_qoperation_from_qutrits_to_qubits(leaf["obj"], es))
    rk = ""
    if typ == "mprocess":
        rs_ = [len(g) for g in leaf["ops"]]
        rk = "-rank1" if max(rs_) == 1 else ("-rank>=2" if len(set(rs_)) == 1 else "-ranks-unequal")
    elif typ == "gate":
        rk = "-kraus%d" % len(leaf["ops"])
    ctx.count("embed", key=repr(case), nontrivial=len(es) == 2 * nq, label="%s-%dqutrit%s-%s" % (typ, nq, rk, impl[0]))
    if len(es) != 2 * nq:
        if impl[0] != "err" or impl[1] != "ValueError":
            ctx.violation("embed", "qoperation.embed_qoperation_from_qutrits_to_qubits", "error-kind", "wrong number of qubit systems must raise ValueError, got %s" % (impl[:2],), case)
        return
    if impl[0] == "err":
        ctx.violation("embed", "qoperation.embed_qoperation_from_qutrits_to_qubits", "unexpected-raise", "%s %s" % impl[1:], case)
        return
    r = impl[1]
    Bq = [dense(b) for b in r.composite_system.basis()]
    B3 = [dense(b) for b in leaf["obj"].composite_system.basis()]
    rng = random.Random(case["seed"] + 17)
    rho_in = rand_state(rng, n3)
    rho_emb = model_embed(ctx, nq, 0.0, rho_in)
    site = "%s._embed_qoperation_from_qutrits_to_qubits" % typ
    if typ == "state":
        want = model_embed(ctx, nq, 0.0, leaf["ops"])
        if nq == 1 and maxabs(want, model_embed(ctx, nq, 0.0, leaf["ops"], spec=1)) != 0.0:
            ctx.violation("embed", "model", "spec-vs-fast-model", "matrix-level and index-map embedding differ", case)
        have = r.to_density_matrix()
        if maxabs(have, want) > TOL:
            ctx.violation("embed", site, "model-mismatch", "embedded density matrix differs from the model (%.3g)" % maxabs(have, want), case)
            return
        # property: physical, trace one, statistics of any qutrit measurement on it are those of the original state
        cert = psd_cert(ctx, have, 1e-11) if nq == 1 or not ctx.quick else True
        if abs(np.trace(have) - 1) > TOL or not r.is_physical() or cert is False:
            ctx.violation("embed", site, "unphysical-embedding", "embedded state not physical: trace %s, is_physical %s, exact PSD(+1e-11) %s" % (np.trace(have), r.is_physical(), cert), case)
        Es = [K.conj().T @ K for K in rand_kraus(rng, n3, 3)]
        for E in Es:
            Eemb = model_embed(ctx, nq, 1.0 / 3, E)
            if abs(np.trace(Eemb @ have) - np.trace(E @ leaf["ops"])) > TOL:
                ctx.violation("embed", site, "statistics", "probability of an embedded POVM element on the embedded state differs from the qutrit one", case)
                break
    elif typ == "povm":
        nout = len(leaf["ops"])
        bad = None
        tot = np.zeros((n4, n4), dtype=complex)
        for x, E in enumerate(leaf["ops"]):
            want = model_embed(ctx, nq, 1.0 / nout, E)
            have = op_of(r.vecs[x], Bq)
            tot += have
            if maxabs(have, want) > TOL and bad is None:
                bad = (x, maxabs(have, want))
            if abs(np.trace(have @ rho_emb) - np.trace(E @ rho_in)) > TOL:
                ctx.violation("embed", site, "statistics", "probability of embedded element %d on an embedded state differs from the qutrit one" % x, case)
                break
            if (nq == 1 or not ctx.quick) and psd_cert(ctx, have, 1e-11) is False:
                ctx.violation("embed", site, "unphysical-embedding", "embedded POVM element %d is not PSD" % x, case)
                break
        if bad:
            ctx.violation("embed", site, "model-mismatch", "embedded element %d differs from the model (%.3g)" % bad, case)
            return
        if maxabs(tot, np.eye(n4)) > TOL or not r.is_physical():
            ctx.violation("embed", site, "unphysical-embedding", "embedded POVM does not sum to the identity / is_physical False", case)
    else:
        groups_mine = [leaf["ops"]] if typ == "gate" else leaf["ops"]
        if typ == "gate":
            groups_impl = [leaf["obj"].to_kraus_matrices()]; hss_in = [leaf["obj"].hs]; hss_out = [r.hs]
        else:
            groups_impl = [leaf["obj"].to_kraus_matrices(x) for x in range(len(leaf["hss"]))]; hss_in = leaf["obj"].hss; hss_out = r.hss
            if tuple(r.shape) != tuple(leaf["obj"].shape):
                ctx.violation("embed", site, "shape", "shape changed: %s -> %s" % (leaf["obj"].shape, r.shape), case)
        # certificate for the eigendecomposition kernel: the implementation's Kraus sets reproduce the HS matrices
        for Ks, hs in zip(groups_impl, hss_in):
            if maxabs(hs_of_kraus(Ks, B3), hs) > 1e-8:
                ctx.violation("embed", "gate.to_kraus_matrices_from_hs", "kraus-certificate", "Kraus set does not reproduce the HS matrix (%.3g)" % maxabs(hs_of_kraus(Ks, B3), hs), case)
                return
        # ---- physicality of the embedded map, evaluated on the implementation's OUTPUT (independent of the model and of quara's verdicts):
        # sum-TP <=> first row of sum_x HS_x is e_0 (B_0 = I / sqrt(dim)); CP per outcome by the exact PSD decision on its Choi matrix
        S_out = sum(np.asarray(h) for h in hss_out)
        row0 = np.zeros(len(Bq)); row0[0] = 1.0
        tp_dev = maxabs(S_out[0, :], row0)
        cp_bad = None
        if nq == 1 and (case.get("cert", False) or raised_unphysical):
            for x, h in enumerate(hss_out):
                choi = sum(h[a, b] * np.kron(Bq[a], Bq[b].conj()) for a in range(len(Bq)) for b in range(len(Bq)))
                if psd_cert(ctx, choi, 1e-10) is False:
                    cp_bad = x
                    break
        if tp_dev > 1e-8 or cp_bad is not None or raised_unphysical:
            ctx.violation("embed", site, "unphysical-embedding",
                          "embedding of a physical qutrit %s with Kraus ranks %s per outcome is not physical: sum-TP deviation %.3g, outcome with non-PSD Choi %s, constructor %s"
                          % (typ, [len(g) for g in groups_mine], tp_dev, cp_bad, ("raised: " + raised_unphysical[:60]) if raised_unphysical else "accepted"), case)
            return
        c = 1.0 / np.sqrt(sum(len(Ks) for Ks in groups_impl))
        tp_sum = np.zeros((n4, n4), dtype=complex)
        for x, (Ks, hs_o) in enumerate(zip(groups_impl, hss_out)):
            Kemb = [model_embed(ctx, nq, c, K) for K in Ks]
            tp_sum += sum(K.conj().T @ K for K in Kemb)
            want = hs_of_kraus(Kemb, Bq)
            if maxabs(hs_o, want) > 1e-8:
                ctx.violation("embed", site, "model-mismatch", "embedded HS (outcome %d) differs from the model applied to the implementation's Kraus set (%.3g)" % (x, maxabs(hs_o, want)), case)
                return
            # property: on embedded inputs the embedded map acts as the original one (my exact Kraus set, not the implementation's)
            v = np.array([np.trace(b.conj().T @ rho_emb) for b in Bq])
            out = op_of(np.asarray(hs_o) @ v, Bq)
            want_out = model_embed(ctx, nq, 0.0, apply_kraus(groups_mine[x], rho_in))
            if maxabs(out, want_out) > 1e-8:
                ctx.violation("embed", site, "statistics", "embedded map (outcome %d) on an embedded input differs from the embedded output of the qutrit map (%.3g)" % (x, maxabs(out, want_out)), case)
                return
        if maxabs(tp_sum, np.eye(n4)) > 1e-8 or not r.is_physical():
            ctx.violation("embed", site, "unphysical-embedding", "embedded map is not trace preserving / is_physical False", case)


def sub_embed(ctx):
    rng = ctx.rng
    cases = []
    for i in range(ctx.n(10, 80)):
        typ = ["state", "povm", "gate", "mprocess", "state", "povm"][i % 6]
        nq = 1 if typ in ("gate", "mprocess") or i % 4 else 2
        names = rng.sample(range(0, 20), 2 * nq)
        case = {"typ": typ, "nq": nq, "nout": rng.choice([2, 3, 4]), "seed": rng.randrange(10 ** 9), "qubit_names": names, "cert": i % 12 == 2}
        if typ == "mprocess":
            # Kraus ranks per outcome: rank one (projective / Lueders), coarse-grained and noisy outcomes (rank >= 2), unequal ranks
            case["ranks"] = [[1, 2], [2, 1, 1], [1, 1, 1], [2, 2], [3, 1], [2, 1, 3], [1, 1], [2, 3]][(i // 6) % 8]
            case["cert"] = (i // 6) % 4 == 0
        elif typ == "gate":
            case["nkraus"] = [2, 1, 3, 2, 4][(i // 6) % 5]
        cases.append(case)
    # every run: instruments with unequal Kraus ranks / a rank-3 outcome, a gate with three Kraus operators
    cases.append({"typ": "mprocess", "nq": 1, "ranks": [2, 1, 3], "seed": rng.randrange(10 ** 9), "qubit_names": rng.sample(range(0, 20), 2), "cert": False})
    cases.append({"typ": "mprocess", "nq": 1, "ranks": [1, 1, 1], "seed": rng.randrange(10 ** 9), "qubit_names": rng.sample(range(0, 20), 2), "cert": False})
    cases.append({"typ": "gate", "nq": 1, "nkraus": 3, "seed": rng.randrange(10 ** 9), "qubit_names": rng.sample(range(0, 20), 2), "cert": True})
    cases.append({"typ": "state", "nq": 1, "seed": 5, "qubit_names": [0, 1, 2]})
    cases.append({"typ": "gate", "nq": 1, "seed": 6, "qubit_names": [4]})
    if not ctx.quick:
        cases.append({"typ": "gate", "nq": 2, "seed": 99, "qubit_names": [3, 1, 2, 0]})
    ctx.sample("embed", cases[0])
    ctx.run_cases("embed", chk_embed, cases)


SUBS = [("perm", sub_perm), ("state", sub_state), ("povm", sub_povm), ("gate", sub_gate), ("mprocess", sub_mprocess), ("misc", sub_misc), ("embed", sub_embed)]


def chk_perm_any(ctx, case):
    if "conv" in case:
        return chk_convlist(ctx, case)
    return chk_kmat(ctx, case) if "d1" in case else chk_perm(ctx, case)


FNS = {"perm": chk_perm_any, "state": chk_tree, "povm": chk_tree, "gate": chk_tree, "mprocess": chk_mprocess, "misc": chk_misc, "embed": chk_embed}


def regen_own(ctx):
    """translator tie with this property's own translator gen/c07_py2coq.py (same protocol as flow.regen_check):
    regenerate Gallina definitions of matrix_util._left_permutation_matrix, calc_permutation_matrix,
    convert_list_by_permutation_matrix and of the index loop of QOperation._permutation_matrix_from_qutrits_to_qubits from the
    CURRENT source, compile them next to Gen_cross_position.v and re-check coq/gen/C07_Equiv2.v. returns (ok, info)"""
    import os, re, shutil, subprocess, sys
    import runner
    V = runner.V
    scratch = os.path.join(ctx.scratch, "gen")
    os.makedirs(scratch, exist_ok=True)
    gen_v = os.path.join(scratch, "Gen_c07.v")
    equiv = os.path.join(V, "coq", "gen", "C07_Equiv2.v")
    src = open(equiv).read()
    src_nc = re.sub(r"\(\*.*?\*\)", " ", src, flags=re.S)
    thms = re.findall(r"^\s*Theorem\s+([\w']+)", src_nc, flags=re.M)
    ctx.theorems = list(ctx.theorems) + [t for t in thms if t not in ctx.theorems]
    ctx.obligations += len(thms)
    q = ["-Q", os.path.join(V, "coq", "theories"), "QV", "-Q", scratch, "QVGen"]
    if not os.path.exists(os.path.join(scratch, "Gen_cross_position.vo")):
        return False, {"theorem": thms[0], "error": "Gen_cross_position.vo missing (the cross_position group did not regenerate)"}
    r = subprocess.run([sys.executable, os.path.join(V, "gen", "c07_py2coq.py"), os.environ.get("VERIF_REPO", "/repo"), gen_v],
                       capture_output=True, text=True, timeout=120)
    if r.returncode != 0:
        return False, {"theorem": thms[0], "error": "translator rejected the source (outside its subset): " + (r.stdout + r.stderr)[-600:]}
    r = subprocess.run(["timeout", "300", "coqc"] + q + [gen_v], capture_output=True, text=True)
    if r.returncode != 0:
        return False, {"theorem": thms[0], "error": "regenerated functions do not compile: " + (r.stdout + r.stderr)[-600:]}
    dst = os.path.join(scratch, "C07_Equiv2.v")
    shutil.copy(equiv, dst)
    r = subprocess.run(["timeout", "600", "coqc"] + q + [dst], capture_output=True, text=True)
    out = r.stdout + r.stderr
    if r.returncode != 0:
        m_ = re.search(r"line (\d+), characters", out)
        thm = None
        if m_:
            upto = "\n".join(src.splitlines()[:int(m_.group(1))])
            names = re.findall(r"^\s*(?:Theorem|Lemma)\s+([\w']+)", upto, flags=re.M)
            thm = names[-1] if names else None
        return False, {"theorem": thm, "error": out[-800:]}
    blocks = runner.parse_assumptions(out)
    bad = [a for closed, axs in blocks for a in axs if a not in runner.ALLOWED_AXIOMS and a.split(".")[-1] not in runner.ALLOWED_AXIOMS]
    if len(blocks) != len(thms) or bad:
        return False, {"theorem": thms[0], "error": "assumption gate on regenerated proofs: %d blocks / %d theorems, disallowed %s" % (len(blocks), len(thms), bad)}
    for t, (closed, axs) in zip(thms, blocks):
        ctx.axioms[t] = "closed" if closed else sorted(set(axs))
    ctx.discharged += len(thms)
    return True, {}


def run(ctx):
    import time
    import runner
    ctx.rule = ("factors are exactly-rational physical objects (states LL^dagger/tr, POVMs / gates / instruments from blocks of an exactly unitary "
                "Gaussian-rational dilation), converted once to float coefficient form and fed to quara and to the extracted model; arrangements: "
                "2-4 subsystems of dims {2,3}, every permutation of names x every grouping for fixed dimension patterns plus a seeded sample, "
                "pairwise different outcome counts; non-trivial = names NOT already ascending in argument order (a permutation is really applied) "
                "or unequal outcome counts; distinct = distinct (factors, names, grouping)")

    def timed(name, fn):
        def go(c):
            t0 = time.time()
            fn(c)
            c.note("sub-check %s: %.1f s" % (name, time.time() - t0))
        return go
    # flow.standard_run, extended by this property's own translator tie:
    #  (1) Props/C07.v; (2) matrix_util._check_cross_system_position regenerated by gen/py2coq.py, coq/gen/C07_Equiv.v;
    #  (3) _left_permutation_matrix, calc_permutation_matrix, convert_list_by_permutation_matrix, the index loop of
    #      _permutation_matrix_from_qutrits_to_qubits regenerated by gen/c07_py2coq.py, coq/gen/C07_Equiv2.v
    ok, info = runner.check_props(ctx)
    thms_before = list(ctx.theorems)
    ok2, info2 = flow.regen_check(ctx, "cross_position", "C07_Equiv")
    ctx.theorems = thms_before + [t for t in ctx.theorems if t not in thms_before]
    ctx.obligations += getattr(ctx, "regen_obligations", 0)
    ctx.discharged += getattr(ctx, "regen_discharged", 0)
    ok3, info3 = regen_own(ctx)
    for o, i, what in ((ok2, info2, "cross_position / C07_Equiv"), (ok3, info3, "gen/c07_py2coq.py / C07_Equiv2")):
        if not o:
            ok, info = False, i
            ctx.note("regenerated-model obligations (%s) not discharged: %s" % (what, str(i)[:400]))
    if not ok:
        ctx.discharged = min(ctx.discharged, ctx.obligations - 1)
        # the tie is broken: widen the search for a concrete failing input (thorough counts for the function-level sweeps)
        ctx.widen = True
    for name, fn in SUBS:
        if ctx.only is None or name in ctx.only:
            timed(name, fn)(ctx)
    if not ok and not ctx.violations:
        ctx.violation("theorems", "Props/%s.v" % ctx.prop_id, "theorem-broken:%s" % info.get("theorem"),
                      "theorem %s no longer checks: %s" % (info.get("theorem"), info.get("error", "")[-400:]),
                      {"theorem": info.get("theorem"), "error": info.get("error")}, no_input=True)
    elif not ok:
        ctx.note("theorem obligations not discharged: %s" % info)


def replay(ctx, doc):
    flow.standard_replay(ctx, doc, FNS)
