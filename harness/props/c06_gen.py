"""C06 — generators of exactly-rational PHYSICAL operands (DESIGN 2.5) and their direct (Kraus-level) semantics.

Operators are built in Q[i] (python Fractions) so that they are exactly what they claim (PSD, trace one, unitary, sum to
identity); they are then converted ONCE to complex floats.  Every operand carries
  * a JSON description (replayable),
  * its operator-level semantics as float numpy data: state rho, gate = list of (weight, Kraus), povm = list of effects,
    instrument = list (per outcome) of elements, an element being ("kraus", [(w, K), ...]) or ("prep", effect, sigma)
    meaning  rho -> tr(effect rho) sigma.
The direct evaluation of a chain uses ONLY these (never quara's composition code)."""
from fractions import Fraction as Fr
import itertools
import numpy as np


# ------------------------------------------------------------------ Gaussian-rational matrices: pairs (Re, Im) of object arrays
def gz(re, im=None):
    re = np.array(re, dtype=object)
    im = np.zeros_like(re) if im is None else np.array(im, dtype=object)
    f = np.vectorize(lambda x: Fr(x), otypes=[object])
    return (f(re), f(im))


def gmul(A, B):
    return (A[0].dot(B[0]) - A[1].dot(B[1]), A[0].dot(B[1]) + A[1].dot(B[0]))


def gadd(A, B):
    return (A[0] + B[0], A[1] + B[1])


def gsub(A, B):
    return (A[0] - B[0], A[1] - B[1])


def gscale(c, A):
    return (A[0] * c, A[1] * c)


def gadj(A):
    return (A[0].T.copy(), -A[1].T)


def geye(d):
    return gz(np.eye(d, dtype=int))


def gtrace(A):
    return sum(A[0][i, i] for i in range(A[0].shape[0]))


def gfloat(A):
    return np.array(A[0], dtype=float) + 1j * np.array(A[1], dtype=float)


def ginv(A):
    """exact inverse through the real embedding [[R,-I],[I,R]] (Gauss-Jordan over Q)"""
    d = A[0].shape[0]
    M = np.empty((2 * d, 4 * d), dtype=object)
    M[:, :] = Fr(0)
    M[:d, :d] = A[0]; M[:d, d:2 * d] = -A[1]; M[d:, :d] = A[1]; M[d:, d:2 * d] = A[0]
    for i in range(2 * d):
        M[i, 2 * d + i] = Fr(1)
    n = 2 * d
    for c in range(n):
        p = next((r for r in range(c, n) if M[r, c] != 0), None)
        if p is None:
            raise ZeroDivisionError("singular")
        if p != c:
            M[[c, p]] = M[[p, c]]
        M[c] = M[c] / M[c, c]
        for r in range(n):
            if r != c and M[r, c] != 0:
                M[r] = M[r] - M[c] * M[r, c]
    X = M[:, 2 * d:]
    return (X[:d, :d].copy(), X[d:, :d].copy())


def rand_gint(rng, d, r=None, lo=-2, hi=2, real=False):
    r = d if r is None else r
    re = [[rng.randint(lo, hi) for _ in range(r)] for _ in range(d)]
    im = [[0 if real else rng.randint(lo, hi) for _ in range(r)] for _ in range(d)]
    return gz(re, im)


def rand_unitary(rng, d, real=False):
    """rational unitary by the Cayley transform U = (I - iH)(I + iH)^-1, H Hermitian with small rational entries"""
    while True:
        A = rand_gint(rng, d, lo=-2, hi=2, real=False)
        H = gscale(Fr(1, 2), gadd(A, gadj(A)))
        if real:   # real orthogonal: use a real skew matrix S, U = (I - S)(I + S)^-1
            S = (A[0] - A[0].T, np.zeros_like(A[0]))
            try:
                U = gmul(gsub(geye(d), S), ginv(gadd(geye(d), S)))
            except ZeroDivisionError:
                continue
            return U
        iH = (-H[1], H[0])
        try:
            return gmul(gsub(geye(d), iH), ginv(gadd(geye(d), iH)))
        except ZeroDivisionError:
            continue


def gjson(A):
    return [[["%d/%d" % (A[0][i, j].numerator, A[0][i, j].denominator), "%d/%d" % (A[1][i, j].numerator, A[1][i, j].denominator)]
             for j in range(A[0].shape[1])] for i in range(A[0].shape[0])]


def gfromjson(J):
    re = [[Fr(e[0]) for e in row] for row in J]
    im = [[Fr(e[1]) for e in row] for row in J]
    return gz(re, im)


def fjson(x):
    x = Fr(x)
    return "%d/%d" % (x.numerator, x.denominator)


# ------------------------------------------------------------------ operand descriptions (JSON) -> semantics
# desc kinds:
#  {"t":"state","rho":G}
#  {"t":"gate","kraus":[[w,G],...]}                    rho -> sum w K rho K^dag          (sum w K^dag K = I)
#  {"t":"povm","effects":[G,...]}
#  {"t":"mproc","elems":[ {"k":[[w,G],...]} | {"prep":[E,S]} , ...], "shape":[...], "eps":float}
def sem_of(desc):
    t = desc["t"]
    if t == "state":
        return ("state", gfloat(gfromjson(desc["rho"])))
    if t == "gate":
        return ("gate", [("kraus", [(float(Fr(w)), gfloat(gfromjson(K))) for w, K in desc["kraus"]])])
    if t == "povm":
        return ("povm", [gfloat(gfromjson(E)) for E in desc["effects"]])
    if t == "mproc":
        els = []
        for e in desc["elems"]:
            if "k" in e:
                els.append(("kraus", [(float(Fr(w)), gfloat(gfromjson(K))) for w, K in e["k"]]))
            else:
                els.append(("prep", gfloat(gfromjson(e["prep"][0])), gfloat(gfromjson(e["prep"][1]))))
        return ("mproc", els)
    raise ValueError(t)


def apply_elem(el, rho):
    if el[0] == "kraus":
        out = np.zeros_like(rho)
        for w, K in el[1]:
            out = out + w * (K @ rho @ K.conj().T)
        return out
    return np.trace(el[1] @ rho) * el[2]


def dual_elem(el, E):
    """Heisenberg picture: effect E -> elem^dagger(E)"""
    if el[0] == "kraus":
        out = np.zeros_like(E)
        for w, K in el[1]:
            out = out + w * (K.conj().T @ E @ K)
        return out
    return np.trace(E @ el[2]) * el[1]


def elem_effect(el, d):
    return dual_elem(el, np.eye(d, dtype=complex))


# ------------------------------------------------------------------ random physical operands
def gen_state(rng, d, kind=None):
    kind = kind or rng.choice(["full", "full", "pure", "low"])
    r = {"full": d, "pure": 1, "low": max(1, d - 1)}[kind]
    while True:
        L = rand_gint(rng, d, r, real=rng.random() < 0.15)
        rho = gmul(L, gadj(L))
        tr = gtrace(rho)
        if tr != 0:
            break
    return {"t": "state", "rho": gjson(gscale(1 / tr, rho)), "kind": kind}


def damping(d):
    """Pythagorean amplitude damping on levels 0,1 (gamma = 9/25), identity elsewhere: K0, K1 with K0^dag K0 + K1^dag K1 = I"""
    K0 = gz(np.eye(d, dtype=int)); K0[0][1, 1] = Fr(4, 5)
    K1 = gz(np.zeros((d, d), dtype=int)); K1[0][0, 1] = Fr(3, 5)
    return K0, K1


def rand_weights(rng, k):
    w = [rng.randint(1, 5) for _ in range(k)]
    s = sum(w)
    return [Fr(x, s) for x in w]


def gen_gate(rng, d, kind=None):
    kind = kind or rng.choice(["unitary", "mix", "damp", "mix"])
    if kind == "unitary":
        ks = [[Fr(1), rand_unitary(rng, d)]]
    elif kind == "mix":
        k = rng.randint(2, 3)
        ks = [[w, rand_unitary(rng, d)] for w in rand_weights(rng, k)]
    else:
        U, V = rand_unitary(rng, d), rand_unitary(rng, d)
        K0, K1 = damping(d)
        ks = [[Fr(1), gmul(gmul(U, K0), V)], [Fr(1), gmul(gmul(U, K1), V)]]
    return {"t": "gate", "kraus": [[fjson(w), gjson(K)] for w, K in ks], "kind": kind}


def projectors(d, m, rng):
    """partition the d levels into m non-empty groups (m <= d): diagonal projectors"""
    levels = list(range(d)); rng.shuffle(levels)
    cuts = sorted(rng.sample(range(1, d), m - 1)) if m > 1 else []
    groups = [levels[a:b] for a, b in zip([0] + cuts, cuts + [d])]
    Ps = []
    for g in groups:
        P = gz(np.zeros((d, d), dtype=int))
        for l in g:
            P[0][l, l] = Fr(1)
        Ps.append(P)
    return Ps


def gen_effects(rng, d, m, kind):
    """rational POVM with m outcomes.  'proj': U P_x U^dag (m <= d);  'generic': t A_x + remainder on the last element
    (rank-1 A_x, non-commuting);  'mixed': convex mixture of a projective one and a generic one;  'trivial': q_x I"""
    if kind == "proj":
        U = rand_unitary(rng, d)
        return [gmul(gmul(U, P), gadj(U)) for P in projectors(d, m, rng)]
    if kind == "trivial":
        return [gscale(w, geye(d)) for w in rand_weights(rng, m)]
    if kind in ("deg-aligned", "deg-rotated"):
        # effects with DEGENERATE spectra: Pi_x = sum_k a[x][k] U Q_k U^dag, {Q_k} a partition of the d levels into g < d groups (so at least one
        # eigenspace has dimension >= 2), column k of a = a distribution over the outcomes (zeros allowed: coarse-grained projective measurements).
        # 'aligned': U a permutation (eigh returns bitwise equal eigenvalues);  'rotated': U a random rational unitary (it does not)
        g = rng.randint(1, d - 1)
        Qs = projectors(d, g, rng)
        U = rand_unitary(rng, d) if kind == "deg-rotated" else geye(d)
        cols = []
        for k in range(g):
            if rng.random() < 0.4:
                col = [Fr(0)] * m; col[rng.randrange(m)] = Fr(1)
            else:
                col = rand_weights(rng, m)
                if rng.random() < 0.3:
                    z = rng.randrange(m); rest = [i for i in range(m) if i != z]
                    tot = sum(col[i] for i in rest); col = [Fr(0) if i == z else col[i] / tot for i in range(m)]
            cols.append(col)
        out = []
        for x in range(m):
            E = gscale(Fr(0), geye(d))
            for k in range(g):
                E = gadd(E, gscale(cols[k][x], gmul(gmul(U, Qs[k]), gadj(U))))
            out.append(E)
        return out
    if kind == "product":
        # an effect acting on ONE tensor factor of d = d1*d2 (d = 4: 2 x 2): E_x (x) I or I (x) E_x - every eigenvalue at least doubly degenerate
        d1 = 2; d2 = d // 2
        small = gen_effects(rng, d1, m, rng.choice(["generic", "proj", "mixed"]) if m <= d1 else rng.choice(["generic", "mixed"]))
        left = rng.random() < 0.5

        def gkron(A, B):
            return (np.kron(A[0], B[0]) - np.kron(A[1], B[1]), np.kron(A[0], B[1]) + np.kron(A[1], B[0]))
        return [gkron(E, geye(d2)) if left else gkron(geye(d2), E) for E in small]
    if kind == "generic":
        As = []
        for x in range(m):
            L = rand_gint(rng, d, rng.choice([1, 1, d]))
            A = gmul(L, gadj(L))
            if gtrace(A) == 0:
                A = geye(d)
            As.append(A)
        S = As[0]
        for A in As[1:]:
            S = gadd(S, A)
        t = 1 / gtrace(S)                    # lambda_max(S) <= tr S  =>  I - t S  is PSD
        E = [gscale(t, A) for A in As]
        R = gsub(geye(d), gscale(t, S))
        x = rng.randrange(m)
        E[x] = gadd(E[x], R)
        return E
    E1 = gen_effects(rng, d, m, "proj" if m <= d else "trivial")
    E2 = gen_effects(rng, d, m, "generic")
    a = Fr(rng.randint(1, 3), 4)
    return [gadd(gscale(a, x), gscale(1 - a, y)) for x, y in zip(E1, E2)]


def gen_povm(rng, d, m=None, kind=None):
    m = m or rng.choice([2, 3, 4])
    kind = kind or rng.choice(["proj", "generic", "generic", "mixed"])
    if kind == "proj" and m > d:
        kind = "generic"
    if kind in ("deg-aligned", "deg-rotated") and d < 3:
        kind = "trivial"           # the only degenerate effects of a qubit are multiples of the identity
    if kind == "product" and (d != 4):
        kind = "deg-rotated" if d >= 3 else "trivial"
    return {"t": "povm", "effects": [gjson(E) for E in gen_effects(rng, d, m, kind)], "kind": kind}


def gen_mproc(rng, d, m=None, kind=None, eps=1e-8):
    """instrument with m outcomes.
       'luders'  : K_x = W_x U P_x U^dag  (projective measurement followed by an outcome-dependent unitary)
       'coarse'  : outcome x has SEVERAL Kraus operators (coarse-grained projective measurement)
       'damp'    : 2 outcomes, the amplitude-damping unravelling  U K_x V
       'randu'   : E_x = q_x U_x . U_x^dag  (trivial POVM, non-trivial back-action)
       'prep'    : measure-and-prepare  rho -> tr(Pi_x rho) sigma_x  for a rational POVM (the mode-2 form)"""
    m = m or rng.choice([2, 3, 4])
    kind = kind or rng.choice(["luders", "coarse", "damp", "randu", "prep", "prep", "luders"])
    if kind == "damp":
        m = 2
    if kind in ("luders",) and m > d:
        kind = "prep"
    if kind == "coarse" and m + 1 > d:
        kind = "randu"
    elems = []
    if kind == "luders":
        U = rand_unitary(rng, d)
        for P in projectors(d, m, rng):
            W = rand_unitary(rng, d) if rng.random() < 0.6 else geye(d)
            elems.append({"k": [[fjson(1), gjson(gmul(W, gmul(gmul(U, P), gadj(U))))]]})
    elif kind == "coarse":
        U = rand_unitary(rng, d)
        Ps = projectors(d, m + 1, rng)
        groups = [[Ps[0], Ps[1]]] + [[P] for P in Ps[2:]]
        rng.shuffle(groups)
        for g in groups:
            elems.append({"k": [[fjson(1), gjson(gmul(gmul(U, P), gadj(U)))] for P in g]})
    elif kind == "damp":
        U, V = rand_unitary(rng, d), rand_unitary(rng, d)
        for K in damping(d):
            elems.append({"k": [[fjson(1), gjson(gmul(gmul(U, K), V))]]})
    elif kind == "randu":
        for w in rand_weights(rng, m):
            elems.append({"k": [[fjson(w), gjson(rand_unitary(rng, d))]]})
    else:
        E = gen_effects(rng, d, m, rng.choice(["generic", "generic", "mixed", "proj"] if m <= d else ["generic", "mixed"]))
        for e in E:
            s = gfromjson(gen_state(rng, d)["rho"])
            elems.append({"prep": [gjson(e), gjson(s)]})
    return {"t": "mproc", "elems": elems, "shape": [len(elems)], "eps": eps, "kind": kind}


# ------------------------------------------------------------------ direct semantics of a time-ordered chain
def direct_chain(sems, d):
    """sems: list of (type, data) in the ORDER OF THE ARGUMENTS of compose_qoperations (last acts first).
    returns dict with
      'kind': 'dist' | 'ens' | 'state' | 'ops' | 'povm'
      'outs': number of outcomes of every measuring operand, EARLIEST FIRST
      dist : 'joint' flat row-major (earliest measurement major) unnormalised probabilities
      ens/state : 'joint' and 'rhos' (unnormalised post states)
      ops  : 'maps': list (flat, earliest major) of callables rho -> rho' ;  povm : 'effects' flat list of operators"""
    seq = list(reversed(sems))                       # time order
    has_state = seq[0][0] == "state"
    has_povm = seq[-1][0] == "povm"
    mids = seq[(1 if has_state else 0):(len(seq) - 1 if has_povm else len(seq))]
    outs = [len(s[1]) for s in mids if s[0] == "mproc"]
    branches = [[]]                                   # lists of elems, time ordered, flat earliest-major
    for s in mids:
        branches = [b + [el] for b in branches for el in s[1]]
    res = {"outs": outs + ([len(seq[-1][1])] if has_povm else []), "n_gate_only": all(s[0] == "gate" for s in mids)}

    def run(b, rho):
        for el in b:
            rho = apply_elem(el, rho)
        return rho

    def dual(b, E):
        for el in reversed(b):
            E = dual_elem(el, E)
        return E
    if has_state:
        rhos = [run(b, seq[0][1]) for b in branches]
        if has_povm:
            res["kind"] = "dist"
            res["joint"] = [float(np.trace(E @ r).real) for r in rhos for E in seq[-1][1]]
        else:
            res["kind"] = "state" if not outs else "ens"
            res["rhos"] = rhos
            res["joint"] = [float(np.trace(r).real) for r in rhos]
    elif has_povm:
        res["kind"] = "povm"
        res["effects"] = [dual(b, E) for b in branches for E in seq[-1][1]]
    else:
        res["kind"] = "ops"
        res["maps"] = [(lambda rho, b=b: run(b, rho)) for b in branches]
    return res
