"""C11 — loss minimisation attains the constrained optimum.

Sub-checks
  cvx_maps   : the linear maps of quara/interface/cvxpy/conversion.py evaluated at numeric var.value (no solver) on a
               basis of variable space + zero + random points, against the extracted model fed with the implementation's
               matrix basis, and against quara's own variable->object conversion.
  pgdb       : backtracking projected-gradient runs with iteration history: step equations, Armijo decisions and the
               stopping rule against the model (exact arithmetic), monotone loss, feasible iterates, descent-direction
               certificate, a-posteriori optimality gap per competitor (truth, projected linear estimate, random physical
               points, the SCS solution), optimality up to the calibrated stopping accuracy.
  reuse      : estimator-level histories: ONE LossMinimizationEstimator / loss / algorithm triple re-used across different same-shaped
               tomographies (permuted testers), other parametrisations / types and data sets; every estimate must equal the fresh-object
               estimate, the reported loss must be the defining formula on the CURRENT tomography's predicted distributions, and no
               physical competitor may have a lower loss (measured with that formula, never with the re-used loss object).
  flags      : the estimate must not depend on the reporting keywords (plain default call, computation time, detailed results, sequence call) and the
               PLAIN estimate must be optimal; over-determined settings (qutrit QST, over-complete tester sets) with interior truths.
  cvx_est    : CVXPY-backed estimator (SCS): feasibility of its estimate, its reported loss = quara's loss at its point,
               agreement with backtracking, no competitor better beyond tolerance.
Tolerances are collected in TOL below; they were calibrated on the unchanged tree (see harness/manifest/C11.json)."""
import io, contextlib, math, os, warnings
from fractions import Fraction
import numpy as np
from common import flow, qcheck
from common.model import cflat, rflat, to_c

LEVEL = "proof"

MODES = ["single_difference_loss", "sum_absolute_difference_loss", "sum_absolute_difference_variable",
         "sum_absolute_difference_projected_gradient"]
TOL = {
    # model (exact) vs implementation (float) on the same inputs
    "value": 1e-11,          # loss value / gradient / x_next / error value:  |impl - model| <= value*(1+scale)
    "armijo_band": 1e-12,    # Armijo margins closer to 0 than band*(1+|f x|) are in-band (decision not compared)
    "stop_band": 2e-14,      # |window value - eps| <= stop_band*(1+|f|) + 1e-9*eps is in-band
    # invariants of a run
    "monotone": 1e-12,       # fx[i+1] <= fx[i] + monotone*(1+|fx|)
    "psd": 1e-7,             # every iterate: matrices + psd*I are PSD (exact decision), equality constraints within eq
    "eq": 1e-7,
    "descent": 1e-5,         # <g,y> + mu|y|^2 <= descent*(1+|g||y|)
    "ydir": 1e-7,            # recorded y vs P(x - g/mu) - x recomputed through the implementation's own P and gradient
    # optimality
    "gap_consistency": 1e-6,  # f z - f x >= gap_bound(z) - gap_consistency*(1+|f|)   (theorem T5 on the implementation's f, g, P)
    "universal": 2e-2,       # converged state runs: certified bound U = -<g,y> + 2 mu |y| on what ANY state can gain (first order in |y|: measured <= 5e-4)
    "opt": 2e-6,             # converged runs: f x_final <= f z + opt*(1+|f|) for every physical competitor z
    "cvx_loss_expr": 1e-8,   # S * problem.value vs quara's loss at the CVXPY point
    "cvx_agree": 2e-6,       # |S*cvx loss - backtracking loss| <= cvx_agree*(1+|f|)
    "cvx_psd": 1e-6,         # SCS estimate PSD within this shift
}


# ====================================================================================== quara set-up helpers
_SETUPS = {}


def quiet():
    return contextlib.redirect_stdout(io.StringIO())


def get_setup(name, para):
    """returns (qt, c_sys, kind, m) ; kind in state/povm/gate"""
    key = (name, para)
    if key in _SETUPS:
        return _SETUPS[key]
    full_name = name
    name, _, variant = name.partition("/")      # "qst1/zxy": tester POVMs in that order; "povmt1/2013", "qpt1/2013": tester states permuted
    from quara.objects.composite_system_typical import generate_composite_system
    from quara.objects.state_typical import generate_state_from_name
    from quara.objects.povm_typical import generate_povm_from_name
    from quara.protocol.qtomography.standard.standard_qst import StandardQst
    from quara.protocol.qtomography.standard.standard_povmt import StandardPovmt
    from quara.protocol.qtomography.standard.standard_qpt import StandardQpt
    with quiet():
        if name == "qst1":
            c = generate_composite_system("qubit", 1)
            qt = StandardQst([generate_povm_from_name(n, c) for n in (variant or "xyz")], on_para_eq_constraint=para, schedules="all")
            r = (qt, c, "state", None)
        elif name == "qst3":
            c = generate_composite_system("qutrit", 1)
            names = ["01x3", "01y3", "z3", "12x3", "12y3", "02x3", "02y3"]
            qt = StandardQst([generate_povm_from_name(n, c) for n in names], on_para_eq_constraint=para, schedules="all")
            r = (qt, c, "state", None)
        elif name in ("povmt1", "povmt1m3"):
            c = generate_composite_system("qubit", 1)
            m = 2 if name == "povmt1" else 3
            snames = ["x0", "y0", "z0", "z1"]
            qt = StandardPovmt([generate_state_from_name(c, snames[int(ch)]) for ch in (variant or "0123")], m,
                               on_para_eq_constraint=para, schedules="all")
            r = (qt, c, "povm", m)
        elif name == "qpt1":
            c = generate_composite_system("qubit", 1)
            snames = ["x0", "y0", "z0", "z1"]
            qt = StandardQpt([generate_state_from_name(c, snames[int(ch)]) for ch in (variant or "0123")],
                             [generate_povm_from_name(n, c) for n in "xyz"], on_para_eq_constraint=para, schedules="all")
            r = (qt, c, "gate", None)
        else:
            raise ValueError(full_name)
    _SETUPS[key] = r
    return r


_BASIS = {}


def basis_of(c):
    """the implementation's matrix basis as dense complex arrays (read once per composite system)"""
    k = id(c)
    if k not in _BASIS:
        _BASIS[k] = (c, [np.asarray(b.toarray() if hasattr(b, "toarray") else b, dtype=complex) for b in c.basis()])
    return _BASIS[k][1]


def coeffs(c, M):
    """real coefficient vector of a Hermitian matrix w.r.t. the (orthonormal Hermitian) basis"""
    return np.array([np.trace(b.conj().T @ M).real for b in basis_of(c)], dtype=float)


def rand_psd(rs, d, rank):
    L = rs.randn(d, rank) + 1j * rs.randn(d, rank)
    return L @ L.conj().T


def rand_object(kind, c, m, seed):
    """a physical object, generic (complex, asymmetric); returned as the FULL real parameter list:
       state: vec (d^2); povm: list of m vecs; gate: HS matrix (d^2 x d^2)"""
    if seed < 0:
        return extreme_object(kind, c, m, -seed)
    rs = np.random.RandomState(seed)
    d = c.dim
    rank = [1, d, max(1, d - 1)][seed % 3]
    if kind == "state":
        rho = rand_psd(rs, d, rank)
        rho = rho / np.trace(rho).real
        return coeffs(c, rho)
    if kind == "povm":
        Ms = [rand_psd(rs, d, [1, d][(seed + i) % 2]) for i in range(m)]
        S = sum(Ms) + 1e-3 * np.eye(d)
        w, U = np.linalg.eigh(S)
        Sih = U @ np.diag(w ** -0.5) @ U.conj().T
        Es = [Sih @ M @ Sih for M in Ms]
        Es[-1] = np.eye(d) - sum(Es[:-1])          # remainder (PSD: it contains Sih (M_last + 1e-3 I) Sih)
        return [coeffs(c, E) for E in Es]
    if kind == "gate":
        r = [1, 2, d * d][seed % 3]
        G = rs.randn(d * r, d) + 1j * rs.randn(d * r, d)
        Q, _ = np.linalg.qr(G)
        Ks = [Q[i * d:(i + 1) * d, :] for i in range(r)]
        B = basis_of(c)
        hs = np.array([[sum(np.trace(Ba.conj().T @ K @ Bb @ K.conj().T) for K in Ks).real for Bb in B] for Ba in B])
        return hs
    raise ValueError(kind)


def extreme_object(kind, c, m, seed):
    """physical objects at the rim of the physical set / with extreme variable coordinates (selected by a NEGATIVE truth seed):
       state: eigenstate of a Pauli-like axis measurement (exact zero probabilities, also in the FIRST position) or a random pure state;
       povm : UNBALANCED - the first element has all eigenvalues in [0.75, 0.95] (identity coefficient ~0.85 sqrt(d) > 1), the rest of
              the identity is split among the other elements;
       gate : a random unitary channel (rank-one Choi matrix)"""
    rs = np.random.RandomState(seed)
    d = c.dim
    if kind == "state":
        if seed % 2 == 1:
            H = rs.randn(d, d) + 1j * rs.randn(d, d)
            H = [np.diag(np.arange(d, dtype=float)), H + H.conj().T][seed % 4 // 2]     # computational-basis vector or generic
            w, U = np.linalg.eigh(H)
            v = U[:, seed % d]
        else:
            v = rs.randn(d) + 1j * rs.randn(d)
        v = v / np.linalg.norm(v)
        return coeffs(c, np.outer(v, v.conj()))
    if kind == "povm":
        G = rs.randn(d, d) + 1j * rs.randn(d, d)
        Q, _ = np.linalg.qr(G)
        E0 = Q @ np.diag(rs.uniform(0.75, 0.95, size=d)) @ Q.conj().T
        R = np.eye(d) - E0
        w, U = np.linalg.eigh(R)
        Rh = U @ np.diag(np.sqrt(np.clip(w, 0, None))) @ U.conj().T
        if m == 2:
            Es = [E0, R]
        else:
            Ws = [rand_psd(rs, d, d) for _ in range(m - 1)]
            S = sum(Ws); w2, U2 = np.linalg.eigh(S); Sih = U2 @ np.diag(w2 ** -0.5) @ U2.conj().T
            Es = [E0] + [Rh @ Sih @ W @ Sih @ Rh for W in Ws]
            Es[-1] = np.eye(d) - sum(Es[:-1])
        return [coeffs(c, E) for E in Es]
    if kind == "gate":
        G = rs.randn(d, d) + 1j * rs.randn(d, d)
        K, _ = np.linalg.qr(G)
        B = basis_of(c)
        return np.array([[np.trace(Ba.conj().T @ K @ Bb @ K.conj().T).real for Bb in B] for Ba in B])
    raise ValueError(kind)


def to_var(kind, para, full):
    if kind == "state":
        return np.array(full[1:] if para else full, dtype=float)
    if kind == "povm":
        return np.concatenate(full[:-1] if para else full).astype(float)
    if kind == "gate":
        return np.array(full[1:, :] if para else full, dtype=float).ravel()


def from_var(kind, c, m, para, var):
    """own (harness) inverse of to_var: full parameters from a variable vector"""
    d = c.dim
    D = d * d
    var = np.asarray(var, dtype=float)
    if kind == "state":
        return np.concatenate([[1 / math.sqrt(d)], var]) if para else var.copy()
    if kind == "povm":
        if para:
            vs = [var[i * D:(i + 1) * D] for i in range(m - 1)]
            e0 = np.zeros(D); e0[0] = math.sqrt(d)
            return vs + [e0 - sum(vs)]
        return [var[i * D:(i + 1) * D] for i in range(m)]
    if kind == "gate":
        if para:
            e0 = np.zeros(D); e0[0] = 1.0
            return np.vstack([e0, var.reshape(D - 1, D)])
        return var.reshape(D, D)


def matrices_of(kind, c, full):
    """the Hermitian matrices whose positivity is the inequality constraint, and the equality defect"""
    B = basis_of(c)
    d = c.dim
    if kind == "state":
        rho = sum(v * b for v, b in zip(full, B))
        return [rho], abs(np.trace(rho).real - 1.0)
    if kind == "povm":
        Es = [sum(v * b for v, b in zip(vec, B)) for vec in full]
        return Es, float(np.abs(sum(Es) - np.eye(d)).max())
    if kind == "gate":
        choi = sum(full[a, b] * np.kron(B[a], B[b].conj()) for a in range(d * d) for b in range(d * d))
        e0 = np.zeros(d * d); e0[0] = 1.0
        return [choi], float(np.abs(full[0] - e0).max())


def object_full(kind, obj):
    if kind == "state":
        return np.array(obj.vec, dtype=float)
    if kind == "povm":
        return [np.array(v, dtype=float) for v in obj.vecs]
    if kind == "gate":
        return np.array(obj.hs, dtype=float)


def make_data(qt, kind, c, m, para, shots, seed, truth_seed):
    """empirical distributions [(N, q)] sampled from the exact distributions of a random physical truth (shots = 0: exact data)"""
    full = rand_object(kind, c, m, truth_seed)
    A = np.array(qt.calc_matA(), dtype=float)
    b = np.array(qt.calc_vecB(), dtype=float)
    p = A @ to_var(kind, para, full) + b
    sizes = [qt.num_outcomes(i) for i in range(qt.num_schedules)]
    rs = np.random.RandomState(seed)
    out = []
    off = 0
    for s in sizes:
        pi = np.clip(p[off:off + s], 0.0, None)
        pi = pi / pi.sum()
        off += s
        if shots == 0:
            out.append((10 ** 6, pi.copy()))
        else:
            out.append((shots, rs.multinomial(shots, pi) / shots))
    return full, out


def copy_data(empi):
    return [(n, np.array(q, dtype=float).copy()) for n, q in empi]


def make_loss(name):
    from quara.loss_function.weighted_probability_based_squared_error import (
        WeightedProbabilityBasedSquaredError as SE, WeightedProbabilityBasedSquaredErrorOption as SEO)
    from quara.loss_function.standard_qtomography_based_weighted_probability_based_squared_error import (
        StandardQTomographyBasedWeightedProbabilityBasedSquaredError as FSE,
        StandardQTomographyBasedWeightedProbabilityBasedSquaredErrorOption as FSEO)
    from quara.loss_function.weighted_relative_entropy import WeightedRelativeEntropy as RE, WeightedRelativeEntropyOption as REO
    from quara.loss_function.standard_qtomography_based_weighted_relative_entropy import (
        StandardQTomographyBasedWeightedRelativeEntropy as FRE, StandardQTomographyBasedWeightedRelativeEntropyOption as FREO)
    L, LO = {"se": (SE, SEO), "fse": (FSE, FSEO), "re": (RE, REO), "fre": (FRE, FREO)}[name]
    return L(), LO("identity")


def run_pgdb(qt, empi, case):
    from quara.protocol.qtomography.standard.loss_minimization_estimator import LossMinimizationEstimator
    from quara.minimization_algorithm.projected_gradient_descent_backtracking import (
        ProjectedGradientDescentBacktracking as PGDB, ProjectedGradientDescentBacktrackingOption as PGDBO)
    loss, lo = make_loss(case["loss"])
    algo = PGDB()
    var_start = None
    if case.get("start_seed") is not None:
        # explicit start point (a random physical object) instead of the estimator's default origin object
        _, c_, kind_, m_out = get_setup(case["setup"], case["para"])
        var_start = to_var(kind_, case["para"], rand_object(kind_, c_, m_out, case["start_seed"]))
    ao = PGDBO(mu=case.get("mu"), gamma=case.get("gamma", 0.3), var_start=var_start,
               mode_stopping_criterion_gradient_descent=MODES[case["mode"]],
               num_history_stopping_criterion_gradient_descent=case["h"], eps=case.get("eps"),
               max_iteration_optimization=case["max_iter"])
    est = LossMinimizationEstimator()
    buf = io.StringIO()
    with contextlib.redirect_stdout(buf), warnings.catch_warnings():
        warnings.simplefilter("ignore")
        r = est.calc_estimate(qt, copy_data(empi), loss, lo, algo, ao,
                              is_computation_time_required=True, is_detailed_results_required=True)
    return r, loss, algo, ao, buf.getvalue()


_CVX_CACHE = {}


def run_cvx(setup, fam, shots, seed, truth_seed):
    """CVXPY/SCS estimate for the data set (always on the on_para_eq_constraint=True tomography object).
    fam: 'se' or 're'. returns dict(var=..., loss=problem.value, S=num_schedules, obj_full=...)"""
    key = (setup, fam, shots, seed, truth_seed)
    if key in _CVX_CACHE:
        return _CVX_CACHE[key]
    from quara.interface.cvxpy.qtomography.standard.estimator import CvxpyLossMinimizationEstimator
    from quara.interface.cvxpy.qtomography.standard.loss_function import (
        CvxpyUniformSquaredError, CvxpyRelativeEntropy, CvxpyLossFunctionOption)
    from quara.interface.cvxpy.qtomography.standard.minimization_algorithm import (
        CvxpyMinimizationAlgorithm, CvxpyMinimizationAlgorithmOption)
    qt, c, kind, m = get_setup(setup, True)
    _, empi = make_data(qt, kind, c, m, True, shots, seed, truth_seed)
    cl = CvxpyUniformSquaredError() if fam == "se" else CvxpyRelativeEntropy()
    buf = io.StringIO()
    with contextlib.redirect_stdout(buf), warnings.catch_warnings():
        warnings.simplefilter("ignore")
        cr = CvxpyLossMinimizationEstimator().calc_estimate(
            qt, copy_data(empi), cl, CvxpyLossFunctionOption(), CvxpyMinimizationAlgorithm(),
            CvxpyMinimizationAlgorithmOption(name_solver="scs", eps_tol=1e-8), is_computation_time_required=True)
        obj = cr.estimated_qoperation
    out = {"var": np.array(cr.estimated_var, dtype=float), "loss": float(cr.estimated_loss_sequence[0]),
           "S": qt.num_schedules, "full": object_full(kind, obj), "impl_full_from_var": None}
    _CVX_CACHE[key] = out
    return out


def run_ple(qt, empi):
    from quara.protocol.qtomography.standard.projected_linear_estimator import ProjectedLinearEstimator
    with quiet(), warnings.catch_warnings():
        warnings.simplefilter("ignore")
        r = ProjectedLinearEstimator().calc_estimate(qt, copy_data(empi), is_computation_time_required=False)
    return np.array(r.estimated_var, dtype=float)


# ====================================================================================== feasibility
def feasibility(ctx, kind, c, m, para, var, shift, eq_tol):
    """returns (ok, detail) using the exact PSD decision on the harness' own reconstruction of the matrices"""
    full = from_var(kind, c, m, para, var)
    mats, eqdef = matrices_of(kind, c, full)
    for M in mats:
        if qcheck.antiherm_norm(M) > 1e-9 * (1 + np.abs(M).max()):
            return False, "not Hermitian"
        if not qcheck.herm_psd(ctx, M, shift):
            return False, "not PSD within %g (min eig %.3g)" % (shift, np.linalg.eigvalsh(qcheck.herm_part(M)).min())
    if eqdef > eq_tol:
        return False, "equality constraint defect %.3g" % eqdef
    return True, ""


def input_class(kind, para, m):
    return kind + ("-eq" if para else "-full") + ("-m3+" if (m or 0) >= 3 else "")


_METRIC = {}


def metric_of(setup, para):
    """M = L^T L of the implementation's own variable -> stacked-vector map v |-> L v + c (the map calc_proj_physical_with_var
    applies before projecting and inverts afterwards).  By theorem C11_projection_metric_pullback the algorithm's projection is
    the nearest-point map of <x, M y>; by C11_scalar_metric_is_euclidean it is the Euclidean one iff M = c I.
    returns (M as float array with integer entries, c or None)"""
    key = (setup, para)
    if key not in _METRIC:
        qt, c, kind, m = get_setup(setup, para)
        n = qt.num_variables
        with quiet():
            est = qt.generate_empty_estimation_obj_with_setting_info()
            conv = lambda v: np.array(est.convert_var_to_stacked_vector(c, np.array(v, dtype=float), on_para_eq_constraint=para), dtype=float)
            f0 = conv(np.zeros(n))
            L = np.array([conv(e) - f0 for e in np.eye(n)]).T
            rs = np.random.RandomState(5)
            v = np.round(rs.randn(n) * 8) / 8
            affine = np.abs(conv(v) - (L @ v + f0)).max() <= 1e-12
        M = L.T @ L
        if not affine or np.abs(M - np.round(M)).max() > 1e-12:
            raise RuntimeError("convert_var_to_stacked_vector is not the expected affine map with integer metric (%s)" % (key,))
        M = np.round(M)
        cc = M[0, 0]
        _METRIC[key] = (M, float(cc) if cc > 0 and np.array_equal(M, cc * np.eye(n)) else None)
        _METRIC[key + ("L",)] = (L, f0)
    return _METRIC[key]


def chk_povm_embedding(ctx, m_, setup, para, report):
    """once per POVM setup with on_para_eq_constraint=True: the implementation's variable -> stacked-vector map equals the model
    [C11_povm_L], [C11_povm_c] (theorems C11_povm_embedding_is_conversion, C11_povm_variable_metric) and the measured metric
    equals the model's L^T L, exactly"""
    key = (setup, para, "embed-checked")
    if key in _METRIC:
        return
    _METRIC[key] = True
    qt, c, kind, m = get_setup(setup, para)
    if kind != "povm" or not para:
        return
    M, _ = metric_of(setup, para)
    L, f0 = _METRIC[(setup, para, "L")]
    D = c.dim ** 2
    out = [float(v) for v in m_.call("c11.povm_embed", [D, m], [])]
    Lm = np.array(out[:m * D * (m - 1) * D]).reshape(m * D, (m - 1) * D)
    Mm = np.array(out[m * D * (m - 1) * D:]).reshape((m - 1) * D, (m - 1) * D)
    c_model = np.zeros(m * D); c_model[(m - 1) * D] = np.sqrt(c.dim)
    if L.shape != Lm.shape or not np.array_equal(L, Lm) or not np.array_equal(M, Mm) or np.abs(f0 - c_model).max() > 1e-15:
        report("Povm.convert_var_to_stacked_vector", "embedding-model-mismatch",
               "the variable -> stacked-vector map of the %d-outcome POVM differs from the model (L: %s, M: %s, offset: %s)" % (
                   m, L.shape == Lm.shape and np.array_equal(L, Lm), np.array_equal(M, Mm), float(np.abs(f0 - c_model).max())))
    ctx.count("pgdb", key=("embed", setup), nontrivial=True, label="povm-embedding-m%d" % m)


# ====================================================================================== pgdb sub-check
def pick_steps(k, limit, rs):
    if k <= limit:
        return list(range(k))
    head = list(range(limit // 3))
    tail = list(range(k - limit // 3, k))
    mid = sorted(rs.choice(np.arange(limit // 3, k - limit // 3), size=limit - len(head) - len(tail), replace=False).tolist())
    return head + mid + tail


def chk_pgdb(ctx, case):
    sub = "pgdb"
    site = "ProjectedGradientDescentBacktracking.optimize"
    m_ = ctx.get_model()
    setup, para, lname = case["setup"], case["para"], case["loss"]
    qt, c, kind, m = get_setup(setup, para)
    truth_full, empi = make_data(qt, kind, c, m, para, case["shots"], case["seed"], case["truth_seed"])
    cls = input_class(kind, para, m)

    class _V:      # violations carry the input class in their signature (stable failure class for KNOWN_FINDINGS)
        @staticmethod
        def violation(sub_, site_, sig_, what_, case_):
            ctx.violation(sub_, site_, sig_ + ":" + cls, what_, case_)
    vctx = _V
    try:
        r, loss, algo, ao, printed = run_pgdb(qt, empi, case)
    except ValueError as e:
        if "imaginary parts" in str(e):
            # the estimator does not return at all: the projection's ABSOLUTE imaginary-part threshold rejects the rounding
            # noise of a huge argument (relative-entropy gradient ~ q/1e-10 after a step onto the boundary)
            ctx.count(sub, key=tuple(sorted((a, str(b)) for a, b in case.items())), nontrivial=True, label="estimator-raised")
            vctx.violation(sub, "LossMinimizationEstimator.calc_estimate", "raises:ValueError(truncate_hs)",
                          "estimator raised instead of returning an estimate (%s, %s shots, %s): %s" % (setup, case["shots"], lname, str(e)[:160]), case)
            return
        raise
    d = r.detailed_results[0]
    k = int(d.k)
    fx = [float(v) for v in d.fx]; xs = [np.array(v, dtype=float) for v in d.x]
    ys = [np.array(v, dtype=float) for v in d.y]; alphas = [float(a) for a in d.alpha]
    errs = [float(e) for e in d.error_values]
    n = qt.num_variables
    mu = float(case["mu"]) if case.get("mu") else 3 / (2 * np.sqrt(n))
    gamma = float(case.get("gamma", 0.3))
    eps = float(ao.eps)
    Mmet, Mscalar = metric_of(setup, para)
    chk_povm_embedding(ctx, m_, setup, para, lambda site_, sig_, what_: ctx.violation(sub, site_, sig_, what_, case))
    h = case["h"]; mode = case["mode"]; max_iter = case["max_iter"]
    converged = k < max_iter or (errs and sum(errs[-min(len(errs), h):]) <= eps)
    label = "%s-%s-%s-%s-%s" % (setup, "eq" if para else "full", lname, mode, "conv" if converged else "maxit")
    key = tuple(sorted((a, str(b)) for a, b in case.items()))
    rs = np.random.RandomState(case["seed"] + 17)
    stats = ctx.__dict__.setdefault("c11_stats", {})

    def stat(name, v):
        stats[name] = max(stats.get(name, 0.0), float(v))

    if case.get("start_seed") is not None:
        x0_want = to_var(kind, para, rand_object(kind, c, m, case["start_seed"]))
        if not np.array_equal(xs[0], x0_want):
            vctx.violation(sub, site, "start-point-ignored", "var_start was given but the first iterate differs from it by %.3g (%s)" % (float(np.abs(xs[0] - x0_want).max()), label), case)
            return
    # ---- history shape, returned value
    if not (len(fx) == k + 1 and len(xs) == k + 1 and len(ys) == k and len(alphas) == k and len(errs) == k):
        vctx.violation(sub, site, "history-shape", "history lengths inconsistent with k=%d: %s" % (k, [len(fx), len(xs), len(ys), len(alphas), len(errs)]), case)
        return
    if not np.array_equal(np.array(r.estimated_var, dtype=float), xs[-1]):
        vctx.violation(sub, site, "returned-not-last-iterate", "estimated_var differs from the last iterate of the history", case)
    if ("exceeds the limit" in printed) != (k == max_iter):
        vctx.violation(sub, site, "warning-flag", "max-iteration warning printed=%s but k=%d max=%d" % ("exceeds the limit" in printed, k, max_iter), case)
    # every step size of the whole history (not only the replayed steps): 0 <= alpha <= 1 and a power of 1/2 (C11_backtracking_line_search_spec);
    # alpha > 1 leaves the segment [x, P(..)] and with it the guarantee that the iterate is feasible
    for i, a_ in enumerate(alphas):
        if not (0.0 <= a_ <= 1.0) or (a_ > 0 and math.log2(a_) != round(math.log2(a_))):
            vctx.violation(sub, site, "alpha-out-of-range", "step %d: alpha=%r is not 2^-c with c >= 0 (k=%d) (%s)" % (i, a_, k, label), case)
            return
    # start = origin object (maximally mixed / identity over m / depolarising)
    # ---- monotone loss, feasibility of iterates
    for i in range(k):
        if fx[i + 1] > fx[i] + TOL["monotone"] * (1 + abs(fx[i])):
            vctx.violation(sub, site, "loss-increases", "fx[%d]=%.17g > fx[%d]=%.17g (%s)" % (i + 1, fx[i + 1], i, fx[i], label), case)
            break
        stat("monotone_excess", max(0.0, fx[i + 1] - fx[i]) / (1 + abs(fx[i])))
    feas_idx = pick_steps(k + 1, ctx.n(8, 30), rs)
    if k not in feas_idx:
        feas_idx.append(k)
    for i in feas_idx:
        ok, why = feasibility(ctx, kind, c, m, para, xs[i], TOL["psd"], TOL["eq"])
        if not ok:
            vctx.violation(sub, site, "iterate-infeasible", "iterate %d of %d: %s (%s)" % (i, k, why, label), case)
            break
    with quiet():
        est_obj = qt.convert_var_to_qoperation(xs[-1])
        verdict = est_obj.is_physical(atol_eq_const=TOL["eq"], atol_ineq_const=TOL["psd"])
    if not verdict:
        vctx.violation(sub, site, "estimate-not-physical-by-quara", "quara's own verdict is_physical(%g,%g) is False for the estimate (%s)" % (TOL["eq"], TOL["psd"], label), case)

    # ---- model data
    issq = lname in ("se", "fse")
    A = np.array(qt.calc_matA(), dtype=float); b = np.array(qt.calc_vecB(), dtype=float)
    q = np.concatenate([np.asarray(qq, dtype=float) for _, qq in empi])
    mrows = A.shape[0]
    sqdata = rflat(A) + rflat(b) + rflat(q)
    nontrivial_steps = 0
    steps = pick_steps(k, 10 ** 9 if case.get("all_steps") else (30 if getattr(ctx, "c11_tie_broken", False) else ctx.n(9, 30)), rs)
    for i in steps:
        x, y, a_impl = xs[i], ys[i], alphas[i]
        with quiet():
            g = np.array(loss.gradient(x), dtype=float)
            y_re = np.array(algo.func_proj(x - g / mu), dtype=float) - x
        # direction as coded: y = P(x - g/mu) - x  (P, g are the implementation's own callables)
        if np.abs(y_re - y).max() > TOL["ydir"] * (1 + np.abs(y).max()):
            vctx.violation(sub, site, "direction", "step %d: recorded y differs from P(x - g/mu) - x by %.3g (mu=%.6g) (%s)" % (i, np.abs(y_re - y).max(), mu, label), case)
            return
        if a_impl == 0 and float(np.dot(g, y)) > 0:
            # <g,y> > 0: the Armijo test can never pass, the line search halves alpha until it underflows to 0.0
            vctx.violation(sub, site, "not-a-descent-direction", "step %d: <g,y> = %.3g > 0, the line search ran down to alpha = 0.0 (%s)" % (i, float(np.dot(g, y)), label), case)
            if Mscalar is not None:
                return
            ctx.count(sub, key=(key, i), nontrivial=False, label="step-alpha0")
            continue
        hal_impl = -math.log2(a_impl) if a_impl > 0 else float("inf")
        if a_impl <= 0 or abs(hal_impl - round(hal_impl)) > 0:
            vctx.violation(sub, site, "alpha-not-power-of-half", "step %d: alpha=%r" % (i, a_impl), case)
            return
        hal_impl = int(round(hal_impl))
        fuel = hal_impl + 3
        prev_errs = list(reversed(errs[:i]))[:max(h, 1)]
        if issq:
            st, out = m_.try_call("c11.sq_iter", [mrows, n, fuel, mode, h, len(prev_errs)],
                                  [gamma, eps, errs[i]] + sqdata + rflat(x) + rflat(y) + prev_errs)
        else:
            with quiet():
                tab = [float(loss.value(x + (0.5 ** j) * y)) for j in range(fuel)]
            st, out = m_.try_call("c11.tab_iter", [n, fuel, mode, h, len(prev_errs), len(tab)],
                                  [gamma, eps, errs[i], fx[i]] + rflat(g) + rflat(x) + rflat(y) + prev_errs + tab)
        if st == "err":
            # model ran out of fuel: it rejects three more halvings than the implementation performed
            ctx.count(sub, key=(key, i), nontrivial=False, label="armijo-inband")
            continue
        hal_m = int(out[0]); a_m = float(out[1]); e_m = out[2]; val_m = out[3]; cont_m = bool(int(out[4]))
        fx_m = float(out[5]); fn_m = float(out[6]); slope_m = float(out[7]); rad_dx = float(out[8]); rad_y = float(out[9])
        xn_m = [float(v) for v in out[10:10 + n]]
        margins = [float(v) for v in out[10 + n:]]
        band = TOL["armijo_band"] * (1 + abs(fx[i]))
        inband = any(abs(mg) <= band for mg in margins[:min(hal_m, hal_impl) + 1])
        if issq:
            # loss value and gradient of the implementation against the exact quadratic model
            if abs(fx_m - fx[i]) > TOL["value"] * (1 + abs(fx_m)):
                vctx.violation(sub, "loss.value", "value", "step %d: loss value impl %.17g model %.17g (%s)" % (i, fx[i], fx_m, label), case)
                return
            gm = [float(v) for v in m_.call("c11.sq_grad", [mrows, n], sqdata + rflat(x))]
            if not np.allclose(g, gm, rtol=0, atol=TOL["value"] * (1 + np.abs(gm).max())):
                vctx.violation(sub, "loss.gradient", "value", "step %d: gradient differs from 2A^T(Ax+b-q) by %.3g (%s)" % (i, np.abs(g - np.array(gm)).max(), label), case)
                return
        if hal_m != hal_impl:
            if inband:
                ctx.count(sub, key=(key, i), nontrivial=False, label="armijo-inband")
                continue
            vctx.violation(sub, site + "/_is_doing_for_alpha", "armijo-decision",
                          "step %d: implementation accepted alpha=2^-%d, exact Armijo rule (gamma=%g) gives 2^-%d; margins %s (%s)" % (i, hal_impl, gamma, hal_m, margins[:6], label), case)
            return
        # x_next = x + alpha y
        if np.abs(np.array(xn_m) - xs[i + 1]).max() > TOL["value"] * (1 + np.abs(xs[i + 1]).max()):
            vctx.violation(sub, site, "update", "step %d: x_next differs from x + alpha*y by %.3g (%s)" % (i, np.abs(np.array(xn_m) - xs[i + 1]).max(), label), case)
            return
        if issq and abs(fn_m - fx[i + 1]) > TOL["value"] * (1 + abs(fn_m)):
            vctx.violation(sub, "loss.value", "value", "step %d: loss at x_next impl %.17g model %.17g" % (i, fx[i + 1], fn_m), case)
            return
        # error value of the stopping mode
        if mode in (0, 1):
            if abs(float(e_m) - errs[i]) > TOL["value"] * (1 + abs(fx[i])):
                vctx.violation(sub, site, "error-value", "step %d mode %s: error value impl %.6g model %.6g (%s)" % (i, MODES[mode], errs[i], float(e_m), label), case)
                return
        else:
            # exact radicand from the implementation's own float vectors (x_prev - x_next is formed in floating point)
            rad = float(m_.call("c11.errval", [n, mode], [fx[i], fx[i + 1]] + rflat(x) + rflat(xs[i + 1]) + rflat(y))[0])
            if errs[i] < 0 or abs(errs[i] ** 2 - rad) > 1e-9 * (rad + 1e-300) + 1e-300:
                vctx.violation(sub, site, "error-value", "step %d mode %s: error value %.17g is not sqrt(%.17g) (%s)" % (i, MODES[mode], errs[i], rad, label), case)
                return
        # stopping decision
        sband = TOL["stop_band"] * (1 + abs(fx[i])) + 1e-9 * eps
        stop_inband = abs(float(val_m) - eps) <= sband
        impl_continued = (i < k - 1)
        last_forced = (i == k - 1 and k == max_iter)
        if not stop_inband and not last_forced and cont_m != impl_continued:
            vctx.violation(sub, site, "stopping-rule", "step %d of %d mode %s h=%d: window value %.6g eps %.3g: model continue=%s, implementation continued=%s (%s)" % (i + 1, k, MODES[mode], h, float(val_m), eps, cont_m, impl_continued, label), case)
            return
        # certificates on the implementation's g, y (exact arithmetic):
        #  (a) <M g, y> + mu <y, M y> <= 0   holds for the code as written whenever func_proj is the nearest-point map of the
        #      metric M = L^T L of quara's variable -> stacked-vector map (C11_descent_certificate_as_coded, C11_projection_metric_pullback)
        #  (b) <g, y> + mu |y|^2 <= 0        (T1, C11_descent_direction) needs the EUCLIDEAN projection, i.e. M = c I
        mq = m_.call("c11.metric", [n], [mu] + rflat(g) + rflat(y) + rflat(Mmet))
        defect_m, defect = float(mq[0]), float(mq[2])
        gy_scale = 1 + np.linalg.norm(g) * np.linalg.norm(y)
        stat("metric_defect", max(0.0, defect_m) / (Mmet[0, 0] * gy_scale))
        if defect_m > TOL["descent"] * Mmet[0, 0] * gy_scale:
            vctx.violation(sub, site, "projection-not-nearest-point", "step %d: <Mg,y> + mu<y,My> = %.3g > 0: func_proj is not the nearest-point map of the stacked-vector metric M (x feasible) (%s)" % (i, defect_m, label), case)
            return
        if Mscalar is not None:
            stat("descent_defect", max(0.0, defect) / gy_scale)
        if defect > TOL["descent"] * gy_scale:
            vctx.violation(sub, site, "not-a-descent-direction", "step %d: <g,y> + mu|y|^2 = %.3g > 0 (x feasible, Euclidean projection => <= 0)%s (%s)" % (i, defect, "" if Mscalar is not None else "; the projection is nearest-point for the metric M = L^T L != c I of the variable, the gradient step is Euclidean", label), case)
            if Mscalar is not None:
                return
        nt = (not inband) and (not stop_inband)
        nontrivial_steps += int(nt)
        ctx.count(sub, key=(key, i), nontrivial=nt, label="step-hal%d" % min(hal_impl, 6) if nt else "step-inband")

    # ---- a-posteriori optimality at the returned point
    xf = xs[-1]
    with quiet():
        gf = np.array(loss.gradient(xf), dtype=float)
        yf = np.array(algo.func_proj(xf - gf / mu), dtype=float) - xf
        f_fin = float(loss.value(xf))
    # universal certificate (theorems C11_universal_gap_states / _povms / _gates = C11_universal_gap_ball with R2 = 1, d^2, d^2; the
    # variable of the eq-parametrisation is a sub-vector of the full one, so the same norm bound holds):
    # NO physical object at all has a loss below  f(x) - U,   U = -<g,y> + mu * 2 sqrt(R2) |y|
    if Mscalar is not None:
        rad = 1.0 if kind == "state" else float(c.dim)
        U = -float(np.dot(gf, yf)) + mu * 2.0 * rad * float(np.linalg.norm(yf)) * (1 + 1e-12)
        if converged:
            stat("universal_gap:%s:%s" % (kind, "sq" if issq else "re"), max(0.0, U) / (1 + abs(f_fin)))
            if U > TOL["universal"] * (1 + abs(f_fin)):
                vctx.violation(sub, "LossMinimizationEstimator.calc_estimate", "universal-gap-large",
                               "the run stopped by its criterion (mode %s, eps %.3g, k=%d) but the certified bound on the loss any physical object can gain is %.3g (|y|=%.3g, <g,y>=%.3g) (%s)" % (MODES[mode], eps, k, U, float(np.linalg.norm(yf)), float(np.dot(gf, yf)), label), case)
                return
    comps = [("truth", to_var(kind, para, truth_full))]
    for j in range(ctx.n(3, 8)):
        comps.append(("random%d" % j, to_var(kind, para, rand_object(kind, c, m, case["truth_seed"] * 31 + 7 + j))))
    # mixtures of the estimate's neighbourhood with random points (close competitors)
    for j, t in enumerate((1e-2, 1e-4)):
        z = to_var(kind, para, rand_object(kind, c, m, case["truth_seed"] * 13 + j))
        comps.append(("near%d" % j, (1 - t) * xf + t * z))
    try:
        comps.append(("projected-linear", run_ple(qt, empi)))
    except Exception as e:   # rank-deficient data etc. are C09/C10's business
        ctx.note("projected linear estimate unavailable for %s: %s" % (label, type(e).__name__))
    fam = "se" if issq else "re"
    cv = run_cvx(setup, fam, case["shots"], case["seed"], case["truth_seed"])
    comps.append(("scs", to_var(kind, para, cv["full"])))
    worst = None
    for name, z in comps:
        okz, _ = feasibility(ctx, kind, c, m, para, z, TOL["cvx_psd"] if name == "scs" else TOL["psd"], 1e-6)
        if not okz:
            continue
        with quiet():
            fz = float(loss.value(np.array(z, dtype=float)))
        bound = float(m_.call("c11.gap", [n], [mu] + rflat(xf) + rflat(gf) + rflat(yf) + rflat(z))[0])
        scale = 1 + abs(f_fin)
        if Mscalar is None:
            bound = -float("inf")      # T5 needs the Euclidean projection (M = c I); no certificate for this class
        else:
            stat("gap_consistency_excess", max(0.0, bound - (fz - f_fin)) / scale)
        if fz - f_fin < bound - TOL["gap_consistency"] * scale:
            vctx.violation(sub, site, "gap-certificate", "competitor %s: f z - f x = %.6g < certified bound %.6g  (convex f, projection P, gradient g => impossible) (%s)" % (name, fz - f_fin, bound, label), case)
            return
        if converged:
            stat("opt_excess:" + ("sq" if issq else "re") + ("" if Mscalar is not None else ":known-C11-3-class"), max(0.0, f_fin - fz) / scale)
            if Mscalar is not None:
                stat("gap_width", max(0.0, -bound) / scale)
            if f_fin - fz > TOL["opt"] * scale:
                vctx.violation(sub, "LossMinimizationEstimator.calc_estimate", "not-optimal", "competitor %s has loss %.12g < loss of the estimate %.12g (difference %.3g, stopping mode %s eps %.3g, k=%d) (%s)" % (name, fz, f_fin, f_fin - fz, MODES[mode], eps, k, label), case)
                return
        worst = max(worst, f_fin - fz) if worst is not None else f_fin - fz
    ctx.count(sub, key=key, nontrivial=converged and nontrivial_steps > 0, label=label if ctx.quick else "run-" + ("conv" if converged else "maxit"))


def pgdb_cases(ctx):
    setups = ["qst1", "qst3", "povmt1", "qpt1"] + ([] if ctx.quick else ["povmt1m3"])
    losses = ["se", "fse", "re", "fre"]
    shots_list = [10, 100, 1000, 10 ** 4, 10 ** 5, 0]
    cases = []
    idx = 0
    reps = ctx.n(1, 3)
    for rep in range(reps):
        for si, setup in enumerate(setups):
            for para in (True, False):
                for li, lname in enumerate(losses):
                    for mode in range(4):
                        idx += 1
                        if ctx.quick and (idx + si + li) % 2 == 1 and not getattr(ctx, "c11_tie_broken", False):
                            continue                                   # quick: half of the grid, every pair of factors still occurs
                        shots = shots_list[(idx + rep * 2 + mode) % len(shots_list)]
                        h = 1 + (idx + rep) % 3
                        eps = None if mode in (0, 1) else (1e-9 if mode == 2 else 1e-7)
                        if (idx + rep) % 5 == 0:
                            eps = 1e-10 if mode in (0, 1) else eps
                        slow = lname in ("se", "re") and setup in ("qpt1", "qst3", "povmt1m3")
                        max_iter = (60 if slow else 150) if ctx.quick else (150 if slow else 400)
                        case = {"setup": setup, "para": para, "loss": lname, "mode": mode, "h": h, "eps": eps,
                                "max_iter": max_iter, "shots": shots, "seed": ctx.rng.randrange(10 ** 6),
                                "truth_seed": ctx.rng.randrange(10 ** 6), "gamma": [0.3, 0.3, 0.1][(idx + rep) % 3],
                                "mu": [None, None, None, 1.0][(idx + rep) % 4]}
                        cases.append(case)
    # explicit start points (var_start option): the optimum must not depend on where the run starts
    # (generic loss classes only: the fast classes leave loss.num_var = None, so is_loss_and_option_sufficient() rejects any var_start with
    #  them and the estimator raises ValueError -- an observation outside this property's quantifier, see the report)
    for j, (setup, lname, mode) in enumerate(([("qst1", "se", 0), ("povmt1", "re", 0)] if ctx.quick else [("qst1", "se", 0), ("povmt1", "re", 0), ("qst1", "re", 3), ("povmt1", "se", 1)] * 3)):
        cases.append({"setup": setup, "para": j % 2 == 1, "loss": lname, "mode": mode, "h": 1, "eps": None if mode in (0, 1) else 1e-7,
                      "max_iter": 150 if ctx.quick else 400, "shots": [1000, 0, 100][j % 3], "seed": ctx.rng.randrange(10 ** 6),
                      "truth_seed": ctx.rng.randrange(10 ** 6), "start_seed": ctx.rng.randrange(10 ** 6), "gamma": 0.3, "mu": None})
    # truths at the rim of the physical set (see extreme_object)
    for j, (setup, lname, mode, shots) in enumerate(([("povmt1", "fse", 0, 0), ("povmt1", "fre", 1, 1000), ("qst1", "fre", 3, 0)] if ctx.quick else [("povmt1", "fse", 0, 0), ("povmt1", "fre", 1, 1000), ("qst1", "fre", 3, 0), ("qpt1", "fse", 2, 0)] * 4)):
        cases.append({"setup": setup, "para": j % 2 == 0, "loss": lname, "mode": mode, "h": 1 + j % 2, "eps": None if mode in (0, 1) else (1e-9 if mode == 2 else 1e-7),
                      "max_iter": 150 if ctx.quick else 400, "shots": shots, "seed": ctx.rng.randrange(10 ** 6),
                      "truth_seed": -(1 + ctx.rng.randrange(10 ** 6)), "gamma": 0.3, "mu": None})
    if ctx.quick:
        for para in (True, False):
            for lname, mode in (("fse", 0), ("fre", 2)):
                cases.append({"setup": "povmt1m3", "para": para, "loss": lname, "mode": mode, "h": 1, "eps": None if mode == 0 else 1e-9,
                              "max_iter": 150, "shots": [100, 10 ** 4][mode // 2], "seed": ctx.rng.randrange(10 ** 6),
                              "truth_seed": ctx.rng.randrange(10 ** 6), "gamma": 0.3, "mu": None})
    return cases


def sub_pgdb(ctx):
    cases = pgdb_cases(ctx)
    ctx.sample("pgdb", cases[0])
    ctx.run_cases("pgdb", chk_pgdb, cases)
    st = ctx.__dict__.get("c11_stats", {})
    ctx.note("pgdb: %d runs; measured maxima (relative): %s" % (len(cases), {k: float("%.3g" % v) for k, v in sorted(st.items())}))


# ====================================================================================== CVXPY estimator sub-check
def chk_cvx_est(ctx, case):
    sub = "cvx_est"
    site = "CvxpyLossMinimizationEstimator.calc_estimate"
    m_ = ctx.get_model()
    setup, fam = case["setup"], case["loss"]
    qt, c, kind, m = get_setup(setup, True)
    truth_full, empi = make_data(qt, kind, c, m, True, case["shots"], case["seed"], case["truth_seed"])
    cv = run_cvx(setup, fam, case["shots"], case["seed"], case["truth_seed"])
    xv = cv["var"]
    key = tuple(sorted((a, str(b)) for a, b in case.items()))
    label = "%s-%s-%s" % (setup, fam, case["shots"])
    cls = input_class(kind, True, m)
    stats = ctx.__dict__.setdefault("c11_stats_cvx", {})

    def stat(name, v):
        stats[name] = max(stats.get(name, 0.0), float(v))
    # the returned variable and the returned object denote the same thing (convert_var_to_qoperation of the template)
    full_from_var = from_var(kind, c, m, True, xv)
    same = np.allclose(np.concatenate([np.ravel(v) for v in (full_from_var if kind == "povm" else [full_from_var])]),
                       np.concatenate([np.ravel(v) for v in (cv["full"] if kind == "povm" else [cv["full"]])]), rtol=0, atol=1e-12)
    if not same:
        ctx.violation(sub, site, "object-vs-variable", "estimated_qoperation is not the object of estimated_var (%s)" % label, case)
    ok, why = feasibility(ctx, kind, c, m, True, xv, TOL["cvx_psd"], 1e-9)
    if not ok:
        ctx.violation(sub, site, "estimate-infeasible:" + cls, "SCS estimate: %s (%s)" % (why, label), case)
        return
    # loss expression: S * problem.value = quara's loss (identity weights) at the same point; equal shots per schedule
    loss, lo = make_loss("fse" if fam == "se" else "fre")
    with quiet():
        loss.set_from_standard_qtomography_option_data(qt, lo, copy_data(empi), True, False)
        f_q = float(loss.value(xv))
    S = cv["S"]
    stat("cvx_loss_expr", abs(S * cv["loss"] - f_q) / (1 + abs(f_q)))
    if abs(S * cv["loss"] - f_q) > TOL["cvx_loss_expr"] * (1 + abs(f_q)):
        ctx.violation(sub, "CvxpyLossFunction.value_cvxpy", "loss-expression", "S*problem.value = %.12g but quara's %s loss at the returned point is %.12g (%s)" % (S * cv["loss"], fam, f_q, label), case)
        return
    if fam == "se":
        f_m = float(m_.call("c11.sq_value", [qt.calc_matA().shape[0], qt.num_variables],
                            rflat(qt.calc_matA()) + rflat(qt.calc_vecB()) + rflat(np.concatenate([qq for _, qq in empi])) + rflat(xv))[0])
        if abs(S * cv["loss"] - f_m) > TOL["cvx_loss_expr"] * (1 + abs(f_m)):
            ctx.violation(sub, "CvxpyUniformSquaredError.value_cvxpy", "loss-expression", "S*problem.value = %.12g, exact |Ax+b-q|^2 = %.12g (%s)" % (S * cv["loss"], f_m, label), case)
            return
    # agreement with backtracking (fast loss of the same family, default options)
    pcase = {"setup": setup, "para": True, "loss": "fse" if fam == "se" else "fre", "mode": 0, "h": 1, "eps": None,
             "max_iter": 2000, "shots": case["shots"], "seed": case["seed"], "truth_seed": case["truth_seed"]}
    r, loss2, algo, ao, _ = run_pgdb(qt, empi, pcase)
    dres = r.detailed_results[0]
    f_p = float(dres.fx[-1])
    conv = dres.k < 2000
    stat("cvx_vs_pgdb:" + fam + ("" if metric_of(setup, True)[1] is not None else ":known-C11-3-class"), abs(f_q - f_p) / (1 + abs(f_p)))
    x_p = np.array(r.estimated_var, dtype=float)
    if conv and abs(f_q - f_p) > TOL["cvx_agree"] * (1 + abs(f_p)):
        if f_q > f_p:
            ctx.violation(sub, site, "not-optimal:" + cls, "estimators disagree: loss at SCS estimate %.12g > loss at backtracking estimate %.12g (%s)" % (f_q, f_p, label), case)
            return
        ctx.violation(sub, "LossMinimizationEstimator.calc_estimate", "not-optimal:" + cls, "estimators disagree: loss at backtracking estimate %.12g (stopped by its criterion, k=%d) > loss at SCS estimate %.12g (%s)" % (f_p, dres.k, f_q, label), case)
        if metric_of(setup, True)[1] is not None:
            return
        # class with a non-Euclidean projection metric (known finding C11-3): the SCS estimate is still compared with a
        # backtracking run, the one on the FULL parametrisation of the same tomography (same data), whose metric is M = I
        qtF = get_setup(setup, False)[0]
        pcaseF = dict(pcase, para=False)
        rF, _, _, _, _ = run_pgdb(qtF, empi, pcaseF)
        dF = rF.detailed_results[0]
        f_p = float(dF.fx[-1]); conv = dF.k < 2000
        x_p = to_var(kind, True, from_var(kind, c, m, False, np.array(rF.estimated_var, dtype=float)))
        stat("cvx_vs_pgdb_full:" + fam, abs(f_q - f_p) / (1 + abs(f_p)))
        if conv and abs(f_q - f_p) > TOL["cvx_agree"] * (1 + abs(f_p)):
            who = (site, "SCS", "backtracking (full parametrisation)") if f_q > f_p else ("LossMinimizationEstimator.calc_estimate", "backtracking (full parametrisation)", "SCS")
            ctx.violation(sub, who[0], "not-optimal:" + input_class(kind, False, m) if f_q < f_p else "not-optimal:" + cls,
                          "estimators disagree: loss at the %s estimate %.12g > loss at the %s estimate %.12g (%s)" % (who[1], max(f_q, f_p), who[2], min(f_q, f_p), label), case)
            return
    if case.get("sequence"):
        # ONE CVXPY estimator / loss / algorithm triple serves a SEQUENCE of data sets (calc_estimate_sequence): every element must be the
        # estimate (and the loss value) of its own data set
        from quara.interface.cvxpy.qtomography.standard.estimator import CvxpyLossMinimizationEstimator
        from quara.interface.cvxpy.qtomography.standard.loss_function import CvxpyUniformSquaredError, CvxpyRelativeEntropy, CvxpyLossFunctionOption
        from quara.interface.cvxpy.qtomography.standard.minimization_algorithm import CvxpyMinimizationAlgorithm, CvxpyMinimizationAlgorithmOption
        seeds2 = (case["seed"] + 101, case["truth_seed"] + 7)
        _, empi2 = make_data(qt, kind, c, m, True, case["shots"], seeds2[0], seeds2[1])
        cv2 = run_cvx(setup, fam, case["shots"], seeds2[0], seeds2[1])
        with quiet(), warnings.catch_warnings():
            warnings.simplefilter("ignore")
            crs = CvxpyLossMinimizationEstimator().calc_estimate_sequence(
                qt, [copy_data(empi), copy_data(empi2), copy_data(empi)], CvxpyUniformSquaredError() if fam == "se" else CvxpyRelativeEntropy(),
                CvxpyLossFunctionOption(), CvxpyMinimizationAlgorithm(), CvxpyMinimizationAlgorithmOption(name_solver="scs", eps_tol=1e-8),
                is_computation_time_required=True)
        vs = [np.array(v, dtype=float) for v in crs.estimated_var_sequence]; ls = [float(v) for v in crs.estimated_loss_sequence]
        for di, (want_v, want_l) in enumerate([(xv, cv["loss"]), (cv2["var"], cv2["loss"]), (xv, cv["loss"])]):
            if di >= len(vs) or np.abs(vs[di] - want_v).max() > 1e-6 * (1 + np.abs(want_v).max()) or abs(ls[di] - want_l) > 1e-8 * (1 + abs(want_l)):
                ctx.violation(sub, "CvxpyLossMinimizationEstimator.calc_estimate_sequence", "sequence-element-differs-from-single-estimate:" + cls,
                              "element %d of calc_estimate_sequence (3 data sets) differs from the single-call estimate of its own data set (%s)" % (di, label), case)
                return
    # competitors must not beat the SCS estimate
    comps = [("truth", to_var(kind, True, truth_full)), ("pgdb", x_p)]
    for j in range(ctx.n(3, 8)):
        comps.append(("random%d" % j, to_var(kind, True, rand_object(kind, c, m, case["truth_seed"] * 31 + 7 + j))))
    for name, z in comps:
        okz, _ = feasibility(ctx, kind, c, m, True, z, TOL["psd"], 1e-6)
        if not okz:
            continue
        with quiet():
            fz = float(loss.value(z))
        stat("cvx_opt_excess", max(0.0, f_q - fz) / (1 + abs(f_q)))
        if f_q - fz > TOL["cvx_agree"] * (1 + abs(f_q)):
            ctx.violation(sub, site, "not-optimal:" + cls, "competitor %s has loss %.12g < loss of the SCS estimate %.12g (%s)" % (name, fz, f_q, label), case)
            return
    ctx.count(sub, key=key, nontrivial=conv, label=label if ctx.quick else "%s-%s" % (setup, fam))


def sub_cvx_est(ctx):
    cases = []
    setups = ["qst1", "qst3", "povmt1", "qpt1", "povmt1m3"]
    shots_list = [10, 100, 1000, 10 ** 4, 10 ** 5, 0]
    i = 0
    for rep in range(ctx.n(1, 4)):
        for setup in setups:
            for fam in ("se", "re"):
                nsh = 4 if getattr(ctx, "c11_cvx_tie_broken", False) else 2
                for shots in (shots_list if not ctx.quick else [shots_list[(i + j * 3) % 6] for j in range(2)] + [shots_list[(i + 1 + j * 3) % 6] for j in range(nsh - 2)]):
                    i += 1
                    cases.append({"setup": setup, "loss": fam, "shots": shots, "seed": ctx.rng.randrange(10 ** 6),
                                  "truth_seed": ctx.rng.randrange(10 ** 6)})
    # truths at the rim of the physical set (negative truth seed -> extreme_object): unbalanced POVMs (identity coefficient > 1),
    # pure states with exact zero probabilities, unitary gates; exact data and finite shots
    ext = [("povmt1", "se", 1000), ("povmt1", "re", 0), ("povmt1m3", "re", 1000), ("qst1", "re", 0)]
    if not ctx.quick:
        ext += [("povmt1", "se", 0), ("povmt1", "re", 100), ("povmt1m3", "se", 0), ("qst1", "se", 0), ("qst1", "re", 100), ("qst3", "re", 0),
                ("qst3", "se", 1000), ("qpt1", "se", 0), ("qpt1", "re", 0), ("qpt1", "re", 1000)] * 2
    for setup, fam, shots in ext:
        cases.append({"setup": setup, "loss": fam, "shots": shots, "seed": ctx.rng.randrange(10 ** 6), "truth_seed": -(1 + ctx.rng.randrange(10 ** 6))})
    for setup, fam, shots in [("qst1", "re", 100), ("povmt1", "se", 1000)] * ctx.n(1, 3):
        cases.append({"setup": setup, "loss": fam, "shots": shots, "seed": ctx.rng.randrange(10 ** 6), "truth_seed": ctx.rng.randrange(10 ** 6), "sequence": True})
    ctx.sample("cvx_est", cases[0])
    ctx.run_cases("cvx_est", chk_cvx_est, cases)
    st = ctx.__dict__.get("c11_stats_cvx", {})
    ctx.note("cvx_est: %d runs; measured maxima (relative): %s" % (len(cases), {k: float("%.3g" % v) for k, v in sorted(st.items())}))


# ====================================================================================== estimator-level histories (re-used objects)
def ref_probs(qt, var):
    """predicted distributions of the CURRENT tomography at var: p = A var + b with A, b asked from the tomography object itself
    (never from a loss object); not normalised, not clipped -- the argument of the loss's defining formula"""
    A = np.array(qt.calc_matA(), dtype=float); b = np.array(qt.calc_vecB(), dtype=float)
    p = A @ np.array(var, dtype=float) + b
    out, off = [], 0
    for i in range(qt.num_schedules):
        k = qt.num_outcomes(i)
        out.append(p[off:off + k]); off += k
    return out


def ref_loss(m_, fam, ps, qs):
    """the loss's defining formula with identity weights on given predicted distributions: squared error exactly (Coq model
    C11_sq_loss with n = 0, b = p), relative entropy sum q ln(q/p) with quara's 1e-10 clipping.  returns (value, inband)"""
    p = np.concatenate(ps); q = np.concatenate([np.asarray(x, dtype=float) for x in qs])
    if fam == "se":
        return float(m_.call("c11.sq_value", [len(p), 0], rflat(p) + rflat(q))[0]), False
    val = 0.0
    inband = False
    for qi, pi in zip(q, p):
        if qi >= 1e-10:
            if pi < 1e-7:
                inband = True
            val += qi * math.log(max(qi / max(pi, 1e-10), 1e-10))
    return val, inband


def chk_reuse(ctx, case):
    """one history: ONE LossMinimizationEstimator / loss / algorithm triple serves several different tomographies and data sets"""
    from quara.protocol.qtomography.standard.loss_minimization_estimator import LossMinimizationEstimator
    from quara.minimization_algorithm.projected_gradient_descent_backtracking import (
        ProjectedGradientDescentBacktracking as PGDB, ProjectedGradientDescentBacktrackingOption as PGDBO)
    sub = "reuse"
    site = "LossMinimizationEstimator.calc_estimate"
    m_ = ctx.get_model()
    lname = case["loss"]
    fam = "se" if lname in ("se", "fse") else "re"
    max_iter = case.get("max_iter", 400)

    def triple():
        loss, lo = make_loss(lname)
        return LossMinimizationEstimator(), loss, lo, PGDB(), PGDBO(max_iteration_optimization=max_iter)

    def estimate(objs, qt, empi):
        est, loss, lo, algo, ao = objs
        with quiet(), warnings.catch_warnings():
            warnings.simplefilter("ignore")
            return est.calc_estimate(qt, copy_data(empi), loss, lo, algo, ao,
                                     is_computation_time_required=True, is_detailed_results_required=True)
    shared = triple()
    stats = ctx.__dict__.setdefault("c11_stats_reuse", {})

    def stat(name, v):
        stats[name] = max(stats.get(name, 0.0), float(v))
    hist = []
    for si, st in enumerate(case["steps"]):
        setup, para = st["setup"], st["para"]
        hist.append("%s%s" % (setup, "-eq" if para else "-full"))
        qt, c, kind, m = get_setup(setup, para)
        truth_full, empi = make_data(qt, kind, c, m, para, st["shots"], st["seed"], st["truth_seed"])
        qs = [qq for _, qq in empi]
        tag = "step %d of history %s (loss %s, %s shots)" % (si, " -> ".join(hist), lname, st["shots"])
        sig = ":" + lname + ":" + input_class(kind, para, m)
        key = (lname, tuple(hist), st["shots"], st["seed"], st["truth_seed"])
        r = estimate(shared, qt, empi)
        r_f = estimate(triple(), qt, empi)
        x = np.array(r.estimated_var, dtype=float); xf = np.array(r_f.estimated_var, dtype=float)
        d = r.detailed_results[0]; df = r_f.detailed_results[0]
        fx = [float(v) for v in d.fx]
        conv = int(d.k) < max_iter and int(df.k) < max_iter
        # (1) the estimate does not depend on what the objects were used for before
        dx = float(np.abs(x - xf).max()) if x.shape == xf.shape else float("inf")
        stat("reused_vs_fresh", dx)
        if dx > 1e-7 * (1 + np.abs(xf).max()):
            ctx.violation(sub, site, "reused-objects-estimate-differs-from-fresh" + sig,
                          "%s: the estimate of the re-used estimator/loss/algorithm objects differs from the estimate of fresh objects by %.3g (k=%d vs %d)" % (tag, dx, d.k, df.k), case)
        # (2) the loss value reported along the run is the defining formula on the CURRENT tomography's predicted distributions
        f_ref, inband = ref_loss(m_, fam, ref_probs(qt, x), qs)
        if not inband:
            stat("reported_vs_formula", abs(fx[-1] - f_ref) / (1 + abs(f_ref)))
            if abs(fx[-1] - f_ref) > 1e-9 * (1 + abs(f_ref)):
                ctx.violation(sub, site, "reported-loss-not-defining-formula" + sig,
                              "%s: loss reported at the estimate %.12g, defining formula on the current tomography's predicted distributions %.12g" % (tag, fx[-1], f_ref), case)
        # (3) the same run invariants as a fresh run: monotone loss, feasible estimate
        for i in range(len(fx) - 1):
            if fx[i + 1] > fx[i] + TOL["monotone"] * (1 + abs(fx[i])):
                ctx.violation(sub, site, "loss-increases" + sig, "%s: fx[%d]=%.17g > fx[%d]=%.17g" % (tag, i + 1, fx[i + 1], i, fx[i]), case)
                return
        ok, why = feasibility(ctx, kind, c, m, para, x, TOL["psd"], TOL["eq"])
        if not ok:
            ctx.violation(sub, site, "estimate-infeasible" + sig, "%s: %s" % (tag, why), case)
            return
        # (4) optimality against physical competitors, measured with the defining formula (never with the re-used loss object)
        comps = [("truth", to_var(kind, para, truth_full)), ("fresh-objects", xf)]
        for j in range(ctx.n(3, 6)):
            comps.append(("random%d" % j, to_var(kind, para, rand_object(kind, c, m, st["truth_seed"] * 31 + 7 + j))))
        if conv and not inband:
            for name, z in comps:
                okz, _ = feasibility(ctx, kind, c, m, para, z, TOL["psd"], 1e-6)
                if not okz:
                    continue
                fz, inb = ref_loss(m_, fam, ref_probs(qt, z), qs)
                if inb:
                    continue
                stat("opt_excess", max(0.0, f_ref - fz) / (1 + abs(f_ref)))
                if f_ref - fz > TOL["opt"] * (1 + abs(f_ref)):
                    ctx.violation(sub, site, "not-optimal" + sig, "%s: competitor %s has loss %.12g < loss of the estimate %.12g (defining formula on the current tomography)" % (tag, name, fz, f_ref), case)
                    return
        if st.get("sequence"):
            # the same objects serve a SEQUENCE of data sets in one call (calc_estimate_sequence): every element must be the estimate of
            # its own data set (fresh objects, single call)
            datas = [empi]
            for extra in range(2):
                datas.append(make_data(qt, kind, c, m, para, [st["shots"], 10, 1000][extra + 1] if st["shots"] else [0, 100, 1000][extra + 1],
                                       st["seed"] + 101 * (extra + 1), st["truth_seed"] + 7 * (extra + 1))[1])
            est, loss, lo, algo, ao = shared
            with quiet(), warnings.catch_warnings():
                warnings.simplefilter("ignore")
                rs_ = est.calc_estimate_sequence(qt, [copy_data(dd_) for dd_ in datas], loss, lo, algo, ao,
                                                 is_computation_time_required=True, is_detailed_results_required=True)
            seq = [np.array(v, dtype=float) for v in rs_.estimated_var_sequence]
            if len(seq) != len(datas):
                ctx.violation(sub, "LossMinimizationEstimator.calc_estimate_sequence", "sequence-length" + sig, "%s: %d estimates for %d data sets" % (tag, len(seq), len(datas)), case)
            for di, (xd, dd_) in enumerate(zip(seq, datas)):
                xfd = np.array(estimate(triple(), qt, dd_).estimated_var, dtype=float)
                dxs = float(np.abs(xd - xfd).max()) if xd.shape == xfd.shape else float("inf")
                stat("sequence_vs_single", dxs)
                if dxs > 1e-7 * (1 + np.abs(xfd).max()):
                    ctx.violation(sub, "LossMinimizationEstimator.calc_estimate_sequence", "sequence-element-differs-from-single-estimate" + sig,
                                  "%s: element %d of calc_estimate_sequence differs from the estimate of its own data set (fresh objects) by %.3g" % (tag, di, dxs), case)
                    break
                fr, inb = ref_loss(m_, fam, ref_probs(qt, xd), [qq for _, qq in dd_])
                fd_rep = float(rs_.detailed_results[di].fx[-1])
                if not inb and abs(fd_rep - fr) > 1e-9 * (1 + abs(fr)):
                    ctx.violation(sub, "LossMinimizationEstimator.calc_estimate_sequence", "reported-loss-not-defining-formula" + sig,
                                  "%s: element %d reports loss %.12g, defining formula on its own data %.12g" % (tag, di, fd_rep, fr), case)
                    break
            ctx.count(sub, key=key + ("sequence",), nontrivial=True, label="%s-sequence" % lname)
        prev = case["steps"][si - 1] if si else None
        same = prev is not None and prev["setup"].split("/")[0] == setup.split("/")[0] and prev["para"] == para
        ctx.count(sub, key=key, nontrivial=(si > 0 and conv and not inband),
                  label="%s-%s" % (lname, "first-use" if si == 0 else ("same-shape-other-testers" if same else "other-shape")))


def sub_reuse(ctx):
    shots_list = [100, 1000, 10 ** 4, 0, 10]
    cases = []
    idx = 0

    def step(setup, para):
        nonlocal idx
        idx += 1
        return {"setup": setup, "para": para, "shots": shots_list[idx % len(shots_list)], "seed": ctx.rng.randrange(10 ** 6),
                "truth_seed": ctx.rng.randrange(10 ** 6)}
    for li, lname in enumerate(["se", "fse", "re", "fre"]):
        for rep in range(ctx.n(1, 2)):
            para = (li + rep) % 2 == 0
            # 1-qubit QST with three tester orders (same class / variables / schedules), then the other parametrisation
            cases.append({"loss": lname, "steps": [step("qst1", para), step("qst1/zxy", para), dict(step("qst1/yzx", para), sequence=True), step("qst1", not para)]})
            if not ctx.quick:
                cases.append({"loss": lname, "steps": [step("povmt1", para), dict(step("povmt1/2013", para), sequence=True), step("povmt1/3102", not para), step("povmt1/3102", para)]})
                cases.append({"loss": lname, "max_iter": 300, "steps": [step("qpt1", para), step("qpt1/2013", para), step("qpt1/1302", para)]})
                cases.append({"loss": lname, "max_iter": 300, "steps": [step("qst1/yxz", para), step("povmt1", para), step("qpt1", not para), step("qst1", para), step("qst3", para)]})
    ctx.sample("reuse", cases[0])
    ctx.run_cases("reuse", chk_reuse, cases)
    st = ctx.__dict__.get("c11_stats_reuse", {})
    ctx.note("reuse: %d histories; measured maxima: %s" % (len(cases), {k: float("%.3g" % v) for k, v in sorted(st.items())}))


# ====================================================================================== reporting flags / default call path
def chk_flags(ctx, case):
    """the estimate must not depend on the reporting keywords: the plain call (defaults: no computation time, no detailed results), the three
    other keyword combinations and calc_estimate_sequence must return the same variable; the PLAIN estimate must be optimal (defining formula
    on the tomography's own predicted distributions) against truth, random physical points, the detailed-run estimate and the SCS solution.
    Settings include over-determined tomographies (qutrit QST with 7 measurements, over-complete qubit / POVM tester sets) with interior truths."""
    from quara.protocol.qtomography.standard.loss_minimization_estimator import LossMinimizationEstimator
    from quara.minimization_algorithm.projected_gradient_descent_backtracking import (
        ProjectedGradientDescentBacktracking as PGDB, ProjectedGradientDescentBacktrackingOption as PGDBO)
    sub = "flags"
    site = "LossMinimizationEstimator.calc_estimate"
    m_ = ctx.get_model()
    setup, para, lname = case["setup"], case["para"], case["loss"]
    fam = "se" if lname in ("se", "fse") else "re"
    qt, c, kind, m = get_setup(setup, para)
    truth_full, empi = make_data(qt, kind, c, m, para, case["shots"], case["seed"], case["truth_seed"])
    qs = [qq for _, qq in empi]
    sig = ":" + lname + ":" + input_class(kind, para, m)
    label = "%s-%s-%s-%s" % (setup, "eq" if para else "full", lname, case["shots"])
    key = tuple(sorted((a, str(b)) for a, b in case.items()))
    max_iter = case.get("max_iter", 1000)
    stats = ctx.__dict__.setdefault("c11_stats_flags", {})

    def stat(name, v):
        stats[name] = max(stats.get(name, 0.0), float(v))

    def call(seq, **kw):
        loss, lo = make_loss(lname)
        est, algo, ao = LossMinimizationEstimator(), PGDB(), PGDBO(max_iteration_optimization=max_iter)
        with quiet(), warnings.catch_warnings():
            warnings.simplefilter("ignore")
            if seq:
                r = est.calc_estimate_sequence(qt, [copy_data(empi)], loss, lo, algo, ao, **kw)
                return r, np.array(r.estimated_var_sequence[0], dtype=float)
            r = est.calc_estimate(qt, copy_data(empi), loss, lo, algo, ao, **kw)
            return r, np.array(r.estimated_var, dtype=float)
    r_det, x_det = call(False, is_computation_time_required=True, is_detailed_results_required=True)
    conv = int(r_det.detailed_results[0].k) < max_iter
    variants = [("plain call (default keywords)", False, {}),
                ("is_computation_time_required=True", False, {"is_computation_time_required": True}),
                ("is_detailed_results_required=True", False, {"is_detailed_results_required": True}),
                ("calc_estimate_sequence, default keywords", True, {})]
    x_plain = None
    for name, seq, kw in variants:
        _, xv = call(seq, **kw)
        if x_plain is None:
            x_plain = xv
        dx = float(np.abs(xv - x_det).max()) if xv.shape == x_det.shape else float("inf")
        stat("flag_dependence", dx)
        if dx > 1e-9 * (1 + np.abs(x_det).max()):
            ctx.violation(sub, site, "estimate-depends-on-reporting-flags" + sig,
                          "%s: the estimate of the %s differs from the estimate of the call with computation time and detailed results by %.3g" % (label, name, dx), case)
            break
    if case.get("layouts"):
        # data arrays as read-only, non-contiguous views (every second element of a larger buffer), integer shot counts as numpy ints; the
        # same objects called twice with the caller modifying the returned array in place in between
        bufs = []
        views = []
        for n_, q_ in empi:
            big = np.zeros(2 * len(q_) + 1); big[1::2] = q_
            v_ = big[1::2]; v_.flags.writeable = False
            bufs.append(big.copy()); views.append((np.int64(n_), v_))
        loss, lo = make_loss(lname)
        est, algo, ao = LossMinimizationEstimator(), PGDB(), PGDBO(max_iteration_optimization=max_iter)
        with quiet(), warnings.catch_warnings():
            warnings.simplefilter("ignore")
            try:
                r1 = est.calc_estimate(qt, views, loss, lo, algo, ao)
                x1 = np.array(r1.estimated_var, dtype=float)
                ev = r1.estimated_var
                if isinstance(ev, np.ndarray) and ev.flags.writeable:
                    ev += 1.0                                    # the caller scribbles over the returned array
                r2 = est.calc_estimate(qt, views, loss, lo, algo, ao)
                x2 = np.array(r2.estimated_var, dtype=float)
            except Exception as e:       # noqa
                ctx.violation(sub, site, "raises-on-array-layout" + sig, "%s: read-only non-contiguous data arrays: %s: %s" % (label, type(e).__name__, str(e)[:200]), case)
                return
        for (n_, v_), b_ in zip(views, bufs):
            if not np.array_equal(v_, b_[1::2]):
                ctx.violation(sub, site, "mutates-data-argument" + sig, "%s: the empirical distributions passed in were modified" % label, case)
                return
        for nm_, xx in (("read-only non-contiguous data arrays", x1), ("second call after the caller modified the returned array in place", x2)):
            dx = float(np.abs(xx - x_det).max())
            stat("layout_dependence", dx)
            if dx > 1e-9 * (1 + np.abs(x_det).max()):
                ctx.violation(sub, site, "estimate-depends-on-array-layout-or-history" + sig, "%s: %s: estimate differs by %.3g" % (label, nm_, dx), case)
                return
    # the plain estimate against the property itself
    ok, why = feasibility(ctx, kind, c, m, para, x_plain, TOL["psd"], TOL["eq"])
    if not ok:
        ctx.violation(sub, site, "estimate-infeasible" + sig, "%s: plain call: %s" % (label, why), case)
        return
    f_plain, inband = ref_loss(m_, fam, ref_probs(qt, x_plain), qs)
    comps = [("truth", to_var(kind, para, truth_full)), ("detailed-run estimate", x_det)]
    for j in range(3):
        comps.append(("random%d" % j, to_var(kind, para, rand_object(kind, c, m, abs(case["truth_seed"]) * 31 + 7 + j))))
    if para:
        cv = run_cvx(setup, fam, case["shots"], case["seed"], case["truth_seed"])
        comps.append(("scs", to_var(kind, para, cv["full"])))
    if conv and not inband:
        for name, z in comps:
            okz, _ = feasibility(ctx, kind, c, m, para, z, TOL["cvx_psd"] if name == "scs" else TOL["psd"], 1e-6)
            if not okz:
                continue
            fz, inb = ref_loss(m_, fam, ref_probs(qt, z), qs)
            if inb:
                continue
            stat("opt_excess", max(0.0, f_plain - fz) / (1 + abs(f_plain)))
            if f_plain - fz > TOL["opt"] * (1 + abs(f_plain)):
                ctx.violation(sub, site, "not-optimal" + sig, "%s: plain call (default keywords): competitor %s has loss %.12g < loss of the estimate %.12g" % (label, name, fz, f_plain), case)
                return
    A = np.array(qt.calc_matA())
    ctx.count(sub, key=key, nontrivial=conv and not inband, label="%s-%s" % (setup.split("/")[0], "overdetermined" if A.shape[0] - qt.num_schedules > qt.num_variables - (0 if para else 1) else "determined"))


def sub_flags(ctx):
    # interior truths: seed = 1 mod 3 gives full-rank states / channels (rand_object); over-determined settings first
    grid = [("qst3", True, "fre", 100), ("qst1/xyzxz", True, "fre", 100), ("qst1/xyzxz", False, "fre", 1000),
            ("povmt1/012301", True, "fre", 1000), ("qst1", False, "fse", 100)]
    if not ctx.quick or getattr(ctx, "c11_est_tie_broken", False):
        grid += [("qst3", False, "fre", 1000), ("qpt1", True, "fse", 1000), ("qst3", True, "re", 1000), ("qst3", True, "fse", 100), ("qst3", False, "se", 1000), ("qst3", True, "fre", 10 ** 5), ("qst1/xyzxz", False, "fre", 10 ** 4),
                 ("qst1/zzxy", True, "fse", 100), ("povmt1/012301", False, "re", 100), ("povmt1m3/01230", False, "fre", 1000), ("qpt1", False, "fre", 100),
                 ("qpt1/01231", True, "fre", 1000), ("qst1", True, "re", 0), ("povmt1", True, "fre", 10)]
    cases = []
    for setup, para, lname, shots in grid:
        cases.append({"setup": setup, "para": para, "loss": lname, "shots": shots, "seed": ctx.rng.randrange(10 ** 6),
                      "truth_seed": 3 * ctx.rng.randrange(10 ** 5) + 1, "layouts": not setup.startswith("qst3") or not ctx.quick})
    ctx.sample("flags", cases[0])
    ctx.run_cases("flags", chk_flags, cases)
    st = ctx.__dict__.get("c11_stats_flags", {})
    ctx.note("flags: %d cases; measured maxima: %s" % (len(cases), {k: float("%.3g" % v) for k, v in sorted(st.items())}))


# ====================================================================================== CVXPY linear maps
def cvx_point(nvar, point):
    if point == "zero":
        return np.zeros(nvar)
    kind_, arg = point.split(":")
    if kind_ == "basis":
        v = np.zeros(nvar); v[int(arg)] = 1.0
        return v
    rs = np.random.RandomState(int(arg))
    # short mantissas keep the exact arithmetic cheap
    return np.round(rs.randn(nvar) * 64) / 64


def chk_cvx_maps(ctx, case):
    import cvxpy as cp
    from quara.interface.cvxpy import conversion as cv
    from quara.objects.composite_system_typical import generate_composite_system
    sub = "cvx_maps"
    m_ = ctx.get_model()
    t, dim, m = case["type"], case["dim"], case.get("m")
    with quiet():
        c = generate_composite_system("qubit" if dim == 2 else "qutrit", 1)
    d = c.dim; D = d * d
    B = basis_of(c)
    bflat = []
    for b in B:
        bflat += cflat(b)
    nvar = cv.num_cvxpy_variable(t, d, m)
    val = cvx_point(nvar, case["point"])
    var = cp.Variable(nvar)
    var.value = val
    if case["point"] == "zero":
        # the optimisation variable quara hands to the solver ranges over ALL of R^nvar: the feasible set of the problem is then
        # exactly the set cut out by the `>> 0` constraints checked below (no box bounds / sign / integrality attributes)
        gv = cv.generate_cvxpy_variable(t, d, m)
        restr = {k_: v_ for k_, v_ in gv.attributes.items() if not (v_ is None or v_ is False)}
        if gv.shape != (nvar,) or restr:
            ctx.violation(sub, "conversion.generate_cvxpy_variable", "variable-domain-restricted",
                          "generate_cvxpy_variable(%r, %d, %r): shape %s (expected (%d,)), domain-restricting attributes %s" % (t, d, m, gv.shape, nvar, sorted(restr)), case)
    key = (t, dim, m, case["point"])
    sd = float(np.sqrt(d)); isd = float(1 / np.sqrt(d)); dd = float(d)
    tol = 1e-12

    def mat(vals, k):
        return np.array(to_c(vals)).reshape(k, k)

    def dense(v):
        return np.asarray(v.toarray() if hasattr(v, "toarray") else v, dtype=complex)

    def cmp_(site, sig, got, want, what):
        got = dense(got)
        if got.shape != want.shape or np.abs(got - want).max() > tol * (1 + np.abs(want).max()):
            ctx.violation(sub, site, sig, "%s: differs by %.3g at %s" % (what, float(np.abs(got - want).max()) if got.shape == want.shape else -1, key), case)
            return False
        return True

    def sp_ok(site, got, ref, what):
        """with_sparsity expressions only feed `>> 0`: accept the operator or its transpose (same PSD verdict, theorem
        C11_transpose_same_psd_constraint), record which"""
        got = dense(got)
        if np.abs(got - ref).max() <= tol * (1 + np.abs(ref).max()):
            return "same"
        if np.abs(got - ref.T).max() <= tol * (1 + np.abs(ref).max()):
            return "transpose"
        ctx.violation(sub, site, "value", "%s: neither the reference operator nor its transpose (differs by %.3g) at %s" % (what, float(np.abs(got - ref).max()), key), case)
        return None

    with warnings.catch_warnings():
        warnings.simplefilter("ignore")
        if t == "state":
            ref = mat(m_.call("c11.cvx_state", [d, 0], [isd, dd] + bflat + rflat(val)), d)
            mod1 = mat(m_.call("c11.cvx_state", [d, 1], [isd, dd] + bflat + rflat(val)), d)
            mod2 = mat(m_.call("c11.cvx_state", [d, 2], [isd, dd] + bflat + rflat(val)), d)
            e1 = cv.dmat_from_var(c, var).value
            e2 = cv.dmat_from_var_with_sparsity(c, var).value
            q1 = cv.convert_quara_variable_to_state(c, val).to_density_matrix()
            q2 = cv.convert_cvxpy_variable_to_state(c, var).to_density_matrix()
            ok = cmp_("conversion.dmat_from_var", "model-mismatch", e1, mod1, "dmat_from_var vs model of the code")
            ok &= cmp_("conversion.dmat_from_var", "value", e1, ref, "dmat_from_var vs operator of quara's variable")
            ok &= cmp_("conversion.convert_quara_variable_to_state", "value", q1, ref, "convert_quara_variable_to_state vs model")
            ok &= cmp_("conversion.convert_cvxpy_variable_to_state", "value", q2, ref, "convert_cvxpy_variable_to_state vs model")
            o = sp_ok("conversion.dmat_from_var_with_sparsity", e2, ref, "dmat_from_var_with_sparsity")
            ok &= o is not None
            if o:
                ok &= cmp_("conversion.dmat_from_var_with_sparsity", "model-mismatch", e2 if o == "transpose" else dense(e2).T, mod2, "with_sparsity vs model (column-major reshape)")
            cons = [(cv.generate_cvxpy_constraints_from_cvxpy_variable(c, t, var), [ref]),
                    (cv.generate_cvxpy_constraints_from_cvxpy_variable_with_sparsity(c, t, var), [ref])]
        elif t == "povm":
            refs = []
            ok = True
            o = "same"
            sp = cv.povm_matrices_from_var_with_sparsity(c, var)
            qv = cv.convert_quara_variable_to_povm(c, m, val).matrices()
            qc = cv.convert_cvxpy_variable_to_povm(c, m, var).matrices()
            for x in range(m):
                ref = mat(m_.call("c11.cvx_povm", [d, m, x, 0], [sd] + bflat + rflat(val)), d)
                mod2 = mat(m_.call("c11.cvx_povm", [d, m, x, 2], [sd] + bflat + rflat(val)), d)
                refs.append(ref)
                e1 = cv.povm_element_from_var(c, m, x, var)
                e1 = e1.value if hasattr(e1, "value") else e1
                ok &= cmp_("conversion.povm_element_from_var", "value", e1, ref, "povm_element_from_var x=%d" % x)
                ok &= cmp_("conversion.convert_quara_variable_to_povm", "value", qv[x], ref, "convert_quara_variable_to_povm x=%d" % x)
                ok &= cmp_("conversion.convert_cvxpy_variable_to_povm", "value", qc[x], ref, "convert_cvxpy_variable_to_povm x=%d" % x)
                o = sp_ok("conversion.povm_matrices_from_var_with_sparsity", sp[x].value, ref, "povm_matrices_from_var_with_sparsity x=%d" % x)
                ok &= o is not None
                if o:
                    ok &= cmp_("conversion.povm_matrices_from_var_with_sparsity", "model-mismatch", sp[x].value if o == "transpose" else dense(sp[x].value).T, mod2, "with_sparsity vs model x=%d" % x)
            ok &= len(sp) == m
            cons = [(cv.generate_cvxpy_constraints_from_cvxpy_variable(c, t, var, m), refs),
                    (cv.generate_cvxpy_constraints_from_cvxpy_variable_with_sparsity(c, t, var, m), refs)]
        elif t == "gate":
            ref = mat(m_.call("c11.cvx_gate", [d, 0], [dd] + bflat + rflat(val)), D)
            mod1 = mat(m_.call("c11.cvx_gate", [d, 1], [dd] + bflat + rflat(val)), D)
            mod2 = mat(m_.call("c11.cvx_gate", [d, 2], [dd] + bflat + rflat(val)), D)
            e1 = cv.choi_from_var(c, var).value
            e2 = cv.choi_from_var_with_sparsity(c, var).value
            q1 = cv.convert_quara_variable_to_gate(c, val).to_choi_matrix()
            q2 = cv.convert_cvxpy_variable_to_gate(c, var).to_choi_matrix()
            ok = cmp_("conversion.choi_from_var", "model-mismatch", e1, mod1, "choi_from_var vs model of the code")
            ok &= cmp_("conversion.choi_from_var", "value", e1, ref, "choi_from_var vs Choi matrix of quara's variable")
            ok &= cmp_("conversion.convert_quara_variable_to_gate", "value", q1, ref, "convert_quara_variable_to_gate vs model")
            ok &= cmp_("conversion.convert_cvxpy_variable_to_gate", "value", q2, ref, "convert_cvxpy_variable_to_gate vs model")
            o = sp_ok("conversion.choi_from_var_with_sparsity", e2, ref, "choi_from_var_with_sparsity")
            ok &= o is not None
            if o:
                ok &= cmp_("conversion.choi_from_var_with_sparsity", "model-mismatch", e2 if o == "transpose" else dense(e2).T, mod2, "with_sparsity vs model")
            cons = [(cv.generate_cvxpy_constraints_from_cvxpy_variable(c, t, var), [ref]),
                    (cv.generate_cvxpy_constraints_from_cvxpy_variable_with_sparsity(c, t, var), [ref])]
        else:
            refs = []
            ok = True
            o = "same"
            qv = cv.convert_quara_variable_to_mprocess(c, m, val)
            qc = cv.convert_cvxpy_variable_to_mprocess(c, m, var)
            for x in range(m):
                ref = mat(m_.call("c11.cvx_mp", [d, m, x, 0], bflat + rflat(val)), D)
                mod1 = mat(m_.call("c11.cvx_mp", [d, m, x, 1], bflat + rflat(val)), D)
                mod2 = mat(m_.call("c11.cvx_mp", [d, m, x, 2], bflat + rflat(val)), D)
                mod_old = mat(m_.call("c11.cvx_mp", [d, m, x, 3], bflat + rflat(val)), D)   # as coded BEFORE the fix
                refs.append(ref)
                e1 = cv.mprocess_element_choi_from_var(c, m, x, var).value
                e2 = cv.mprocess_element_choi_from_var_with_sparsity(c, m, x, var).value
                ok &= cmp_("conversion.convert_quara_variable_to_mprocess", "value", qv.to_choi_matrix(x), ref, "convert_quara_variable_to_mprocess x=%d" % x)
                ok &= cmp_("conversion.convert_cvxpy_variable_to_mprocess", "value", qc.to_choi_matrix(x), ref, "convert_cvxpy_variable_to_mprocess x=%d" % x)
                o = sp_ok("conversion.mprocess_element_choi_from_var_with_sparsity", e2, ref, "mprocess_element_choi_from_var_with_sparsity x=%d" % x)
                ok &= o is not None
                if o:
                    ok &= cmp_("conversion.mprocess_element_choi_from_var_with_sparsity", "model-mismatch", e2 if o == "transpose" else dense(e2).T, mod2, "with_sparsity vs model x=%d" % x)
                # the property: the CVXPY expression denotes the Choi matrix of the SAME instrument element (theorem
                # C11_mprocess_element_choi_from_var_denotes about the model of the repaired code, mod1).  If it does not but
                # equals the function as coded before fix mprocess-element-choi-from-var-last-outcome (last outcome: first row
                # summed over range(m-2), no unit vector; C11_mprocess_element_choi_from_var_before_fix_refuted) the old defect
                # is back; anything else is a new deviation.
                e1d = dense(e1)
                if np.abs(mod1 - ref).max() > 0:
                    ctx.violation(sub, "model", "model-inconsistent", "exact model of mprocess_element_choi_from_var differs from the exact reference at %s (contradicts the theorem)" % (key,), case)
                if np.abs(e1d - ref).max() > tol * (1 + np.abs(ref).max()):
                    ok = False
                    if np.abs(e1d - mod_old).max() <= tol * (1 + np.abs(mod_old).max()) and x == m - 1:
                        ctx.violation(sub, "conversion.mprocess_element_choi_from_var", "last-outcome-first-row",
                                      "mprocess_element_choi_from_var x=%d of %d is not the Choi matrix of the instrument element of quara's variable (differs by %.3g; it equals the function as coded before the fix: first row of the last element = + sum over range(m-2), no e_0) at %s" % (x, m, float(np.abs(e1d - ref).max()), key), case)
                    else:
                        ctx.violation(sub, "conversion.mprocess_element_choi_from_var", "value",
                                      "mprocess_element_choi_from_var x=%d of %d differs from the Choi matrix of quara's variable by %.3g (and from the pre-fix code by %.3g) at %s" % (x, m, float(np.abs(e1d - ref).max()), float(np.abs(e1d - mod_old).max()), key), case)
            cons = [(cv.generate_cvxpy_constraints_from_cvxpy_variable_with_sparsity(c, t, var, m), refs)]
            # the dense variant builds its constraints from mprocess_element_choi_from_var: same site/signature as above
            cl = cv.generate_cvxpy_constraints_from_cvxpy_variable(c, t, var, m)
            if len(cl) != m:
                ctx.violation(sub, "conversion.generate_cvxpy_constraints_from_cvxpy_variable", "constraint-shape", "expected %d PSD constraints, got %d at %s" % (m, len(cl), key), case)
            else:
                for x, (k_, ref) in enumerate(zip(cl, refs)):
                    arg = dense(k_.args[0].value)
                    if min(np.abs(arg - ref).max(), np.abs(arg - ref.T).max()) > tol * (1 + np.abs(ref).max()):
                        ctx.violation(sub, "conversion.mprocess_element_choi_from_var", "last-outcome-first-row" if x == m - 1 else "value",
                                      "generate_cvxpy_constraints_from_cvxpy_variable: PSD constraint %d of %d is not on the Choi matrix of the instrument element at %s" % (x, m, key), case)
        # constraints: one PSD constraint per matrix, on (the transpose of) the reference operator
        for cl, refs_ in cons:
            if len(cl) != len(refs_) or not all(type(k_).__name__ == "PSD" for k_ in cl):
                ctx.violation(sub, "conversion.generate_cvxpy_constraints_from_cvxpy_variable", "constraint-shape", "expected %d PSD constraints, got %s at %s" % (len(refs_), [type(k_).__name__ for k_ in cl], key), case)
                ok = False
                continue
            for k_, ref in zip(cl, refs_):
                arg = dense(k_.args[0].value)
                if min(np.abs(arg - ref).max(), np.abs(arg - ref.T).max()) > tol * (1 + np.abs(ref).max()):
                    ctx.violation(sub, "conversion.generate_cvxpy_constraints_from_cvxpy_variable", "constraint-argument", "the PSD constraint is not on the object's operator (nor its transpose) at %s" % (key,), case)
                    ok = False
    ctx.count(sub, key=key, nontrivial=case["point"] != "zero", label="%s-d%d-%s-%s" % (t, dim, case["point"].split(":")[0], o or "x"))


def sub_cvx_maps(ctx):
    from quara.interface.cvxpy import conversion as cv
    cases = []
    cfgs = [("state", 2, None), ("state", 3, None), ("povm", 2, 2), ("povm", 2, 3), ("povm", 3, 2), ("gate", 2, None),
            ("mprocess", 2, 1), ("mprocess", 2, 2), ("mprocess", 2, 3)]
    if not ctx.quick:
        cfgs += [("povm", 3, 4), ("gate", 3, None), ("mprocess", 2, 4)]
    for t, dim, m in cfgs:
        nvar = cv.num_cvxpy_variable(t, dim, m)
        pts = ["zero"]
        idxs = list(range(nvar))
        limit = ctx.n(6, 40) if nvar > 8 else nvar
        if len(idxs) > limit:
            idxs = sorted(ctx.rng.sample(idxs, limit - 2) + [0, nvar - 1])
        pts += ["basis:%d" % i for i in sorted(set(idxs))]
        pts += ["rand:%d" % ctx.rng.randrange(10 ** 6) for _ in range(ctx.n(2, 6))]
        if t == "gate" and dim == 3:
            pts = pts[:1] + pts[1:6] + pts[-2:]
        for p in pts:
            cases.append({"type": t, "dim": dim, "m": m, "point": p})
    ctx.sample("cvx_maps", cases[-1])
    ctx.run_cases("cvx_maps", chk_cvx_maps, cases)


SUBS = [("cvx_maps", sub_cvx_maps), ("reuse", sub_reuse), ("flags", sub_flags), ("pgdb", sub_pgdb), ("cvx_est", sub_cvx_est)]
FNS = {"cvx_maps": chk_cvx_maps, "pgdb": chk_pgdb, "cvx_est": chk_cvx_est, "reuse": chk_reuse, "flags": chk_flags}


def sub_corpus(ctx):
    """regression cases kept under /verif/corpus/C11 run first (they make known failing inputs deterministic)"""
    import glob, json
    root = os.path.join(os.path.dirname(os.path.dirname(os.path.dirname(os.path.abspath(__file__)))), "corpus", "C11")
    for p in sorted(glob.glob(os.path.join(root, "*.json"))):
        doc = json.load(open(p))
        if doc.get("sub") in FNS:
            ctx.run_cases(doc["sub"], FNS[doc["sub"]], [doc["case"]])


SUBS = [("corpus", sub_corpus)] + SUBS


# ====================================================================================== translator tie
def regen_tie(ctx):
    """regenerate (gen/c11_py2coq.py) the Gallina text of ProjectedGradientDescentBacktracking._is_doing_for_alpha / .optimize and of
    conversion.num_cvxpy_variable from the CURRENT source, compile it and re-check coq/gen/C11_Equiv.v (regenerated = hand-written model
    for ALL inputs).  returns (ok, info)"""
    import re, shutil, subprocess, sys
    import runner
    V = runner.V
    scratch = os.path.join(ctx.scratch, "gen")
    os.makedirs(scratch, exist_ok=True)
    gen_v = os.path.join(scratch, "Gen_c11.v")
    equiv = os.path.join(V, "coq", "gen", "C11_Equiv.v")
    src = open(equiv).read()
    src_nc = re.sub(r"\(\*.*?\*\)", " ", src, flags=re.S)
    thms = re.findall(r"^\s*Theorem\s+([\w']+)", src_nc, flags=re.M)
    ctx.theorems = list(ctx.theorems) + [t for t in thms if t not in ctx.theorems]
    ctx.obligations += len(thms)
    r = subprocess.run([sys.executable, os.path.join(V, "gen", "c11_py2coq.py"), os.environ.get("VERIF_REPO", "/repo"), gen_v],
                       capture_output=True, text=True, timeout=120)
    if r.returncode != 0:
        part = {4: "cvx", 5: "estimator"}.get(r.returncode, "pgdb")
        def part_of(t):
            return "estimator" if t.startswith("gen_estimate") else ("cvx" if (t.startswith("gen_cvx") or t.startswith("gen_constraints") or t.startswith("gen_num")) else "pgdb")
        first = next((t for t in thms if part_of(t) == part), thms[0])
        return False, {"theorem": first, "part": part, "error": "translator rejected the source (outside its subset): " + (r.stdout + r.stderr)[-600:]}
    q = ["-Q", os.path.join(V, "coq", "theories"), "QV", "-Q", scratch, "QVGen"]
    r = subprocess.run(["timeout", "300", "coqc"] + q + [gen_v], capture_output=True, text=True)
    if r.returncode != 0:
        return False, {"theorem": thms[0], "error": "regenerated model does not compile: " + (r.stdout + r.stderr)[-600:]}
    dst = os.path.join(scratch, "C11_Equiv.v")
    shutil.copy(equiv, dst)
    r = subprocess.run(["timeout", "600", "coqc"] + q + [dst], capture_output=True, text=True)
    out = r.stdout + r.stderr
    if r.returncode != 0:
        mm = re.search(r"line (\d+), characters", out)
        thm = None
        if mm:
            upto = "\n".join(src.splitlines()[:int(mm.group(1))])
            names = re.findall(r"^\s*(?:Theorem|Lemma)\s+([\w']+)", upto, flags=re.M)
            thm = names[-1] if names else None
        return False, {"theorem": thm, "error": out[-800:]}
    blocks = runner.parse_assumptions(out)
    bad = [a for closed, axs in blocks for a in axs if a not in runner.ALLOWED_AXIOMS and a.split(".")[-1] not in runner.ALLOWED_AXIOMS]
    if len(blocks) != len(thms) or bad:
        return False, {"theorem": thms[0], "error": "assumption gate on regenerated proofs: %d blocks / %d theorems, disallowed %s" % (len(blocks), len(thms), bad)}
    for t, (closed, axs) in zip(thms, blocks):
        ctx.axioms[t] = "closed" if closed else sorted(set(axs))
    ctx.discharged += len(thms)
    return True, {}


def run(ctx):
    ctx.rule = ("pgdb: one case = one backtracking run (setup x parametrisation x loss x stopping mode x window x shots, seeded truth and data); "
                "per run up to 9/30 iterations are replayed through the exact model; a step is non-trivial when every Armijo margin and the stopping "
                "margin are outside their ambiguity bands; a run is non-trivial when it stopped by its criterion and has a non-trivial step. "
                "cvx_maps: one case = one variable point (unit vectors, zero, random dyadic points) of one object type/dimension/outcome count; zero is trivial. "
                "cvx_est: one case = one SCS solve; non-trivial when the reference backtracking run converged. "
                "reuse: one case = one step of a history of one re-used estimator/loss/algorithm triple; the first use of the objects is trivial, later steps are non-trivial when both runs stopped by their criterion and no relative-entropy term is in the clipping band.")
    ctx.assumptions = ["SCS (and CVXPY's canonicalisation) is an oracle: its output is checked (feasibility, loss, competitors), not proved",
                       "relative entropy: ln is not modelled; the Armijo/stopping logic is replayed exactly on the implementation's loss values, convexity is a hypothesis of T4/T5 for this loss",
                       "the physical projection P (Dykstra + eigh) is an oracle constrained per step by the descent certificate <g,y> + mu|y|^2 <= 0 and by feasibility of the iterates"]
    # flow.standard_run with this property's own translator tie (flow.regen_check is bound to gen/py2coq.py)
    import runner
    ok, info = runner.check_props(ctx)
    ok2, info2 = regen_tie(ctx)
    if not ok2:
        ok, info = False, info2
        ctx.note("regenerated model (optimize / _is_doing_for_alpha / CVXPY glue and loss expressions; coq/gen/C11_Equiv.v) not discharged: %s" % str(info2)[:500])
        # the tie is broken: widen the differential sweep to find a concrete failing input (up to 30 instead of 9 steps of every run are
        # replayed, the whole quick grid instead of half of it)
        thm = str(info2.get("theorem") or "")
        part = info2.get("part") or ("estimator" if thm.startswith("gen_estimate") else
                                     ("cvx" if (thm.startswith("gen_cvx") or thm.startswith("gen_constraints") or thm.startswith("gen_num")) else "pgdb"))
        if part == "estimator":
            ctx.c11_est_tie_broken = True      # estimator wiring: the thorough-size grid of the `flags` sub-check
        elif part == "pgdb":
            ctx.c11_tie_broken = True          # backtracking loop: whole quick grid, 30 steps per run
        else:
            ctx.c11_cvx_tie_broken = True      # CVXPY glue / loss expressions: more SCS cases (4 instead of 2 shot counts per setup and loss)
    if not ok:
        ctx.discharged = min(ctx.discharged, ctx.obligations - 1)
    for name, fn in SUBS:
        if ctx.only is None or name in ctx.only:
            fn(ctx)
    if not ok and not ctx.violations:
        ctx.violation("theorems", "Props/%s.v" % ctx.prop_id, "theorem-broken:%s" % info.get("theorem"),
                      "theorem %s no longer checks: %s" % (info.get("theorem"), info.get("error", "")[-400:]),
                      {"theorem": info.get("theorem"), "error": info.get("error")}, no_input=True)
    elif not ok:
        ctx.note("theorem obligations not discharged: %s" % info)


def replay(ctx, doc):
    flow.standard_replay(ctx, doc, FNS)
