"""C18 — Lindbladian generators decompose, recompose and exponentiate correctly.

Every sub-check runs the real quara code (quara/objects/effective_lindbladian.py & friends) and the extracted Coq model
(Exec/C18_ops.v) on the same generated inputs, compares them, and evaluates the property's own predicates on the
implementation's outputs (direct GKSL evaluation, round trips, sums of parts, verdict margins, projection certificates).

The model is the code AS REPAIRED by fixes/c18-calc-j-mat-identity-component.diff and fixes/c18-jump-operators-cdagger-c.diff.
Attribution of a re-appearing defect: when the implementation disagrees with the model / a property predicate fails, the
check looks whether the implementation's output coincides with the model of the routine AS CODED BEFORE THE FIX
(calc_j_mat_prefix / jump_d_prefix); if so the violation carries that defect's own (site, signature), otherwise the generic
one of the call site where it was observed.  So a different defect in the same area is still reported separately.

Out of scope (property C18 does not speak about variable vectors): calc_proj_eq_constraint_with_var /
calc_proj_ineq_constraint_with_var (static methods of Gate that EffectiveLindbladian merely inherits), generate_from_var,
convert_var_to_effective_lindbladian / to_var.  They are not checked here."""
import math
from fractions import Fraction
import numpy as np
from common import flow, qcheck
from common.model import cflat, rflat, to_c

LEVEL = "proof"
ATOL0 = 1e-13            # quara's Settings default

# ------------------------------------------------------------------------------------------------ systems
_SYS = {}
_TIMES = {}
_WORST = {}


def _dense(b):
    return np.asarray(b.toarray() if hasattr(b, "toarray") else b, dtype=complex)


def _cayley(rng, k, den=4):
    """exactly-rational-ish orthogonal k x k matrix (Cayley transform of a small rational skew matrix), as floats"""
    S = np.zeros((k, k))
    for i in range(k):
        for j in range(i + 1, k):
            if rng.random() < 0.6:
                S[i, j] = rng.randint(-3, 3) / den
                S[j, i] = -S[i, j]
    I = np.eye(k)
    return (I - S) @ np.linalg.inv(I + S)


PAD = [0] * 400      # trailing rationals the ops ignore: makes a request longer than the 1500-character limit of the runner's vm_compute
                     # cross-check of the extraction.  Used ONLY for the combined ops c18.verdicts / c18.parts_all / c18.proj_ineq / c18.jump_hk,
                     # whose re-evaluation under vm_compute (Coq's binary gcd in every Qc operation) costs 20-40 s per request even on one
                     # qubit; the ops they combine (c18.extract, c18.gen, c18.jump, c18.gksl, core.psd_herm, ...) stay cross-checked.


def nn(ctx, q, t):
    """case count: quick / thorough; when the translator tie (coq/gen/C18_Equiv.v) is broken the quick sweeps of the sub-checks that
    exercise the translated functions are widened 3x (the search for a concrete failing input)"""
    if getattr(ctx, "c18_tie_broken", False) and ctx.quick:
        return min(t, 3 * q)
    return ctx.n(q, t)


def get_sys(ctx, name):
    """name: 1q | qutrit | 2q | 1q-rot | qutrit-rot  (rot: Hermitian orthonormal basis rotated by a rational orthogonal
    matrix on the traceless part, so that the basis elements are generic: neither sparse nor proportional to unitaries)"""
    if name in _SYS:
        return _SYS[name]
    from quara.objects.composite_system_typical import generate_composite_system
    from quara.objects.composite_system import CompositeSystem
    from quara.objects.elemental_system import ElementalSystem
    from quara.objects.matrix_basis import SparseMatrixBasis
    import random
    base = {"1q": ("qubit", 1), "qutrit": ("qutrit", 1), "2q": ("qubit", 2)}[name.split("-")[0]]
    c_sys = generate_composite_system(*base)
    if name.endswith("-rot"):
        B0 = [_dense(b) for b in c_sys.basis()]
        n = len(B0)
        O = _cayley(random.Random(1000 + n), n - 1)
        Bn = [B0[0]] + [sum(O[a, b] * B0[b + 1] for b in range(n - 1)) for a in range(n - 1)]
        c_sys = CompositeSystem([ElementalSystem(0, SparseMatrixBasis([np.array(b) for b in Bn]))])
        if not c_sys.is_orthonormal_hermitian_0thprop_identity:
            raise RuntimeError("rotated basis rejected by quara")
    B = [_dense(b) for b in c_sys.basis()]
    d = c_sys.dim
    rec = {"name": name, "c_sys": c_sys, "d": d, "n": d * d, "B": B, "bq": sum((cflat(b) for b in B), [])}
    _SYS[name] = rec
    return rec


# ------------------------------------------------------------------------------------------------ generators (JSON-able)
def g_cint(rng, r, c, lim=6):
    return [[[rng.randint(-lim, lim), rng.randint(-lim, lim)] for _ in range(c)] for _ in range(r)]


def m_of(ints, den=1.0):
    a = np.array([[complex(x[0], x[1]) for x in row] for row in ints], dtype=complex)
    return a / den


def g_herm(rng, n, lim=6):
    a = g_cint(rng, n, n, lim)
    for i in range(n):
        a[i][i][1] = 0
        for j in range(i + 1, n):
            a[j][i] = [a[i][j][0], -a[i][j][1]]
    return a


def g_K(rng, n, kind):
    """returns a JSON description of an n x n Hermitian coefficient matrix.
    kind: psd (full rank) | psd-low (rank < n) | indef (one direction negative) | zero"""
    if kind == "zero":
        return {"kind": kind, "A": [], "neg": 0.0}
    if kind in ("negdef", "negdef-deg"):
        # ALL eigenvalues negative: negdef = -(A A^dagger + I/4) generic ; negdef-deg = -(I + w w^dagger/|w|^2) (eigenvalue -1 n-1 times, -2 once)
        w = g_cint(rng, n, 1, 3)
        if all(x[0][0] == 0 and x[0][1] == 0 for x in w):
            w[0][0][0] = 1
        return {"kind": kind, "A": g_cint(rng, n, n, 3), "neg": 1.0, "w": w}
    if kind in ("psd-deg", "psdlow-deg", "indef-deg"):
        # DEGENERATE spectra:  K = I + beta w w^dagger / |w|^2  has the eigenvalue 1 with multiplicity n - 1 and 1 + beta once
        # (psd-deg: 1,..,1,2 ; psdlow-deg: 1,..,1,0 ; indef-deg: 1,..,1,-1), w a generic complex vector -> K is dense and complex
        w = g_cint(rng, n, 1, 3)
        if all(x[0][0] == 0 and x[0][1] == 0 for x in w):
            w[0][0][0] = 1
        return {"kind": kind, "A": [], "neg": 1.0 if kind == "indef-deg" else 0.0, "w": w, "beta": {"psd-deg": 1.0, "psdlow-deg": -1.0, "indef-deg": -2.0}[kind]}
    r = n if kind != "psd-low" else max(1, rng.randint(1, max(1, n - 1)))
    A = g_cint(rng, n, r, 3)
    neg = 0.0
    if kind == "indef":
        neg = rng.choice([1e-6, 1e-3, 1e-1, 1.0, 4.0])
    return {"kind": kind, "A": A, "neg": neg, "w": g_cint(rng, n, 1, 3)}


def K_of(desc, n, den=4.0):
    if desc["kind"] == "zero":
        return np.zeros((n, n), dtype=complex)
    if desc["kind"] == "negdef":
        A = m_of(desc["A"], den)
        K = -(A @ A.conj().T + 0.25 * np.eye(n))
        return (K + K.conj().T) / 2
    if desc["kind"] == "negdef-deg":
        w = m_of(desc["w"]).reshape(-1)
        K = -(np.eye(n, dtype=complex) + np.outer(w, w.conj()) / float(np.vdot(w, w).real))
        return (K + K.conj().T) / 2
    if desc["kind"] in ("psd-deg", "psdlow-deg", "indef-deg"):
        w = m_of(desc["w"]).reshape(-1)
        K = np.eye(n, dtype=complex) + desc["beta"] * np.outer(w, w.conj()) / float(np.vdot(w, w).real)
        return (K + K.conj().T) / 2
    A = m_of(desc["A"], den)
    K = A @ A.conj().T
    if desc["kind"] == "psd-low" and desc["neg"] == 0.0:
        return K
    if desc["neg"]:
        # exactly one negative direction of size neg: remove the component of K along w, then subtract neg * w w^dagger / |w|^2
        w = m_of(desc["w"]).reshape(-1)
        if np.abs(w).max() == 0:
            w = np.zeros(n, dtype=complex); w[0] = 1
        w = w / np.linalg.norm(w)
        P = np.eye(n) - np.outer(w, w.conj())
        K = P @ K @ P - desc["neg"] * np.outer(w, w.conj())
        K = (K + K.conj().T) / 2
    return K


def g_state(rng, d):
    return g_cint(rng, d, d, 4)


def state_of(ints):
    a = m_of(ints)
    r = a @ a.conj().T + 0.25 * np.eye(a.shape[0])
    return r / np.trace(r).real


def scale_of(rng):
    return rng.choice([1e-3, 1e-2, 1e-1, 1.0, 1.0, 10.0])


def tolf(*arrs):
    s = max([float(np.abs(np.asarray(a)).max()) if np.asarray(a).size else 0.0 for a in arrs] + [0.0])
    return 1e-9 * (1.0 + s)


def md(a, b):
    a = np.asarray(a); b = np.asarray(b)
    if a.shape != b.shape:
        return float("inf")
    return float(np.abs(a - b).max()) if a.size else 0.0


def cmatv(vals, r, c):
    return np.array(to_c(vals), dtype=complex).reshape(r, c)


def rmatv(vals, r, c):
    return np.array([float(x) for x in vals], dtype=float).reshape(r, c)


# ------------------------------------------------------------------------------------------------ numpy predicates
def coeffs(S, X):
    return np.array([np.vdot(b, X) for b in S["B"]])


def act_hs(S, hs, rho):
    w = np.asarray(hs) @ coeffs(S, rho)
    return sum(w[a] * S["B"][a] for a in range(S["n"]))


def gksl_np(S, H, K, rho):
    B = S["B"]; n = S["n"]
    out = -1j * (H @ rho - rho @ H)
    for a in range(n - 1):
        for b in range(n - 1):
            if K[a, b] != 0:
                Ba, Bb = B[a + 1], B[b + 1]
                M = Bb.conj().T @ Ba
                out = out + K[a, b] * (Ba @ rho @ Bb.conj().T - 0.5 * (M @ rho + rho @ M))
    return out


def gen_hjk_np(S, H, J, K, rho):
    B = S["B"]; n = S["n"]
    out = -1j * (H @ rho - rho @ H) + J @ rho + rho @ J
    for a in range(n - 1):
        for b in range(n - 1):
            out = out + K[a, b] * (B[a + 1] @ rho @ B[b + 1].conj().T)
    return out


def jump_np(cs, rho):
    out = np.zeros_like(rho)
    for c in cs:
        M = c.conj().T @ c
        out = out + c @ rho @ c.conj().T - 0.5 * (M @ rho + rho @ M)
    return out


def to_cb(S, hs):
    """comp-basis superoperator of a B-basis HS matrix (independent numpy evaluation)"""
    V = np.array([b.reshape(-1) for b in S["B"]]).T           # V[s, a] = vec(B_a)[s]
    return V @ np.asarray(hs, dtype=complex) @ V.conj().T


def from_cb(S, L):
    V = np.array([b.reshape(-1) for b in S["B"]]).T
    return V.conj().T @ L @ V


def jmat_fixed_np(S, L_cb):
    """independent numpy evaluation of calc_j_mat as repaired: all basis elements, halving on the identity element"""
    d = S["d"]; I = np.eye(d); J = np.zeros((d, d), dtype=complex)
    for a, Ba in enumerate(S["B"]):
        t = np.trace(L_cb @ (np.kron(Ba, I) + np.kron(I, Ba.conj())))
        J = J + t / (2 * d * (2 if a == 0 else 1)) * Ba
    return J


def jpart_np(J):
    I = np.eye(J.shape[0])
    return np.kron(J, I) + np.kron(I, J.conj())


JSITE = ("EffectiveLindbladian.calc_j_mat", "identity-component-dropped")


def layouts(a):
    """the same matrix in other memory representations: Fortran-contiguous copy, transposed VIEW of a C-contiguous buffer (what X.T /
    X.conj().T of a user's array is), strided view into a larger buffer, read-only copy.  Every API must return the same result on all."""
    a = np.asarray(a)
    big = np.zeros((2 * a.shape[0], 3 * a.shape[1]), dtype=a.dtype); big[::2, 1::3] = a
    ro = a.copy(); ro.flags.writeable = False
    return [("fortran-order", np.asfortranarray(a.copy())), ("transposed-view", np.ascontiguousarray(a.T).T), ("strided-view", big[::2, 1::3]), ("read-only", ro)]


def jsite_for(ctx, S, hs, j_impl):
    """(site, signature) for a wrong calc_j_mat: the recorded pre-fix defect only if the implementation coincides with the pre-fix routine"""
    d = S["d"]
    j_pre = cmatv(ctx.get_model().call("c18.extract", [d, 2], S["bq"] + rflat(hs)), d, d)
    return JSITE if md(j_impl, j_pre) <= tolf(hs) else ("EffectiveLindbladian.calc_j_mat", "wrong-anticommutator-matrix")


def mk_el(S, hs, **kw):
    from quara.objects.effective_lindbladian import EffectiveLindbladian
    kw.setdefault("is_physicality_required", False)
    return EffectiveLindbladian(S["c_sys"], np.array(hs, dtype=np.float64), **kw)


# ================================================================================================ 1. generators from H / J / K
MODES = {"hjk": 0, "hk": 1, "h": 2, "k": 3}


def build_inputs(S, case):
    d, n = S["d"], S["n"]
    s = case["scale"]
    H = m_of(case["H"], 8.0) * s if case.get("H") is not None else None
    J = m_of(case["J"], 8.0) * s if case.get("J") is not None else None
    K = K_of(case["K"], n - 1) * s if case.get("K") is not None else None
    bad = case.get("bad")
    if bad == "h":
        H = H.copy(); H[0, d - 1] += 0.5 * s
    if bad == "j":
        J = J.copy(); J[d - 1, 0] += 0.25j * s
    if bad == "k":
        K = K.copy(); K[0, n - 2] += 0.5 * s
    return H, J, K


def chk_gen(ctx, case):
    from quara.objects import effective_lindbladian as el
    S = get_sys(ctx, case["sys"]); d, n = S["d"], S["n"]
    m = ctx.get_model()
    mode = case["mode"]
    H, J, K = build_inputs(S, case)
    args = {"hjk": (H, J, K), "hk": (H, K), "h": (H,), "k": (K,)}[mode]
    fn = {"hjk": el.generate_hs_from_hjk, "hk": el.generate_hs_from_hk, "h": el.generate_hs_from_h, "k": el.generate_hs_from_k}[mode]
    site = "effective_lindbladian.generate_hs_from_" + mode
    try:
        hs = fn(S["c_sys"], *[np.array(a) for a in args]); impl = ("ok", hs)
    except ValueError as e:
        impl = ("err", str(e)[:60])
    st, val = m.try_call("c18.gen", [d, MODES[mode]], [ATOL0, ATOL0] + S["bq"] + sum((cflat(a) for a in args), []))
    lab = "%s/%s/%s%s" % (case["sys"], mode, (case.get("K") or {}).get("kind", "-"), "/bad-" + case["bad"] if case.get("bad") else "")
    ctx.count("gen", key=repr(case), nontrivial=True, label=lab + ("/err" if st == "err" else ""))
    if st == "err":
        if impl[0] != "err":
            ctx.violation("gen", site, "error-branch", "model rejects the input (code %s: 1/2/3 = h/j/k not Hermitian, 4 = imaginary part) but the implementation returned a value" % val, case)
        return
    if impl[0] == "err":
        ctx.violation("gen", site, "unexpected-raise", "implementation raised ValueError(%s), model accepts" % impl[1], case)
        return
    mod = rmatv(val, n, n)
    tol = tolf(mod)
    if md(hs, mod) > tol:
        ctx.violation("gen", site, "model-mismatch", "generated HS differs from the model by %.3g (tol %.3g)" % (md(hs, mod), tol), case)
    # ---- the result must not depend on the memory representation of the array arguments, nor on WHICH (equal) CompositeSystem object is used
    variants = [(tag, [dict(layouts(a))[tag] for a in args]) for tag in ("fortran-order", "transposed-view", "strided-view", "read-only")]
    for tag, vargs in variants:
        ctx.count("gen", key=(repr(case), "layout", tag), nontrivial=True, label="layout/%s" % tag)
        try:
            hv = fn(S["c_sys"], *vargs)
        except Exception as e:
            ctx.violation("gen", site, "argument-layout", "raises %s(%s) when the arguments are passed as %s arrays" % (type(e).__name__, str(e)[:60], tag), dict(case, layout=tag)); continue
        if md(hv, hs) > tol:
            ctx.violation("gen", site, "argument-layout", "result depends on the memory layout of the arguments: %s arrays give a generator that differs by %.3g" % (tag, md(hv, hs)), dict(case, layout=tag))
    if case["sys"] in ("1q", "qutrit", "2q"):
        from quara.objects.composite_system_typical import generate_composite_system
        c2 = generate_composite_system(*{"1q": ("qubit", 1), "qutrit": ("qutrit", 1), "2q": ("qubit", 2)}[case["sys"]])
        if md(fn(c2, *[np.array(a) for a in args]), hs) > 0:
            ctx.violation("gen", site, "composite-system-instance", "an equal but not identical CompositeSystem gives a different generator", case)
    # ---- the property predicate: action on states = GKSL right-hand side, evaluated directly
    for k, rint in enumerate(case["rhos"]):
        rho = state_of(rint)
        if k == 1:      # also a non-Hermitian, non-positive test matrix: the statement is about every rho by linearity
            rho = rho + 0.5j * m_of(rint) / 8.0
        got = act_hs(S, hs, rho)
        if mode == "hjk":
            want = gen_hjk_np(S, H, J, K, rho)
        else:
            want = gksl_np(S, H if H is not None else np.zeros((d, d)), K if K is not None else np.zeros((n - 1, n - 1)), rho)
        t2 = tolf(want, hs)
        ctx.count("gen", key=(repr(case), "act", k), nontrivial=True)
        if md(got, want) > t2:
            ctx.violation("gen", site, "gksl-action", "generated HS does not act as the GKSL equation prescribes: max deviation %.3g on test matrix %d" % (md(got, want), k), case)
            break
    if mode != "hjk":
        # model's own GKSL evaluation (oracle for the numpy evaluation above)
        rho = state_of(case["rhos"][0])
        Hm = H if H is not None else np.zeros((d, d)); Km = K if K is not None else np.zeros((n - 1, n - 1))
        v = m.call("c18.gksl", [d], S["bq"] + cflat(Hm) + cflat(Km) + cflat(rho))
        if md(cmatv(v, d, d), gksl_np(S, Hm, Km, rho)) > tolf(Hm, Km):
            ctx.violation("gen", "harness.gksl_np", "oracle-mismatch", "numpy GKSL evaluation and the model's gksl differ", case)
        # trace annihilation: first row exactly what the verdict needs
        if float(np.abs(hs[0]).max()) > 1e-12 * (1 + float(np.abs(hs).max())):
            ctx.violation("gen", site, "first-row-nonzero", "generator built from H/K has first row %.3g" % float(np.abs(hs[0]).max()), case)


def sub_gen(ctx):
    rng = ctx.rng
    cases = []
    plan = [("1q", nn(ctx, 14, 80)), ("1q-rot", nn(ctx, 8, 50)), ("qutrit", nn(ctx, 8, 60)), ("2q", nn(ctx, 4, 40)), ("qutrit-rot", ctx.n(0, 30))]
    for sysn, cnt in plan:
        for i in range(cnt):
            S = get_sys(ctx, sysn); d, n = S["d"], S["n"]
            mode = ["hk", "hjk", "k", "h"][i % 4]
            kind = rng.choice(["psd", "psd", "psd-low", "indef", "zero"]) if mode != "h" else None
            c = {"sys": sysn, "mode": mode, "scale": scale_of(rng), "rhos": [g_state(rng, d), g_state(rng, d)]}
            if mode in ("hjk", "hk", "h"):
                c["H"] = g_herm(rng, d)
            if mode == "hjk":
                c["J"] = g_herm(rng, d)
            if mode != "h":
                c["K"] = g_K(rng, n - 1, kind)
            cases.append(c)
    # malformed stream: non-Hermitian inputs -> ValueError in every constructor
    for sysn in ("1q", "qutrit"):
        S = get_sys(ctx, sysn); d, n = S["d"], S["n"]
        for mode, bad in [("hjk", "h"), ("hjk", "j"), ("hjk", "k"), ("hk", "h"), ("hk", "k"), ("h", "h"), ("k", "k")]:
            c = {"sys": sysn, "mode": mode, "scale": 1.0, "rhos": [], "bad": bad, "H": g_herm(rng, d), "J": g_herm(rng, d), "K": g_K(rng, n - 1, "psd")}
            if mode == "hk":
                c["J"] = None
            if mode == "h":
                c["J"] = None; c["K"] = None
            if mode == "k":
                c["J"] = None; c["H"] = None
            cases.append(c)
    ctx.sample("gen", cases[0])
    ctx.run_cases("gen", chk_gen, cases)
    ctx.run_cases("gen", chk_gen_shape, [{"sys": "1q"}, {"sys": "qutrit"}])


def chk_gen_shape(ctx, case):
    """dimension mismatches must raise ValueError (error branches of _check_*_mat and of the constructor)"""
    from quara.objects import effective_lindbladian as el
    S = get_sys(ctx, case["sys"]); d, n = S["d"], S["n"]
    bads = [("generate_hs_from_h", lambda: el.generate_hs_from_h(S["c_sys"], np.eye(d + 1))),
            ("generate_hs_from_k", lambda: el.generate_hs_from_k(S["c_sys"], np.eye(n))),
            ("generate_hs_from_hjk", lambda: el.generate_hs_from_hjk(S["c_sys"], np.eye(d), np.eye(d + 1), np.eye(n - 1))),
            ("EffectiveLindbladian.__init__", lambda: mk_el(S, np.zeros((n + 1, n + 1)))),
            ("EffectiveLindbladian.__init__", lambda: mk_el(S, np.zeros((n, n + 1)))),
            ("EffectiveLindbladian.calc_h_part", lambda: mk_el(S, np.zeros((n, n))).calc_h_part(mode_basis="pauli")),
            ("EffectiveLindbladian.calc_d_part", lambda: mk_el(S, np.zeros((n, n))).calc_d_part(mode_basis=""))]
    for k, (site, f) in enumerate(bads):
        ctx.count("gen", key=(case["sys"], "shape", k), nontrivial=False, label="malformed-shape")
        try:
            f()
            ctx.violation("gen", site, "error-branch", "malformed input %d accepted without ValueError" % k, dict(case, k=k))
        except ValueError:
            pass


# ================================================================================================ 2. extraction, parts, rebuild
def hs_for(ctx, S, case):
    """the HS matrix of the case: built by the MODEL from (H, K) [so the input does not depend on the code under test]"""
    d, n = S["d"], S["n"]
    m = ctx.get_model()
    if case["src"] == "hk":
        H, _, K = build_inputs(S, case)
        v = m.call("c18.gen", [d, 1], [ATOL0, 0.0] + S["bq"] + cflat(H) + cflat(K))
        return rmatv(v, n, n), H, K
    # arbitrary real matrix (not a GKSL generator: generic Hermiticity-preserving map, first row non-zero)
    a = np.array(case["R"], dtype=float).reshape(n, n) / 8.0 * case["scale"]
    return a, None, None


def chk_extract(ctx, case):
    from quara.objects import effective_lindbladian as el
    S = get_sys(ctx, case["sys"]); d, n = S["d"], S["n"]
    m = ctx.get_model()
    hs, H, K = hs_for(ctx, S, case)
    L = mk_el(S, hs)
    tol = tolf(hs)
    lab = "%s/%s/%s" % (case["sys"], case["src"], (case.get("K") or {}).get("kind", "-"))
    ctx.count("extract", key=repr(case), nontrivial=True, label=lab)
    # ---- model of the three extraction routines (calc_j_mat: as repaired)
    h_i, j_i, k_i = L.calc_h_mat(), L.calc_j_mat(), L.calc_k_mat()
    j_mod = cmatv(m.call("c18.extract", [d, 1], S["bq"] + rflat(hs)), d, d)
    j_pre = cmatv(m.call("c18.extract", [d, 2], S["bq"] + rflat(hs)), d, d)       # as coded before fix c18-calc-j-mat-identity-component
    # the recorded defect is back iff the implementation coincides with the pre-fix routine where that differs from the model
    old_defect = md(j_i, j_mod) > tol and md(j_i, j_pre) <= tol

    def jviol(what):
        if old_defect:
            ctx.violation("extract", *JSITE, what + " — calc_j_mat coincides with the routine as coded before fix c18-calc-j-mat-identity-component (loop over basis[1:]: identity component dropped, first traceless coefficient halved)", case)
        return old_defect
    for which, name, val, r in [(0, "calc_h_mat", h_i, d), (1, "calc_j_mat", j_i, d), (3, "calc_k_mat", k_i, n - 1)]:
        mod = j_mod if which == 1 else cmatv(m.call("c18.extract", [d, which], S["bq"] + rflat(hs)), r, r)
        if md(val, mod) > tol:
            if not (which == 1 and jviol("calc_j_mat differs from the model by %.3g" % md(val, mod))):
                ctx.violation("extract", "EffectiveLindbladian." + name, "model-mismatch", "%s differs from the model by %.3g" % (name, md(val, mod)), case)
    L_cb = to_cb(S, hs)
    j_np = jmat_fixed_np(S, L_cb)
    if md(j_np, j_mod) > tol:
        ctx.violation("extract", "harness.jmat_fixed_np", "oracle-mismatch", "numpy evaluation of calc_j_mat and the model's calc_j_mat differ", case)
    # ---- representation of the ARGUMENT must not matter: Fortran-ordered copy, non-contiguous view; default mode_basis = "hermitian_basis"
    if case.get("layout", True):
        big = np.zeros((2 * n, 2 * n)); big[::2, ::2] = hs
        for tag, arr in [("fortran-order", np.asfortranarray(hs.copy())), ("strided-view", big[::2, ::2])]:
            Lv = mk_el(S, arr)
            if md(Lv.calc_h_mat(), h_i) > 0 or md(Lv.calc_j_mat(), j_i) > 0 or md(Lv.calc_k_mat(), k_i) > 0 or md(Lv.hs, hs) > 0:
                ctx.violation("extract", "EffectiveLindbladian.__init__", "argument-layout", "results depend on the memory layout of the hs argument (%s)" % tag, case)
        for nm in ("h", "j", "k", "d"):
            f = getattr(L, "calc_%s_part" % nm)
            if md(f(), f(mode_basis="hermitian_basis")) > 0:
                ctx.violation("extract", "EffectiveLindbladian.calc_%s_part" % nm, "default-mode-basis", "calc_%s_part() differs from calc_%s_part(mode_basis='hermitian_basis')" % (nm, nm), case)
    # ---- history: arrays RETURNED by the API are overwritten by the caller, then the API is called again: same results as the first time
    if case.get("layout", True):
        firsts = {nm: np.array(getattr(L, nm)()) for nm in ("calc_h_mat", "calc_j_mat", "calc_k_mat", "calc_h_part", "calc_j_part", "calc_k_part", "calc_d_part")}
        for nm in firsts:
            r = getattr(L, nm)()
            try:
                r[...] = 7.0
            except ValueError:
                pass                      # read-only result: nothing the caller can spoil
        for nm, first in firsts.items():
            if md(getattr(L, nm)(), first) > 0:
                ctx.violation("extract", "EffectiveLindbladian." + nm, "returned-array-aliases-state", "%s() returns different values after the caller overwrote previously returned arrays" % nm, case)
        if md(L.hs, hs) > 0:
            ctx.violation("extract", "EffectiveLindbladian.hs", "returned-array-aliases-state", "the generator changed after the caller overwrote arrays returned by calc_*", case)
    # ---- property: the extracted matrices are the ones the generator was built from
    if H is not None:
        Ht = H - np.trace(H) / d * np.eye(d)           # H is determined up to multiples of the identity
        if md(h_i, Ht) > tol:
            ctx.violation("extract", "EffectiveLindbladian.calc_h_mat", "not-the-hamiltonian", "extracted h differs from the (traceless) Hamiltonian by %.3g" % md(h_i, Ht), case)
        if md(k_i, K) > tol:
            ctx.violation("extract", "EffectiveLindbladian.calc_k_mat", "not-the-dissipator-matrix", "extracted k differs from K by %.3g" % md(k_i, K), case)
        J_true = -0.5 * sum(K[a, b] * (S["B"][b + 1].conj().T @ S["B"][a + 1]) for a in range(n - 1) for b in range(n - 1)) if n > 1 else np.zeros((d, d))
        if md(j_mod, J_true) > tol:
            ctx.violation("extract", "model.calc_j_mat", "oracle-mismatch", "model calc_j_mat is not J(K) (contradicts theorem C18_extract)", case)
        if md(j_i, J_true) > tol:
            if not jviol("calc_j_mat returns a matrix that differs from the anti-commutator matrix J = -1/2 sum K_ab B_b^dagger B_a by %.3g" % md(j_i, J_true)):
                ctx.violation("extract", "EffectiveLindbladian.calc_j_mat", "not-the-anticommutator-matrix", "extracted j differs from J(K) by %.3g" % md(j_i, J_true), case)
    # ---- property: extract-then-rebuild reproduces the generator
    try:
        hs2 = el.generate_hs_from_hjk(S["c_sys"], h_i, j_i, k_i)
    except ValueError as e:
        hs2 = None
    ctx.count("extract", key=(repr(case), "rebuild"), nontrivial=True)
    if hs2 is None or md(hs2, hs) > 10 * tol:
        what = "extract-then-rebuild changes the generator by %s" % ("%.3g" % md(hs2, hs) if hs2 is not None else "raising ValueError")
        if not jviol(what):
            ctx.violation("extract", "effective_lindbladian.extract-rebuild", "value", what, case)
    # ---- property: h + j + k parts = whole, d = j + k, both basis modes; and each part against the model
    allp = m.call("c18.parts_all", [d], S["bq"] + rflat(hs) + PAD)           # h, j, k, d (comp basis), h, j, k, d, rebuilt (basis B)
    allp = [cmatv(allp[q * 2 * n * n:(q + 1) * 2 * n * n], n, n) for q in range(9)]
    for herm, mb in [(0, "comp_basis"), (1, "hermitian_basis")]:
        whole = L_cb if herm == 0 else hs
        try:
            parts = [L.calc_h_part(mode_basis=mb), L.calc_j_part(mode_basis=mb), L.calc_k_part(mode_basis=mb), L.calc_d_part(mode_basis=mb)]
        except ValueError as e:
            ctx.violation("extract", "EffectiveLindbladian.calc_*_part", "unexpected-raise", "calc_*_part(%s) raised %s" % (mb, str(e)[:80]), case)
            continue
        for which, nm in enumerate(["h", "j", "k", "d"]):
            mod = allp[4 * herm + which]
            if md(parts[which], mod) > 10 * tol:
                if not (nm in ("j", "d") and jviol("calc_%s_part(%s) differs from the model by %.3g" % (nm, mb, md(parts[which], mod)))):
                    ctx.violation("extract", "EffectiveLindbladian.calc_%s_part" % nm, "model-mismatch", "calc_%s_part(%s) differs from the model by %.3g" % (nm, mb, md(parts[which], mod)), case)
        ctx.count("extract", key=(repr(case), "sum", herm), nontrivial=True)
        e_sum = md(parts[0] + parts[1] + parts[2], whole)
        if e_sum > 10 * tol:
            if not jviol("h_part + j_part + k_part differs from the generator by %.3g (%s)" % (e_sum, mb)):
                ctx.violation("extract", "EffectiveLindbladian.calc_*_part", "parts-do-not-sum", "h+j+k parts differ from the generator by %.3g (%s)" % (e_sum, mb), case)
        if md(parts[3], parts[1] + parts[2]) > 10 * tol:
            ctx.violation("extract", "EffectiveLindbladian.calc_d_part", "d-not-j-plus-k", "d_part != j_part + k_part (%s): %.3g" % (mb, md(parts[3], parts[1] + parts[2])), case)
    # the model's rebuilt generator is the input (ties theorem C18_extract_rebuild to this input)
    mod = allp[8]
    if md(mod, hs) > 10 * tol:
        ctx.violation("extract", "model.rebuild_cb", "oracle-mismatch", "model extract-then-rebuild is not the identity: %.3g" % md(mod, hs), case)


def sub_extract(ctx):
    rng = ctx.rng
    cases = []
    plan = [("1q", nn(ctx, 8, 60)), ("1q-rot", nn(ctx, 4, 40)), ("qutrit", nn(ctx, 4, 40)), ("2q", nn(ctx, 1, 25)), ("qutrit-rot", ctx.n(0, 20))]
    for sysn, cnt in plan:
        S = get_sys(ctx, sysn); d, n = S["d"], S["n"]
        for i in range(cnt):
            if i % 4 == 3:
                cases.append({"sys": sysn, "src": "real", "scale": scale_of(rng), "R": [rng.randint(-8, 8) for _ in range(n * n)]})
            else:
                kind = ["psd", "psd-low", "indef"][i % 3]
                cases.append({"sys": sysn, "src": "hk", "scale": scale_of(rng), "H": g_herm(rng, d), "K": g_K(rng, n - 1, kind)})
    # degenerate members: zero generator, pure Hamiltonian (the only kinds upstream tests use)
    for sysn in ("1q", "qutrit"):
        S = get_sys(ctx, sysn); d, n = S["d"], S["n"]
        cases.append({"sys": sysn, "src": "hk", "scale": 1.0, "H": g_herm(rng, d), "K": g_K(rng, n - 1, "zero")})
    ctx.sample("extract", cases[0])
    ctx.run_cases("extract", chk_extract, cases)


# ================================================================================================ 3. jump operators
JUMPSITE = ("effective_lindbladian.generate_j_part_cb_from_jump_operators", "uses-c-instead-of-cdagger-c")


def chk_jump(ctx, case):
    from quara.objects import effective_lindbladian as el
    S = get_sys(ctx, case["sys"]); d, n = S["d"], S["n"]
    m = ctx.get_model()
    s = case["scale"]
    cs = [m_of(c, 4.0) * math.sqrt(s) if case["kind"] != "proj" else m_of(c) for c in case["cs"]]
    if case["kind"] == "proj":      # orthogonal projectors |k><k| : the one class for which c = c^dagger c
        cs = [np.diag([1.0 if i == k else 0.0 for i in range(d)]).astype(complex) for k in range(len(case["cs"]))]
    cs_arg = None
    if case["kind"] == "mixed-dtype":
        # a valid jump set given as arrays of DIFFERENT dtypes: integer-valued int64, real float64, then complex128 (smaller dtype first)
        ci = [np.round(m_of(case["cs"][0]).real).astype(np.int64), (m_of(case["cs"][1]).real / 4.0).astype(np.float64)] + [m_of(c, 4.0) for c in case["cs"][2:]]
        cs_arg = ci
        cs = [np.asarray(c, dtype=complex) for c in ci]
    k = len(cs)
    cq = sum((cflat(c) for c in cs), [])
    basis = S["c_sys"].basis()
    ctx.count("jump", key=repr(case), nontrivial=case["kind"] != "proj", label="%s/%s/k=%d" % (case["sys"], case["kind"], k))
    ca = cs if cs_arg is None else cs_arg            # what the implementation is handed
    try:
        impl = {"j_cb": el.generate_j_part_cb_from_jump_operators(ca), "k_cb": el.generate_k_part_cb_from_jump_operators(ca),
                "d_cb": el.generate_d_part_cb_from_jump_operators(ca), "j_gb": el.generate_j_part_gb_from_jump_operators(ca, basis),
                "k_gb": el.generate_k_part_gb_from_jump_operators(ca, basis), "d_gb": el.generate_d_part_gb_from_jump_operators(ca, basis)}
        Lobj = el.generate_effective_lindbladian_from_jump_operators(S["c_sys"], ca, is_physicality_required=False)
    except Exception as e:
        ctx.violation("jump", "effective_lindbladian.generate_effective_lindbladian_from_jump_operators", "rejects-valid-jump-set",
                      "a valid set of jump operators (dtypes %s) is rejected: %s(%s)" % ([str(np.asarray(c).dtype) for c in ca], type(e).__name__, str(e)[:80]), case)
        return
    # the memory representation of the operators must not matter
    for tag in ("fortran-order", "transposed-view", "strided-view", "read-only"):
        cv = [dict(layouts(c))[tag] for c in ca]
        try:
            hv = el.generate_effective_lindbladian_from_jump_operators(S["c_sys"], cv, is_physicality_required=False).hs
        except Exception as e:
            ctx.violation("jump", "effective_lindbladian.generate_effective_lindbladian_from_jump_operators", "argument-layout", "raises %s(%s) on %s jump operators" % (type(e).__name__, str(e)[:60], tag), dict(case, layout=tag)); continue
        if md(hv, Lobj.hs) > tolf(Lobj.hs):
            ctx.violation("jump", "effective_lindbladian.generate_effective_lindbladian_from_jump_operators", "argument-layout", "generator depends on the memory layout of the jump operators (%s): differs by %.3g" % (tag, md(hv, Lobj.hs)), dict(case, layout=tag))
    tol = tolf(*impl.values())
    # the recorded defect (fix c18-jump-operators-cdagger-c) is back iff the j part coincides with the pre-fix routine
    j_mod = cmatv(m.call("c18.jump", [d, k, 2, 0], S["bq"] + cq), n, n)
    j_pre = cmatv(m.call("c18.jump", [d, k, 4, 0], S["bq"] + cq), n, n)
    old_defect = md(impl["j_cb"], j_mod) > tol and md(impl["j_cb"], j_pre) <= tol
    reported = []

    def jviol(what):
        if old_defect and not reported:
            reported.append(1)
            ctx.violation("jump", *JUMPSITE, what + " (first row of the generator %.3g: not trace preserving); the anti-commutator part coincides with the routine as coded before fix c18-jump-operators-cdagger-c: built from c, not c^dagger c" % float(np.abs(Lobj.hs[0]).max()), case)
        return old_defect
    # ---- property: the generator acts as  sum_c  c rho c^dagger - 1/2 {c^dagger c, rho}
    gk = cmatv(m.call("c18.jump", [d, k, 0, 0], S["bq"] + cq), n, n)          # model generator, comp basis
    bad = None
    for q, rint in enumerate(case["rhos"]):
        rho = state_of(rint) + (0.5j * m_of(rint) / 8.0 if q == 1 else 0)
        want = jump_np(cs, rho)
        v = cmatv(m.call("c18.gksl_jump", [d, k], cq + cflat(rho)), d, d)
        if md(v, want) > tolf(want):
            ctx.violation("jump", "harness.jump_np", "oracle-mismatch", "numpy and model GKSL evaluation differ", case)
        if md((gk @ rho.reshape(-1)).reshape(d, d), want) > tolf(want, gk):
            ctx.violation("jump", "model.jump_d", "oracle-mismatch", "model generator does not act as the GKSL equation (contradicts theorem C18_gksl_action_jump)", case)
        got = act_hs(S, Lobj.hs, rho)
        ctx.count("jump", key=(repr(case), "act", q), nontrivial=case["kind"] != "proj")
        if md(got, want) > tolf(want, Lobj.hs):
            bad = (q, md(got, want))
    if bad is not None:
        if not jviol("generator from jump operators deviates from the GKSL equation by %.3g on test matrix %d" % (bad[1], bad[0])):
            ctx.violation("jump", "effective_lindbladian.generate_effective_lindbladian_from_jump_operators", "gksl-action", "deviation %.3g from the GKSL equation on test matrix %d" % (bad[1], bad[0]), case)
    # a generator built from jump operators is physical: first row zero (trace preserving)
    if float(np.abs(Lobj.hs[0]).max()) > 1e-12 * (1 + float(np.abs(Lobj.hs).max())):
        if not jviol("generator from jump operators is not trace preserving"):
            ctx.violation("jump", "effective_lindbladian.generate_effective_lindbladian_from_jump_operators", "first-row-nonzero", "first row %.3g" % float(np.abs(Lobj.hs[0]).max()), case)
    # ---- the (H, K) form (theorem C18_jump_hk_form): with a = tr c / d, g_b = <B_{b+1}, c> the generator of the jump operators IS the
    # generator of H_eff = sum (i/2)(conj a c' - a c'^dagger), K = sum g g^dagger — in particular the identity component of a jump
    # operator is not dynamically irrelevant, and calc_k_mat / calc_h_mat / calc_j_mat of the object return K, H_eff (traceless), J(K) = -1/2 sum c'^dagger c'
    if n > 1:
        a_s = [np.trace(c) / d for c in cs]
        g_s = [np.array([np.vdot(S["B"][b + 1], c) for b in range(n - 1)]) for c in cs]
        Khk = sum(np.outer(g, g.conj()) for g in g_s)
        Hhk = np.zeros((d, d), dtype=complex)
        for c, a in zip(cs, a_s):
            ct = c - a * np.eye(d)
            Hhk = Hhk + 0.5j * (np.conj(a) * ct - a * ct.conj().T)
        dq = []
        for a, g in zip(a_s, g_s):
            dq += [float(a.real), float(a.imag)] + cflat(g.reshape(1, -1))
        out = to_c(m.call("c18.jump_hk", [d, k], S["bq"] + dq + PAD))
        Hm = np.array(out[:d * d]).reshape(d, d); Km = np.array(out[d * d:d * d + (n - 1) ** 2]).reshape(n - 1, n - 1)
        cm = [np.array(out[d * d + (n - 1) ** 2 + q * d * d:d * d + (n - 1) ** 2 + (q + 1) * d * d]).reshape(d, d) for q in range(k)]
        tolk = tolf(Khk, Hhk, *cs)
        ctx.count("jump", key=(repr(case), "hk"), nontrivial=case["kind"] != "proj", label="hk-form/%s" % case["kind"])
        if md(Hm, Hhk) > tolk or md(Km, Khk) > tolk or max(md(x, y) for x, y in zip(cm, cs)) > tolk:
            ctx.violation("jump", "harness.jump_hk_np", "oracle-mismatch", "numpy (a, g, H_eff, K) and the model's decomposition / jumps_H / jumps_K differ", case)
        try:
            hs_hk = el.generate_hs_from_hk(S["c_sys"], Hhk, Khk)
        except ValueError as e:
            hs_hk = None
            ctx.violation("jump", "effective_lindbladian.generate_hs_from_hk", "unexpected-raise", "H_eff / K of a jump set rejected: %s" % str(e)[:80], case)
        if hs_hk is not None and md(hs_hk, Lobj.hs) > 10 * tolf(hs_hk, Lobj.hs):
            if not jviol("generator from jump operators differs from the generator of its (H_eff, K) form by %.3g" % md(hs_hk, Lobj.hs)):
                ctx.violation("jump", "effective_lindbladian.generate_effective_lindbladian_from_jump_operators", "not-the-hk-form",
                              "generator from jump operators differs from generate_hs_from_hk(H_eff, K) by %.3g (K = sum g g^dagger, H_eff from the identity components)" % md(hs_hk, Lobj.hs), case)
        if not old_defect:
            # theorem C18_jump_generator_physical: the dissipator matrix of any jump set is PSD (exact decision on the extracted matrix)
            Kx = Lobj.calc_k_mat()
            if qcheck.antiherm_norm(Kx) > 1e-9 * (1 + float(np.abs(Khk).max())) or not qcheck.herm_psd(ctx, Kx, 1e-10 * (1 + float(np.abs(Khk).max()))):
                ctx.violation("jump", "effective_lindbladian.generate_effective_lindbladian_from_jump_operators", "dissipator-not-psd", "dissipator matrix of a jump-operator generator is not positive semidefinite", case)
            tole = 10 * tolf(Lobj.hs, Khk)
            Ht = Hhk - np.trace(Hhk) / d * np.eye(d)
            Jt = -0.5 * sum((c - a * np.eye(d)).conj().T @ (c - a * np.eye(d)) for c, a in zip(cs, a_s))      # J(K): traceless parts only
            for nm, got, want in [("calc_k_mat", Lobj.calc_k_mat(), Khk), ("calc_h_mat", Lobj.calc_h_mat(), Ht), ("calc_j_mat", Lobj.calc_j_mat(), Jt)]:
                if md(got, want) > tole:
                    ss = jsite_for(ctx, S, Lobj.hs, got) if nm == "calc_j_mat" else None
                    ctx.violation("jump", *(ss if ss == JSITE else ("EffectiveLindbladian." + nm, "jump-extraction")), "%s of a jump-operator generator differs from its (H_eff, K, J) form by %.3g" % (nm, md(got, want)), case)
    # ---- model of the six routines
    for name, variant, herm in [("j_cb", 2, 0), ("k_cb", 3, 0), ("d_cb", 0, 0), ("j_gb", 2, 1), ("k_gb", 3, 1), ("d_gb", 0, 1)]:
        mod = j_mod if name == "j_cb" else cmatv(m.call("c18.jump", [d, k, variant, herm], S["bq"] + cq), n, n)
        if md(impl[name], mod) > tol:
            if not (name[0] in "jd" and jviol("%s from jump operators differs from the model by %.3g" % (name, md(impl[name], mod)))):
                ctx.violation("jump", "effective_lindbladian.generate_%s_part_%s_from_jump_operators" % (name[0], name[2:]), "model-mismatch",
                              "%s differs from the model by %.3g" % (name, md(impl[name], mod)), case)
    if md(Lobj.hs, impl["d_gb"]) > tol:
        ctx.violation("jump", "effective_lindbladian.generate_effective_lindbladian_from_jump_operators", "model-mismatch", "object hs differs from d_part_gb", case)


def sub_jump(ctx):
    rng = ctx.rng
    cases = []
    plan = [("1q", nn(ctx, 8, 50)), ("1q-rot", nn(ctx, 3, 20)), ("qutrit", nn(ctx, 5, 40)), ("2q", nn(ctx, 2, 20))]
    for sysn, cnt in plan:
        S = get_sys(ctx, sysn); d, n = S["d"], S["n"]
        for i in range(cnt):
            k = [1, 2, n, rng.randint(1, n)][i % 4]
            kind = "proj" if (i % 5 == 4) else ("herm" if i % 5 == 3 else "generic")
            if kind == "proj":
                k = min(k, d)
            cs = [g_herm(rng, d, 4) if kind == "herm" else g_cint(rng, d, d, 4) for _ in range(k)]
            cases.append({"sys": sysn, "kind": kind, "scale": scale_of(rng), "cs": cs, "rhos": [g_state(rng, d), g_state(rng, d)]})
        # mixed dtypes (int64, float64, complex128 in that order), deterministic part of every tier
        for k in (2, 3):
            cases.append({"sys": sysn, "kind": "mixed-dtype", "scale": 1.0, "cs": [g_cint(rng, d, d, 3) for _ in range(k)], "rhos": [g_state(rng, d), g_state(rng, d)]})
    ctx.sample("jump", cases[0])
    ctx.run_cases("jump", chk_jump, cases)


# ================================================================================================ 4. verdicts
def chk_verdict(ctx, case):
    S = get_sys(ctx, case["sys"]); d, n = S["d"], S["n"]
    m = ctx.get_model()
    hs, H, K = hs_for(ctx, S, dict(case, src="hk"))
    hs = hs.copy()
    if case["row"]:
        hs[0, case["col"] % n] += case["row"]
    atol = case["atol"]
    L = mk_el(S, hs)
    band = 1e-3 * atol + 3e-12 * (1.0 + float(np.abs(hs).max())) * n
    lo = atol - band; hi = atol + band
    impl = [bool(L.is_tp(atol)), bool(L.is_cp(atol)), bool(L.is_physical(atol, atol))]
    at_ctor = ATOL0 + 3e-12 * (1 + float(np.abs(hs).max())) * n
    need_ctor = case["atol"] == ATOL0 or case.get("ctor")
    atols = ([lo] if lo > 0 else []) + [hi] + ([at_ctor] if need_ctor else [])
    if ctx.quick and case["sys"] == "2q":
        # quick tier, 2 qubits: the model's exact 30 x 30 PSD decisions on its own (long-mantissa) rational k matrix cost ~2.5 s each;
        # here the model only extracts k (exactly), it is rounded to doubles (perturbation << band) and the same verdict is composed
        # from the verified exact PSD decision of Core_ops.  The thorough tier runs the model's own verdict op on 2 qubits too.
        Km = cmatv(m.call("c18.extract", [d, 3], S["bq"] + rflat(hs)), n - 1, n - 1)
        rr = []
        for at in atols:
            tp = float(np.abs(hs[0]).max()) <= at
            hm = float(np.abs(Km - Km.conj().T).max()) <= at
            ps = bool(qcheck.herm_psd(ctx, (Km + Km.conj().T) / 2, at))
            rr.append([int(tp), int(hm), int(ps), int(hm and ps), int(tp and hm and ps)])
    else:
        rr = m.call("c18.verdicts", [d, len(atols)], atols + S["bq"] + rflat(hs) + PAD)         # k matrix extracted once for all tolerances
        rr = [rr[5 * q:5 * q + 5] for q in range(len(atols))]
    v_lo = [bool(int(rr[0][0])), bool(int(rr[0][3])), bool(int(rr[0][4]))] if lo > 0 else None
    r = rr[1 if lo > 0 else 0]; v_hi = [bool(int(r[0])), bool(int(r[3])), bool(int(r[4]))]
    names = ["is_tp", "is_cp", "is_physical"]
    for k in range(3):
        inband = v_lo is None or v_lo[k] != v_hi[k]
        ctx.count("verdict", key=(repr(case), k), nontrivial=not inband,
                  label="%s/%s/row=%g/atol=%g/%s" % (case["sys"], case["K"]["kind"], case["row"], atol, "in-band" if inband else str(v_hi[k])))
        if not inband and impl[k] != v_hi[k]:
            ctx.violation("verdict", "EffectiveLindbladian." + names[k], "verdict", "%s(atol=%g) = %s but the exact model says %s (first row max %.3g; K %s, negative part %g)" % (
                names[k], atol, impl[k], v_hi[k], float(np.abs(hs[0]).max()), case["K"]["kind"], case["K"]["neg"] * case["scale"]), case)
    # physical <=> first row zero and K PSD, independently of the model: exact PSD decision on the K the code extracts
    Kc = L.calc_k_mat()
    if ctx.quick and case["sys"] == "2q":       # two more exact 30 x 30 PSD decisions: thorough tier only
        ps_hi = ps_lo = None
    else:
        ps_hi = qcheck.herm_psd(ctx, Kc, atol + band); ps_lo = qcheck.herm_psd(ctx, Kc, atol - band) if atol > band else None
    tp_hi = float(np.abs(hs[0]).max()) <= atol + band; tp_lo = float(np.abs(hs[0]).max()) <= atol - band
    if ps_lo is not None and ps_hi == ps_lo and tp_hi == tp_lo and qcheck.antiherm_norm(Kc) < atol * 0.5:
        want = tp_hi and ps_hi
        ctx.count("verdict", key=(repr(case), "iff"), nontrivial=True)
        if impl[2] != want:
            ctx.violation("verdict", "EffectiveLindbladian.is_physical", "not-tp-and-kpsd", "is_physical = %s but (first row within atol) = %s and PSD(K + atol I) = %s" % (impl[2], tp_hi, ps_hi), case)
    # the constructor with physicality required raises exactly for the non-physical ones (default tolerance)
    if case["atol"] == ATOL0 or case.get("ctor"):
        phys_hi = bool(int(rr[-1][4]))
        exact = case["K"]["neg"] * case["scale"] >= 1e-7 or abs(case["row"]) >= 1e-9      # clearly non-physical
        clearly = case["K"]["kind"] == "psd" and case["row"] == 0.0                         # clearly physical
        if exact or clearly:
            try:
                mk_el(S, hs, is_physicality_required=True); raised = False
            except ValueError:
                raised = True
            ctx.count("verdict", key=(repr(case), "ctor"), nontrivial=True, label="ctor/" + ("raises" if raised else "accepts"))
            if raised != (not phys_hi):
                ctx.violation("verdict", "EffectiveLindbladian.__init__", "physicality-gate", "constructor %s but the exact verdict is physical=%s" % ("raised" if raised else "accepted", phys_hi), case)


def chk_verdict_boundary(ctx, case):
    """exactly-at-threshold, exactly representable: first-row entry = +-atol, +-atol(1 +- 2^-20), atol = 2^-e.  No band: both sides
    decide  |x| <= atol  on the same dyadic numbers (np.allclose(rtol=0) is exact here)."""
    S = get_sys(ctx, case["sys"]); d, n = S["d"], S["n"]
    m = ctx.get_model()
    atol = 2.0 ** (-case["e"])
    fac = {"at": 1.0, "above": 1.0 + 2.0 ** -20, "below": 1.0 - 2.0 ** -20}[case["rel"]]
    hs = np.zeros((n, n)); hs[0, case["col"] % n] = case["sign"] * atol * fac
    L = mk_el(S, hs)
    impl = [bool(L.is_tp(atol)), bool(L.is_cp(atol)), bool(L.is_physical(atol, atol))]
    r = m.call("c18.verdicts", [d, 1], [atol] + S["bq"] + rflat(hs) + PAD)
    mod = [bool(int(r[0])), bool(int(r[3])), bool(int(r[4]))]
    want_tp = case["rel"] != "above"
    ctx.count("verdict", key=repr(case), nontrivial=True, label="boundary/%s" % case["rel"])
    if mod[0] != want_tp:
        ctx.violation("verdict", "model.is_tp_dec", "oracle-mismatch", "model is_tp at the threshold: %s, expected %s" % (mod[0], want_tp), case)
    for k, nm in enumerate(["is_tp", "is_cp", "is_physical"]):
        if impl[k] != mod[k]:
            ctx.violation("verdict", "EffectiveLindbladian." + nm, "verdict-at-threshold", "%s(atol=2^-%d) = %s on a first-row entry %s the threshold (%s atol), exact model says %s" % (
                nm, case["e"], impl[k], case["rel"], "%+.8g x" % (case["sign"] * fac), mod[k]), case)


def chk_cp_boundary(ctx, case):
    """is_cp just inside / just outside its threshold with a dyadic tolerance: K = diag(-atol (1 -+ 2^-16), 1, 1, ..) * (unitary-free, diagonal),
    H = 0; the generator comes from the model (exact), the relative margin 2^-16 is far above the rounding of calc_k_mat / eigvalsh."""
    S = get_sys(ctx, case["sys"]); d, n = S["d"], S["n"]
    m = ctx.get_model()
    atol = 2.0 ** (-case["e"])
    lam = -atol * (1.0 - 2.0 ** -16 if case["rel"] == "inside" else 1.0 + 2.0 ** -16)
    K = np.diag([lam] + [atol * 4.0] * (n - 2)).astype(complex)
    pos = case["pos"] % (n - 1)
    K[[0, pos]] = K[[pos, 0]]; K[:, [0, pos]] = K[:, [pos, 0]]
    v = m.call("c18.gen", [d, 3], [ATOL0, 0.0] + S["bq"] + cflat(K))
    hs = rmatv(v, n, n)
    L = mk_el(S, hs)
    want = case["rel"] == "inside"
    ctx.count("verdict", key=repr(case), nontrivial=True, label="cp-boundary/%s" % case["rel"])
    got = [bool(L.is_cp(atol)), bool(L.is_physical(atol, atol))]
    if got[0] != want or got[1] != want:
        ctx.violation("verdict", "EffectiveLindbladian.is_cp", "verdict-at-threshold", "is_cp / is_physical (atol=2^-%d) = %s on a generator whose dissipator matrix has its least eigenvalue %s the threshold (-atol (1 %s 2^-16)); expected %s" % (
            case["e"], got, case["rel"], "-" if want else "+", want), case)


def sub_verdict(ctx):
    rng = ctx.rng
    cases = []
    plan = [("1q", ctx.n(12, 90)), ("1q-rot", ctx.n(4, 30)), ("qutrit", ctx.n(5, 50)), ("2q", ctx.n(1, 14))]
    for sysn, cnt in plan:
        S = get_sys(ctx, sysn); d, n = S["d"], S["n"]
        for i in range(cnt):
            kind = ["psd", "indef", "psd-low", "indef"][i % 4]
            row = [0.0, 0.0, 1e-7, 0.0, 1e-3, 0.5, 1e-11][i % 7]
            atol = [1e-9, ATOL0, 1e-6, 1e-3, 1e-9][i % 5]
            Kd = g_K(rng, n - 1, kind)
            if kind == "indef":
                Kd["neg"] = [1e-6, 1e-3, 1e-1, 1.0, 1e-8][i % 5]
            cases.append({"sys": sysn, "scale": rng.choice([1e-2, 1.0, 1.0, 10.0]), "H": g_herm(rng, d), "K": Kd, "row": row, "col": rng.randint(0, n - 1), "atol": atol, "ctor": (i % 3 == 0)})
    ctx.sample("verdict", cases[1])
    ctx.run_cases("verdict", chk_verdict, cases)
    bcases = []
    for sysn in ("1q", "qutrit", "2q"):
        for q, rel in enumerate(["at", "above", "below"] * (1 if ctx.quick else 3)):
            bcases.append({"sys": sysn, "e": rng.choice([13, 20, 30, 43]), "rel": rel, "sign": rng.choice([-1.0, 1.0]), "col": rng.randint(0, 15)})
    ctx.run_cases("verdict", chk_verdict_boundary, bcases)
    ccases = []
    for sysn in ("1q", "qutrit") + (() if ctx.quick else ("2q",)):
        for rel in ("inside", "outside"):
            for e in ([20, 40] if ctx.quick else [10, 20, 30, 40]):
                ccases.append({"sys": sysn, "e": e, "rel": rel, "pos": rng.randint(0, 14)})
    ctx.run_cases("verdict", chk_cp_boundary, ccases)


# ================================================================================================ 5. projections
def chk_proj_eq(ctx, case):
    S = get_sys(ctx, case["sys"]); d, n = S["d"], S["n"]
    m = ctx.get_model()
    hs = np.array(case["R"], dtype=float).reshape(n, n) / 8.0 * case["scale"]
    L = mk_el(S, hs)
    keep = hs.copy()
    P = L.calc_proj_eq_constraint()
    ctx.count("proj_eq", key=repr(case), nontrivial=True, label=case["sys"])
    mod = rmatv(m.call("c18.proj_eq", [n], rflat(hs)), n, n)
    site = "EffectiveLindbladian.calc_proj_eq_constraint"
    if not np.array_equal(P.hs, mod):
        ctx.violation("proj_eq", site, "model-mismatch", "projection differs from the model (must be bitwise: zero row, other rows copied)", case)
    if np.any(P.hs[0] != 0) or not np.array_equal(P.hs[1:], hs[1:]):
        ctx.violation("proj_eq", site, "not-exactly-first-row", "equality projection does not zero exactly the first row", case)
    if not np.array_equal(L.hs, keep):
        ctx.violation("proj_eq", site, "mutates-operand", "operand changed by the projection", case)
    if not P.is_tp():
        ctx.violation("proj_eq", site, "result-not-tp", "projected generator is not judged TP", case)
    # nearest point (Pythagoras) against random members of the constraint set
    Z = np.array(case["Z"], dtype=float).reshape(n, n) / 4.0 * case["scale"]; Z[0] = 0
    lhs = np.sum((hs - Z) ** 2); rhs = np.sum((hs - P.hs) ** 2) + np.sum((P.hs - Z) ** 2)
    if abs(lhs - rhs) > 1e-9 * (1 + lhs):
        ctx.violation("proj_eq", site, "not-nearest-point", "Pythagoras fails: %.6g vs %.6g" % (lhs, rhs), case)


def sub_proj_eq(ctx):
    rng = ctx.rng
    cases = []
    for sysn, cnt in [("1q", ctx.n(10, 60)), ("qutrit", ctx.n(5, 30)), ("2q", ctx.n(3, 20))]:
        S = get_sys(ctx, sysn); n = S["n"]
        for i in range(cnt):
            cases.append({"sys": sysn, "scale": scale_of(rng), "R": [rng.randint(-8, 8) for _ in range(n * n)], "Z": [rng.randint(-8, 8) for _ in range(n * n)]})
    ctx.sample("proj_eq", cases[0])
    ctx.run_cases("proj_eq", chk_proj_eq, cases)


def chk_proj_ineq(ctx, case):
    from quara.objects import effective_lindbladian as el
    S = get_sys(ctx, case["sys"]); d, n = S["d"], S["n"]
    hs, H, K = hs_for(ctx, S, dict(case, src="hk"))
    L = mk_el(S, hs)
    keep = hs.copy()
    site = "EffectiveLindbladian.calc_proj_ineq_constraint"
    kind = case["K"]["kind"]
    ctx.count("proj_ineq", key=repr(case), nontrivial=True, label="%s/%s" % (case["sys"], kind))
    P = L.calc_proj_ineq_constraint()
    if not np.array_equal(L.hs, keep):
        ctx.violation("proj_ineq", site, "mutates-operand", "operand changed by the projection", case)
    sc = float(np.abs(K).max()) + 1e-300
    K2 = P.calc_k_mat()
    eps = 1e-9 * (1 + sc)
    # certificate (DESIGN 2.6) on the dissipator matrix: K' PSD, K' - K PSD, <K', K' - K> = 0  =>  K' is THE nearest PSD matrix
    c1 = qcheck.herm_psd(ctx, K2, eps); c2 = qcheck.herm_psd(ctx, K2 - K, eps)
    ip = abs(np.vdot(K2, K2 - K))
    # failure class "degenerate-spectrum": K has a repeated non-zero eigenvalue (then an eigen-solver for general matrices need not return
    # orthogonal eigenvectors and V diag(clipped) V^dagger is not the spectral projection)
    ev = np.linalg.eigvalsh((K + K.conj().T) / 2)
    degenerate = any(abs(ev[q + 1] - ev[q]) <= 1e-9 * (1 + sc) and abs(ev[q]) > 1e-6 * (1 + sc) for q in range(len(ev) - 1))
    dsig = "degenerate-spectrum"
    if qcheck.antiherm_norm(K2) > eps or not c1:
        ctx.violation("proj_ineq", site, dsig if degenerate else "result-not-psd", "dissipator matrix of the projected generator is not PSD within %.3g%s" % (eps, " (K has a repeated non-zero eigenvalue)" if degenerate else ""), case)
    elif not c2 or ip > 1e-8 * (1 + sc) ** 2:
        ctx.violation("proj_ineq", site, dsig if degenerate else "not-nearest-psd", "certificate rejected: PSD(K'-K)=%s, |<K',K'-K>|=%.3g%s" % (c2, ip, " (K has a repeated non-zero eigenvalue)" if degenerate else ""), case)
    if md(P.calc_h_mat(), L.calc_h_mat()) > tolf(hs):
        ctx.violation("proj_ineq", site, "hamiltonian-changed", "the projection changed the Hamiltonian part by %.3g" % md(P.calc_h_mat(), L.calc_h_mat()), case)
    # model of the routine (theorem C18_proj_ineq_spec is about it): rebuild from calc_h_mat, calc_j_mat and the clipped K' the
    # implementation arrived at (numpy eig is an oracle; K' itself is certificate-checked above)
    if case["sys"] != "2q" or not ctx.quick:
        modp = cmatv(ctx.get_model().call("c18.proj_ineq", [d], S["bq"] + rflat(hs) + cflat(K2) + PAD), n, n)
        if md(P.hs, modp) > 100 * tolf(hs):
            jm = cmatv(ctx.get_model().call("c18.extract", [d, 1], S["bq"] + rflat(hs)), d, d)
            if md(L.calc_j_mat(), jm) > tolf(hs):
                pass        # calc_j_mat itself is off: reported below / by the extract sub-check under its own signature
            else:
                ctx.violation("proj_ineq", site, "model-mismatch", "projected generator differs from rebuild(h, j, K') of the model by %.3g" % md(P.hs, modp), case)
    # physical generators must be left unchanged; in general H and J are kept and K is replaced by K'
    L_cb = to_cb(S, hs)
    j_np = jmat_fixed_np(S, L_cb); j_impl = L.calc_j_mat()        # model-side J of the input vs what the implementation extracts
    dK = K2 - K
    kp = 0 * L_cb
    for a in range(n - 1):
        for b in range(n - 1):
            kp = kp + dK[a, b] * np.kron(S["B"][a + 1], S["B"][b + 1].conj())
    expect = hs + from_cb(S, kp).real          # h and j kept, K replaced by K' (the nearest point of {L : K(L) >= 0}: the three parts are mutually orthogonal)
    err = md(P.hs, expect)
    ctx.count("proj_ineq", key=(repr(case), "keep"), nontrivial=True, label="%s/unchanged-check" % kind)
    if err > 100 * tolf(hs):
        repaired = P.hs + from_cb(S, jpart_np(j_np) - jpart_np(j_impl)).real
        what = "physical generator changed by the inequality projection" if kind in ("psd", "psd-low", "zero", "psd-deg", "psdlow-deg") else "inequality projection changes more than the dissipator matrix"
        if md(repaired, expect) <= 100 * tolf(hs):
            ctx.violation("proj_ineq", *jsite_for(ctx, S, hs, j_impl), "%s: hs moves by %.3g (first row becomes %.3g); the projection rebuilds with calc_j_mat, which returns a wrong anti-commutator matrix — with the right J the result is exact" % (what, err, float(np.abs(P.hs[0]).max())), case)
        else:
            ctx.violation("proj_ineq", site, dsig if degenerate else ("changes-physical" if kind not in ("indef", "indef-deg", "negdef", "negdef-deg") else "value"), "%s by %.3g, not explained by calc_j_mat" % (what, err), case)
    # with physicality required the projection of a physical generator must not raise
    if kind in ("psd", "psd-deg") and case.get("strict"):
        Ls = mk_el(S, hs, is_physicality_required=True)
        try:
            Ls.calc_proj_ineq_constraint()
        except ValueError as e:
            # the constructor's verdict uses the ABSOLUTE tolerance 1e-13; the rebuilt first row carries rounding noise of relative size
            # ~1e-15 * n, which exceeds it for large generators: such a raise is in the ambiguity band, not a defect
            row = float(np.abs(P.hs[0]).max()); band = 3e-12 * (1.0 + float(np.abs(hs).max())) * n
            if row <= band:
                ctx.count("proj_ineq", key=(repr(case), "strict"), nontrivial=False, label="strict/in-band")
            # same root cause? the rebuilt generator has a non-zero first row because of calc_j_mat
            elif float(np.abs(P.hs[0]).max()) > 1e-9 and float(np.abs((P.hs + from_cb(S, jpart_np(j_np) - jpart_np(j_impl)).real)[0]).max()) < 1e-9:
                ctx.violation("proj_ineq", *jsite_for(ctx, S, hs, j_impl), "calc_proj_ineq_constraint of a physical generator raises ValueError(not physically correct): the rebuilt generator is not TP because of calc_j_mat", case)
            else:
                ctx.violation("proj_ineq", site, dsig if degenerate else "unexpected-raise", "projection of a physical generator raised %s%s" % (str(e)[:80], " (K has a repeated non-zero eigenvalue)" if degenerate else ""), case)


def sub_proj_ineq(ctx):
    rng = ctx.rng
    cases = []
    for sysn, cnt in [("1q", ctx.n(7, 60)), ("1q-rot", ctx.n(3, 20)), ("qutrit", ctx.n(4, 30)), ("2q", ctx.n(1, 12))]:
        S = get_sys(ctx, sysn); d, n = S["d"], S["n"]
        for i in range(cnt):
            kind = ["indef", "psd", "indef", "psd-low"][i % 4]
            Kd = g_K(rng, n - 1, kind)
            if kind == "indef":
                Kd["neg"] = [1e-3, 1e-1, 1.0, 4.0][i % 4]
            cases.append({"sys": sysn, "scale": rng.choice([1e-2, 1.0, 1.0, 10.0]), "H": g_herm(rng, d), "K": Kd, "strict": True})
        # degenerate spectra (numpy.linalg.eig does not orthogonalise eigenvectors inside a degenerate eigenspace)
        for i in range(max(3, cnt // 2) if sysn != "2q" else ctx.n(1, 4)):
            kind = ["psd-deg", "indef-deg", "psdlow-deg"][i % 3]
            cases.append({"sys": sysn, "scale": rng.choice([1e-2, 1.0, 1.0, 10.0]), "H": g_herm(rng, d), "K": g_K(rng, n - 1, kind), "strict": True})
        # spectra with NO non-negative eigenvalue (the projection must return K' = 0), generic and degenerate; deterministic part of every tier
        for kind in (("negdef", "negdef-deg") if (sysn != "2q" or not ctx.quick) else ("negdef",)):
            cases.append({"sys": sysn, "scale": rng.choice([1e-2, 1.0, 10.0]), "H": g_herm(rng, d), "K": g_K(rng, n - 1, kind), "strict": False})
    ctx.sample("proj_ineq", cases[0])
    ctx.run_cases("proj_ineq", chk_proj_ineq, cases)


# ================================================================================================ 7. to_gate
def chk_to_gate(ctx, case):
    from quara.objects.gate import Gate
    S = get_sys(ctx, case["sys"]); d, n = S["d"], S["n"]
    m = ctx.get_model()
    hs1, H, K = hs_for(ctx, S, dict(case, src="hk", scale=1.0))
    nrm = float(np.abs(hs1).sum(axis=1).max()) + 1e-300
    t = case["t"] / nrm                     # ||t L||_inf = case["t"]
    hs = hs1 * t
    phys = case["K"]["kind"] in ("psd", "psd-low", "zero")
    lab = "%s/%s/normt=%g" % (case["sys"], case["K"]["kind"], case["t"])
    ctx.count("to_gate", key=repr(case), nontrivial=True, label=lab)
    site = "EffectiveLindbladian.to_gate"
    if phys:
        try:
            L = mk_el(S, hs, is_physicality_required=True)
        except ValueError:
            ctx.violation("to_gate", "EffectiveLindbladian.__init__", "physicality-gate", "physical generator rejected by the constructor", case); return
        try:
            G = L.to_gate()
        except ValueError as e:
            ctx.violation("to_gate", site, "gate-not-physical", "to_gate of a physical generator raised: %s" % str(e)[:80], case); return
        if type(G) is not Gate:
            ctx.violation("to_gate", site, "type", "to_gate returned %s" % type(G).__name__, case)
        e0 = np.zeros(n); e0[0] = 1
        if md(G.hs[0], e0) > 1e-11 * (1 + case["t"]):
            ctx.violation("to_gate", site, "not-tp", "first row of exp(L) deviates from e0 by %.3g" % md(G.hs[0], e0), case)
        if not (G.is_tp() and G.is_cp() and G.is_physical()):
            ctx.violation("to_gate", site, "gate-not-physical", "gate of a physical generator judged tp=%s cp=%s" % (G.is_tp(), G.is_cp()), case)
        choi = G.to_choi_matrix()
        choi = np.asarray(choi.toarray() if hasattr(choi, "toarray") else choi)
        if not qcheck.herm_psd(ctx, choi, 1e-10 * (1 + d)):
            ctx.violation("to_gate", site, "choi-not-psd", "Choi matrix of exp(L) is not PSD (exact decision, shift 1e-10)", case)
        # semigroup law on the implementation's outputs
        G2 = mk_el(S, hs * 0.5, is_physicality_required=True).to_gate()
        if md(G2.hs @ G2.hs, G.hs) > 1e-9 * (1 + float(np.abs(G.hs).max())):
            ctx.violation("to_gate", site, "semigroup", "exp(L/2)^2 != exp(L): %.3g" % md(G2.hs @ G2.hs, G.hs), case)
    # rational Taylor ENCLOSURE: inputs rounded to a 2^-26 grid (short rationals); x = ||L||_inf exactly; the model returns the exact
    # partial sum T_N; every later partial sum (hence the limit exp(L)) lies within the explicit remainder bound
    #     R_N = x^(N+1)/(N+1)! * (N+2)/(N+2-x)          (geometric tail, valid for x < N+2; theorem C18_taylor_tail_bound)
    # entrywise.  N is the least N with R_N <= 1e-13, all of it in exact rational arithmetic.  The implementation (scipy expm in
    # floating point) must lie in the enclosure widened by its own rounding allowance 2e-14 * n * (1 + x) * e^x.
    # quick: ||L|| <= 2 ; thorough: additionally ||L|| = 10 on the 4 x 4 (1-qubit) systems.
    if case["t"] <= 2.0 or (not ctx.quick and n == 4):
        hr = np.round(hs * 2.0 ** 26) / 2.0 ** 26
        xq = max(sum(abs(Fraction(float(v))) for v in row) for row in hr)
        x = float(xq)
        N = 1; term = xq * xq / 2                         # term = x^(N+1)/(N+1)!
        while not (N + 2 > xq and term * (N + 2) / (N + 2 - xq) <= Fraction(1, 10 ** 13)):
            N += 1; term = term * xq / (N + 1)
            if N > 200:
                break
        R = float(term * (N + 2) / (N + 2 - xq))
        Gr = mk_el(S, hr).to_gate()
        mod = rmatv(m.call("c18.texp", [n, N], rflat(hr)), n, n)
        allow = R + 2e-14 * n * (1 + x) * math.exp(x)
        err = md(Gr.hs, mod)
        _WORST["taylor"] = max(_WORST.get("taylor", 0.0), err / allow)
        ctx.count("to_gate", key=(repr(case), "taylor"), nontrivial=True, label="taylor-enclosure/N=%d" % N)
        if err > allow:
            ctx.violation("to_gate", site, "not-the-exponential", "to_gate leaves the rational Taylor enclosure: |expm(L) - T_%d(L)| = %.3g > remainder bound %.3g + rounding allowance %.3g (||L||_inf = %.4g)" % (N, err, R, allow - R, x), case)
        if np.all(hr[0] == 0) and (np.any(mod[0, 1:] != 0) or mod[0, 0] != 1):
            ctx.violation("to_gate", "model.texp", "oracle-mismatch", "Taylor sum of a first-row-zero matrix has first row != e0 (contradicts theorem C18_to_gate_tp_partial)", case)


def sub_to_gate(ctx):
    rng = ctx.rng
    cases = []
    for sysn, cnt in [("1q", ctx.n(12, 70)), ("1q-rot", ctx.n(3, 20)), ("qutrit", ctx.n(6, 40)), ("2q", ctx.n(2, 14))]:
        S = get_sys(ctx, sysn); d, n = S["d"], S["n"]
        for i in range(cnt):
            kind = ["psd", "psd-low", "psd", "indef", "zero"][i % 5]
            t = [1e-3, 1e-2, 1e-1, 1.0, 2.0, 10.0][i % 6]
            cases.append({"sys": sysn, "t": t, "H": g_herm(rng, d), "K": g_K(rng, n - 1, kind)})
    ctx.sample("to_gate", cases[0])
    ctx.run_cases("to_gate", chk_to_gate, cases)


# ================================================================================================ 8. sparse tables
def chk_tables(ctx, case):
    from quara.objects import effective_lindbladian as el
    S = get_sys(ctx, case["sys"]); d, n = S["d"], S["n"]
    m = ctx.get_model()
    c_sys = S["c_sys"]
    Tk = c_sys.basis_basisconjugate_T_sparse_from_1.tocsc(); Tj = c_sys.basishermitian_basis_T_from_1.tocsc()
    if Tk.shape != (n * n, (n - 1) ** 2) or Tj.shape != (n, (n - 1) ** 2):
        ctx.violation("tables", "CompositeSystem._calc_basis_basisconjugate_sparse", "shape", "table shapes %s %s" % (Tk.shape, Tj.shape), case); return
    # ---- EVERY entry of the four tables of _calc_basis_basisconjugate_sparse against the defining formulas, evaluated with numpy
    # directly on the basis elements: column (a, b) [itertools.product order] of
    #   basis_basisconjugate_T_sparse          = vec(B_a (x) conj B_b)            (all a, b)       basisconjugate_basis_sparse = its conjugate, as rows
    #   basis_basisconjugate_T_sparse_from_1   = vec(B_a (x) conj B_b)            (a, b >= 1)
    #   basishermitian_basis_T_from_1          = vec(B_b^dagger B_a)              (a, b >= 1)
    Bs = S["B"]
    Tfull = c_sys.basis_basisconjugate_T_sparse.tocsc(); Tconj = c_sys.basisconjugate_basis_sparse.tocsr()
    if Tfull.shape != (n * n, n * n) or Tconj.shape != (n * n, n * n):
        ctx.violation("tables", "CompositeSystem._calc_basis_basisconjugate_sparse", "shape", "full table shapes %s %s" % (Tfull.shape, Tconj.shape), case); return
    worst = {"k1": (0.0, None), "j1": (0.0, None), "full": (0.0, None), "conj": (0.0, None)}

    def upd(key, err, where):
        if err > worst[key][0]:
            worst[key] = (err, where)
    for a in range(n):
        for b in range(n):
            ref = np.kron(Bs[a], Bs[b].conj()).reshape(-1)
            upd("full", md(np.asarray(Tfull[:, a * n + b].toarray()).reshape(-1), ref), (a, b))
            upd("conj", md(np.asarray(Tconj[a * n + b, :].toarray()).reshape(-1), ref.conj()), (a, b))
            if a >= 1 and b >= 1:
                col = (a - 1) * (n - 1) + (b - 1)
                upd("k1", md(np.asarray(Tk[:, col].toarray()).reshape(-1), ref), (a, b))
                upd("j1", md(np.asarray(Tj[:, col].toarray()).reshape(-1), (Bs[b].conj().T @ Bs[a]).reshape(-1)), (a, b))
    ctx.count("tables", key=(case["sys"], "entrywise"), nontrivial=True, label="%s/entrywise-all" % case["sys"])
    for key, site, what in [("k1", "CompositeSystem.basis_basisconjugate_T_sparse_from_1", "B_a (x) conj B_b"), ("j1", "CompositeSystem.basishermitian_basis_T_from_1", "B_b^dagger B_a"),
                            ("full", "CompositeSystem.basis_basisconjugate_T_sparse", "B_a (x) conj B_b"), ("conj", "CompositeSystem.basisconjugate_basis_sparse", "conj B_a (x) B_b")]:
        if worst[key][0] > 1e-12:
            ctx.violation("tables", site, "defining-formula", "table entry differs from %s by %.3g at (a, b) = %s" % (what, worst[key][0], worst[key][1]), dict(case, cols=case["cols"][:1]))
    # ---- history: dropping the cached tables and rebuilding them gives the same tables
    c_sys.delete_basis_basisconjugate_T_sparse_from_1(); c_sys.delete_basishermitian_basis_T_from_1()
    Tk2 = c_sys.basis_basisconjugate_T_sparse_from_1.tocsc(); Tj2 = c_sys.basishermitian_basis_T_from_1.tocsc()
    if (Tk2 != Tk).nnz != 0 or (Tj2 != Tj).nnz != 0:
        ctx.violation("tables", "CompositeSystem._calc_basis_basisconjugate_sparse", "rebuild-differs", "tables rebuilt after delete_* differ from the first build", dict(case, cols=case["cols"][:1]))
    for col in case["cols"]:
        ck = np.asarray(Tk[:, col].toarray()).reshape(-1); cj = np.asarray(Tj[:, col].toarray() if hasattr(Tj[:, col], "toarray") else Tj[:, col]).reshape(-1)
        mk = np.array(to_c(m.call("c18.tab_col", [d, 0, col], S["bq"]))); mj = np.array(to_c(m.call("c18.tab_col", [d, 1, col], S["bq"])))
        ctx.count("tables", key=(case["sys"], col), nontrivial=True, label=case["sys"])
        if md(ck, mk) > 1e-12:
            ctx.violation("tables", "CompositeSystem.basis_basisconjugate_T_sparse_from_1", "model-mismatch", "column %d differs from B_a (x) conj B_b by %.3g" % (col, md(ck, mk)), dict(case, cols=[col]))
        if md(cj, mj) > 1e-12:
            ctx.violation("tables", "CompositeSystem.basishermitian_basis_T_from_1", "model-mismatch", "column %d differs from B_b^dagger B_a by %.3g" % (col, md(cj, mj)), dict(case, cols=[col]))
    # the two routines built on the tables, on a generic (non-Hermitian) coefficient matrix
    K = m_of(case["K"], 4.0)
    tol = tolf(K)
    for sp in (0, 1):
        mjm = cmatv(m.call("c18.j_of_k", [d, sp], S["bq"] + cflat(K)), d, d)
        mkp = cmatv(m.call("c18.k_part", [d, sp], S["bq"] + cflat(K)), n, n)
        ji = [el._calc_j_mat_from_k_mat_slowly, el._calc_j_mat_from_k_mat][sp](K, c_sys)
        ki = [el._calc_k_part_from_slowly, el._calc_k_part_from_k_mat][sp](K, c_sys)
        ctx.count("tables", key=(repr(case), "routines", sp), nontrivial=True, label="%s/%s" % (case["sys"], "sparse" if sp else "slow"))
        if md(ji, mjm) > tol:
            ctx.violation("tables", "effective_lindbladian._calc_j_mat_from_k_mat" + ("" if sp else "_slowly"), "model-mismatch", "j_mat from k_mat differs from the model by %.3g" % md(ji, mjm), case)
        if md(ki, mkp) > tol:
            ctx.violation("tables", "effective_lindbladian._calc_k_part_from_k_mat" + ("" if sp else "_slowly (_calc_k_part_from_slowly)"), "model-mismatch", "k_part from k_mat differs from the model by %.3g" % md(ki, mkp), case)
        for tag, Kv in layouts(K):
            jv = [el._calc_j_mat_from_k_mat_slowly, el._calc_j_mat_from_k_mat][sp](Kv, c_sys)
            kv = [el._calc_k_part_from_slowly, el._calc_k_part_from_k_mat][sp](Kv, c_sys)
            ctx.count("tables", key=(repr(case), "routines", sp, tag), nontrivial=True, label="%s/layout/%s" % (case["sys"], tag))
            if md(jv, ji) > tol or md(kv, ki) > tol:
                ctx.violation("tables", "effective_lindbladian._calc_%s_from_k_mat%s" % ("j_mat" if md(jv, ji) > tol else "k_part", "" if sp else "_slowly"), "argument-layout",
                              "result depends on the memory layout of k_mat: a %s array gives a result that differs by %.3g (a generic, non-symmetric K)" % (tag, max(md(jv, ji), md(kv, ki))), dict(case, layout=tag))


def sub_tables(ctx):
    rng = ctx.rng
    cases = []
    for sysn in ["1q", "1q-rot", "qutrit", "2q"] + ([] if ctx.quick else ["qutrit-rot"]):
        S = get_sys(ctx, sysn); n = S["n"]
        ncol = (n - 1) ** 2
        cols = list(range(ncol)) if (ncol <= 64 or not ctx.quick) else sorted(rng.sample(range(ncol), 24))
        if sysn == "2q" and not ctx.quick:
            cols = sorted(rng.sample(range(ncol), 120))
        cases.append({"sys": sysn, "cols": cols, "K": g_cint(rng, n - 1, n - 1, 5)})
    ctx.sample("tables", {"sys": cases[0]["sys"], "cols": cases[0]["cols"][:5]})
    ctx.run_cases("tables", chk_tables, cases)


# ================================================================================================ 9. Hamiltonian constructors, random generation setting
def chk_typical(ctx, case):
    from quara.objects import effective_lindbladian_typical as elt
    from quara.objects import effective_lindbladian as el
    S = get_sys(ctx, case["sys"]); d, n = S["d"], S["n"]
    m = ctx.get_model()
    H = m_of(case["H"], 8.0) * case["scale"]
    ctx.count("typical", key=repr(case), nontrivial=True, label=case["sys"])
    L_cb = elt.calc_effective_lindbladian_mat_comp_basis_from_hamiltonian(np.array(H))
    mod = cmatv(m.call("c18.lcb", [d, 2], S["bq"] + cflat(H)), n, n)
    if md(L_cb, mod) > tolf(H):
        ctx.violation("typical", "effective_lindbladian_typical.calc_effective_lindbladian_mat_comp_basis_from_hamiltonian", "model-mismatch", "differs from -i(H(x)I - I(x)conj H) by %.3g" % md(L_cb, mod), case)
    Lh = elt.calc_effective_lindbladian_mat_hermitian_basis_from_hamiltonian(np.array(H), S["c_sys"].basis())
    modh = rmatv(m.call("c18.gen", [d, 2], [ATOL0, ATOL0] + S["bq"] + cflat(H)), n, n)
    if md(Lh, modh) > tolf(H):
        ctx.violation("typical", "effective_lindbladian_typical.calc_effective_lindbladian_mat_hermitian_basis_from_hamiltonian", "model-mismatch", "differs from the model by %.3g" % md(Lh, modh), case)
    obj = el.generate_effective_lindbladian_from_h(S["c_sys"], np.array(H))
    rho = state_of(case["rho"])
    if md(act_hs(S, obj.hs, rho), -1j * (H @ rho - rho @ H)) > tolf(H):
        ctx.violation("typical", "effective_lindbladian.generate_effective_lindbladian_from_h", "gksl-action", "does not act as -i[H, rho]", case)
    if not obj.is_physical():
        ctx.violation("typical", "effective_lindbladian.generate_effective_lindbladian_from_h", "verdict", "Hamiltonian generator judged non-physical", case)


def chk_random_setting(ctx, case):
    from quara.simulation.random_effective_lindbladian_generation_setting import RandomEffectiveLindbladianGenerationSetting as RS
    from quara.objects.effective_lindbladian import EffectiveLindbladian
    S = get_sys(ctx, case["sys"]); d, n = S["d"], S["n"]
    m = ctx.get_model()
    base = mk_el(S, np.zeros((n, n)), is_physicality_required=True)
    from quara.objects.gate import Gate
    gate0 = Gate(S["c_sys"], np.eye(n))
    sh, sk = case["sh"], case["sk"]
    rs = RS(S["c_sys"], gate0, base, sh, sk)
    L, vh, vk, U, rgb = rs.generate_random_effective_lindbladian(case["seed"])
    ctx.count("random_setting", key=repr(case), nontrivial=True, label="%s/sh=%g/sk=%g" % (case["sys"], sh, sk))
    site = "RandomEffectiveLindbladianGenerationSetting.generate_random_effective_lindbladian"
    # reconstruct H and K from the returned random variables exactly as documented
    H = sum(sh * vh[i] / np.linalg.norm(vh) * S["B"][i + 1] for i in range(n - 1))
    K = U @ np.diag(np.abs(sk * vk / np.linalg.norm(vk))) @ U.conj().T
    K = (K + K.conj().T) / 2
    mod = rmatv(m.call("c18.gen", [d, 1], [ATOL0, 0.0] + S["bq"] + cflat(H) + cflat(K)), n, n)
    tol = 1e-9 * max(sh, sk) + 2e-14
    if md(rgb, mod) > tol or md(L.hs, mod) > tol:
        ctx.violation("random_setting", site, "model-mismatch", "random generator differs from the GKSL generator of the returned (H, K) by %.3g" % md(rgb, mod), case)
    if abs(np.linalg.norm(np.linalg.eigvalsh(K)) - sk) > 1e-9 * sk or abs(np.sqrt(sum(abs(np.vdot(S["B"][i + 1], H)) ** 2 for i in range(n - 1))) - sh) > 1e-9 * sh:
        ctx.violation("random_setting", site, "strength", "strengths of the generated parts are not the requested ones", case)
    if float(np.abs(L.hs[0]).max()) > 1e-13 or not qcheck.herm_psd(ctx, L.calc_k_mat(), 1e-12 * sk + 1e-15):
        ctx.violation("random_setting", site, "not-physical", "random generator is not physical (first row %.3g)" % float(np.abs(L.hs[0]).max()), case)
    if not isinstance(L, EffectiveLindbladian):
        ctx.violation("random_setting", site, "type", "wrong type", case)
    G, *_ = rs.generate_gate(case["seed"])
    choi = G.to_choi_matrix(); choi = np.asarray(choi.toarray() if hasattr(choi, "toarray") else choi)
    if md(G.hs[0], np.eye(n)[0]) > 1e-12 or not qcheck.herm_psd(ctx, choi, 1e-11):
        ctx.violation("random_setting", "RandomEffectiveLindbladianGenerationSetting.generate_gate", "not-physical", "generated gate is not physical", case)
    for bad in (-1.0,):
        try:
            RS(S["c_sys"], gate0, base, bad, sk)
            ctx.violation("random_setting", "RandomEffectiveLindbladianGenerationSetting.__init__", "error-branch", "negative strength accepted", case)
        except ValueError:
            pass


def sub_typical(ctx):
    rng = ctx.rng
    cases = []
    for sysn, cnt in [("1q", ctx.n(5, 30)), ("qutrit", ctx.n(3, 20)), ("2q", ctx.n(2, 10)), ("1q-rot", ctx.n(2, 10))]:
        S = get_sys(ctx, sysn); d = S["d"]
        for i in range(cnt):
            cases.append({"sys": sysn, "scale": scale_of(rng), "H": g_herm(rng, d), "rho": g_state(rng, d)})
    ctx.sample("typical", cases[0])
    ctx.run_cases("typical", chk_typical, cases)
    cases = []
    for sysn, cnt in [("1q", ctx.n(6, 40)), ("qutrit", ctx.n(3, 20)), ("2q", ctx.n(1, 8))]:
        for i in range(cnt):
            cases.append({"sys": sysn, "sh": [1e-4, 1e-2, 1.0, 1e-3][i % 4], "sk": [1e-3, 1.0, 1e-4, 1e-1][i % 4], "seed": rng.randint(0, 10 ** 6)})
    ctx.sample("random_setting", cases[0])
    ctx.run_cases("random_setting", chk_random_setting, cases)


SUBS = [("gen", sub_gen), ("extract", sub_extract), ("jump", sub_jump), ("verdict", sub_verdict), ("proj_eq", sub_proj_eq),
        ("proj_ineq", sub_proj_ineq), ("to_gate", sub_to_gate), ("tables", sub_tables), ("typical", sub_typical)]
FNS = {"gen": chk_gen, "extract": chk_extract, "jump": chk_jump, "verdict": chk_verdict, "proj_eq": chk_proj_eq, "proj_ineq": chk_proj_ineq,
       "verdict_boundary": chk_verdict_boundary, "cp_boundary": chk_cp_boundary, "to_gate": chk_to_gate, "tables": chk_tables, "typical": chk_typical, "random_setting": chk_random_setting}


# ------------------------------------------------------------------------------------------------ translator tie
def regen_skeletons(ctx):
    """regenerate (gen/c18_py2coq.py) the Gallina text of the loop skeletons of calc_h_mat / calc_j_mat / calc_k_mat, of
    generate_j/k/d_part_cb_from_jump_operators and of CompositeSystem._calc_basis_basisconjugate_sparse from the CURRENT source,
    compile it, and re-check coq/gen/C18_Equiv.v against it (protocol of flow.regen_check with this property's own translator).
    returns (ok, info)"""
    import os, re, shutil, subprocess, sys
    import runner
    V = runner.V
    scratch = os.path.join(getattr(ctx, "scratch", os.path.join(V, "build", ctx.prop_id)), "gen")
    os.makedirs(scratch, exist_ok=True)
    gen_v = os.path.join(scratch, "Gen_c18.v")
    for stem in (gen_v[:-2], os.path.join(scratch, "C18_Equiv")):
        for ext in (".v", ".vo", ".vos", ".vok", ".glob"):
            try:
                os.remove(stem + ext)
            except OSError:
                pass
    equiv = os.path.join(V, "coq", "gen", "C18_Equiv.v")
    src = open(equiv).read()
    src_nc = re.sub(r"\(\*.*?\*\)", " ", src, flags=re.S)
    thms = re.findall(r"^\s*Theorem\s+([\w']+)", src_nc, flags=re.M)
    ctx.theorems = list(ctx.theorems) + [t for t in thms if t not in ctx.theorems]
    ctx.obligations += len(thms)
    r = subprocess.run([sys.executable, os.path.join(V, "gen", "c18_py2coq.py"), os.environ.get("VERIF_REPO", "/repo"), gen_v],
                       capture_output=True, text=True, timeout=120)
    if r.returncode != 0:
        return False, {"theorem": thms[0], "error": "translator rejected the source (outside its subset): " + (r.stdout + r.stderr)[-600:]}
    q = ["-Q", os.path.join(V, "coq", "theories"), "QV", "-Q", scratch, "QVGen"]
    r = subprocess.run(["timeout", "300", "coqc"] + q + [gen_v], capture_output=True, text=True)
    if r.returncode != 0:
        return False, {"theorem": thms[0], "error": "regenerated definitions do not compile: " + (r.stdout + r.stderr)[-600:]}
    dst = os.path.join(scratch, "C18_Equiv.v")
    shutil.copy(equiv, dst)
    r = subprocess.run(["timeout", "600", "coqc"] + q + [dst], capture_output=True, text=True)
    out = r.stdout + r.stderr
    if r.returncode != 0:
        m_ = re.search(r"line (\d+), characters", out)
        thm = None
        if m_:
            upto = "\n".join(src.splitlines()[:int(m_.group(1))])
            names = re.findall(r"^\s*(?:Theorem|Lemma)\s+([\w']+)", upto, flags=re.M)
            thm = names[-1] if names else None
        return False, {"theorem": thm, "error": out[-800:]}
    blocks = runner.parse_assumptions(out)
    bad = [a for closed, axs in blocks for a in axs if a not in runner.ALLOWED_AXIOMS and a.split(".")[-1] not in runner.ALLOWED_AXIOMS]
    if len(blocks) != len(thms) or bad:
        return False, {"theorem": thms[0], "error": "assumption gate on regenerated proofs: %d blocks / %d theorems, disallowed %s" % (len(blocks), len(thms), bad)}
    for t, (closed, axs) in zip(thms, blocks):
        ctx.axioms[t] = "closed" if closed else sorted(set(axs))
    ctx.discharged += len(thms)
    return True, {}


def run(ctx):
    ctx.rule = ("inputs are small-integer complex matrices (H Hermitian /8, K = A A^dagger /16 full or low rank, or with exactly one negative direction of "
                "prescribed size, jump operators /4) times a strength in {1e-3..10}; systems: 1 qubit, qutrit, 2 qubits with quara's bases and rotated "
                "(generic, dense) Hermitian orthonormal bases; a case is distinct by its full JSON; non-trivial = not in the ambiguity band of a verdict "
                "and not one of the degenerate classes (projector jump operators, malformed-shape probes)")
    ctx.assumptions = ["complete positivity of exp(L) for K >= 0 (Lindblad's theorem) is NOT proved: to_gate is checked by quara's verdicts, an exact PSD decision on the Choi matrix and a rational Taylor sum",
                       "scipy.linalg.expm, numpy.linalg.eig/eigvalsh are oracles (outputs certificate-checked)"]
    import time

    def timed(name, fn):
        def g(c):
            t0 = time.time(); fn(c); c.note("sub-check %s: %.1f s" % (name, time.time() - t0))
        return g
    if not getattr(ctx, "_c18_wrapped", False):         # per-system wall time of the case functions (diagnostic note only)
        ctx._c18_wrapped = True
        orig = ctx.run_cases

        def run_cases(sub, fn, cases):
            for case in cases:
                t0 = time.time(); orig(sub, fn, [case])
                key = "%s/%s" % (sub, case.get("sys", "-") if isinstance(case, dict) else "-")
                _TIMES[key] = _TIMES.get(key, 0.0) + time.time() - t0
        ctx.run_cases = run_cases
    # flow.standard_run with this property's own translator tie (flow.regen_check is bound to gen/py2coq.py)
    import runner
    ok, info = runner.check_props(ctx)
    ok2, info2 = regen_skeletons(ctx)
    if not ok2:
        ok, info = False, info2
        ctx.note("regenerated loop-skeleton obligations (coq/gen/C18_Equiv.v) not discharged: %s" % str(info2)[:500])
        ctx.c18_tie_broken = True          # widen the sweeps that exercise the translated functions (extract, jump; tables are exhaustive anyway)
    if not ok:
        ctx.discharged = min(ctx.discharged, ctx.obligations - 1)
    for name, fn in [(nm, timed(nm, fn)) for nm, fn in SUBS]:
        if ctx.only is None or name in ctx.only:
            fn(ctx)
    if not ok and not ctx.violations:
        ctx.violation("theorems", "Props/C18.v + coq/gen/C18_Equiv.v", "theorem-broken:%s" % info.get("theorem"),
                      "theorem %s no longer checks: %s" % (info.get("theorem"), info.get("error", "")[-400:]),
                      {"theorem": info.get("theorem"), "error": info.get("error")}, no_input=True)
    elif not ok:
        ctx.note("theorem obligations not discharged: %s" % info)
    if _WORST:
        ctx.note("worst ratio error / allowance: " + ", ".join("%s %.3f" % kv for kv in sorted(_WORST.items())))
    ctx.note("case time by sub-check/system: " + ", ".join("%s %.1fs" % (k, v) for k, v in sorted(_TIMES.items()) if v >= 0.5))


def replay(ctx, doc):
    case = doc["case"]
    if doc["sub"] == "gen" and isinstance(case, dict) and "mode" not in case.get("case", case):
        flow.standard_replay(ctx, doc, {"gen": chk_gen_shape}); return
    if doc["sub"] == "verdict" and isinstance(case, dict) and "rel" in case.get("case", case):
        flow.standard_replay(ctx, doc, {"verdict": chk_cp_boundary if "pos" in case.get("case", case) else chk_verdict_boundary}); return
    flow.standard_replay(ctx, doc, FNS)
